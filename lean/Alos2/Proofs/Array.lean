/-
Helper lemmas for the array model (A — array algebra).

The theorems named in the original skeleton keep their statements; auxiliary lemmas live in
`Alos2.ArrayAux`.
-/
import Alos2.Model.Array

namespace Alos2

/-- `l.getD i d` inside the list -/
theorem ArrayAux.getD_eq_getElem' {α : Type} (l : List α) (d : α) {i : Nat} (h : i < l.length) : l.getD i d = l[i] := by
  simp [List.getD_eq_getElem?_getD, h]

open ArrayAux

/-- reading a chunk `[o, o+size)` and slicing it at relocated bounds is slicing the file -/
theorem slice_slice {α : Type} (l : List α) (o size s e : Nat) (h1 : o ≤ s) (h2 : s ≤ e → e ≤ o + size) :
    slice (slice l o (o + size)) (s - o) (e - o) = slice l s e := by
  unfold slice
  rw [List.drop_take, List.take_take, List.drop_drop]
  have : o + (s - o) = s := by omega
  rw [this]
  by_cases h : s ≤ e
  · have := h2 h
    congr 1
    omega
  · have e1 : e - o - (s - o) = 0 := by omega
    have e2 : e - s = 0 := by omega
    simp [e1, e2]

theorem mem_dedupKeys (l : List Nat) (k : Nat) : k ∈ dedupKeys l ↔ k ∈ l := by
  induction l with
  | nil => simp [dedupKeys]
  | cons a l ih =>
    simp only [dedupKeys, List.mem_cons, List.mem_filter, ih]
    by_cases h : k = a <;> simp [h]

theorem dedupKeys_nodup (l : List Nat) : (dedupKeys l).Nodup := by
  induction l with
  | nil => simp [dedupKeys]
  | cons a l ih =>
    simp only [dedupKeys, List.nodup_cons, List.mem_filter]
    refine ⟨by simp, ?_⟩
    exact ih.filter _

/-! chunksOf -/

theorem ArrayAux.slice_nil {α : Type} (a b : Nat) : slice ([] : List α) a b = [] := by simp [slice]

theorem ArrayAux.slice_drop {α : Type} (l : List α) (k a b : Nat) : slice (l.drop k) a b = slice l (k + a) (k + b) := by
  unfold slice
  rw [List.drop_drop]
  congr 1
  omega

theorem ArrayAux.chunksOfAux_getD {α : Type} (k : Nat) (hk : 0 < k) (fuel : Nat) (l : List α) (hl : l.length ≤ fuel) (c : Nat) :
    (chunksOfAux k fuel l).getD c [] = slice l (c * k) ((c + 1) * k) := by
  induction fuel generalizing l c with
  | zero =>
    have : l = [] := by cases l <;> simp_all
    subst this
    simp [chunksOfAux, slice_nil]
  | succ fuel ih =>
    cases l with
    | nil => simp [chunksOfAux, slice_nil]
    | cons x xs =>
      cases c with
      | zero => simp [chunksOfAux, slice]
      | succ c =>
        simp only [chunksOfAux, List.getD_cons_succ]
        rw [ih _ (by simp at hl ⊢; omega), slice_drop]
        congr 1 <;> simp [Nat.succ_mul] <;> omega

theorem ArrayAux.chunksOfAux_lt_length {α : Type} (k : Nat) (hk : 0 < k) (fuel : Nat) (l : List α) (hl : l.length ≤ fuel) (c : Nat) :
    c < (chunksOfAux k fuel l).length ↔ c * k < l.length := by
  induction fuel generalizing l c with
  | zero =>
    have : l = [] := by cases l <;> simp_all
    subst this
    simp [chunksOfAux]
  | succ fuel ih =>
    cases l with
    | nil => simp [chunksOfAux]
    | cons x xs =>
      cases c with
      | zero => simp [chunksOfAux]
      | succ c =>
        simp only [chunksOfAux, List.length_cons, Nat.add_lt_add_iff_right]
        rw [ih _ (by simp at hl ⊢; omega)]
        simp [Nat.succ_mul]
        omega

theorem ArrayAux.chunksOf_getD {α : Type} (k : Nat) (hk : 0 < k) (l : List α) (c : Nat) :
    (chunksOf k l).getD c [] = slice l (c * k) ((c + 1) * k) :=
  chunksOfAux_getD k hk _ l (Nat.le_refl _) c

theorem ArrayAux.chunksOf_lt_length {α : Type} (k : Nat) (hk : 0 < k) (l : List α) (c : Nat) :
    c < (chunksOf k l).length ↔ c * k < l.length :=
  chunksOfAux_lt_length k hk _ l (Nat.le_refl _) c

theorem ArrayAux.foldl_min_le (xs : List Nat) (x : Nat) : xs.foldl min x ≤ x ∧ ∀ y ∈ xs, xs.foldl min x ≤ y := by
  induction xs generalizing x with
  | nil => simp
  | cons a xs ih =>
    simp only [List.foldl_cons, List.mem_cons, forall_eq_or_imp]
    have := ih (min x a)
    refine ⟨by omega, by omega, this.2⟩

theorem ArrayAux.foldl_min_mem (xs : List Nat) (x : Nat) : xs.foldl min x = x ∨ xs.foldl min x ∈ xs := by
  induction xs generalizing x with
  | nil => simp
  | cons a xs ih =>
    simp only [List.foldl_cons, List.mem_cons]
    rcases ih (min x a) with h | h
    · rw [h]; omega
    · exact Or.inr (Or.inr h)

theorem ArrayAux.le_foldl_max (xs : List Nat) (x : Nat) : x ≤ xs.foldl max x ∧ ∀ y ∈ xs, y ≤ xs.foldl max x := by
  induction xs generalizing x with
  | nil => simp
  | cons a xs ih =>
    simp only [List.foldl_cons, List.mem_cons, forall_eq_or_imp]
    have := ih (max x a)
    refine ⟨by omega, by omega, this.2⟩

theorem ArrayAux.foldl_max_mem (xs : List Nat) (x : Nat) : xs.foldl max x = x ∨ xs.foldl max x ∈ xs := by
  induction xs generalizing x with
  | nil => simp
  | cons a xs ih =>
    simp only [List.foldl_cons, List.mem_cons]
    rcases ih (max x a) with h | h
    · rw [h]; omega
    · exact Or.inr (Or.inr h)

theorem ArrayAux.minList_le (l : List Nat) (y : Nat) (h : y ∈ l) : minList l ≤ y := by
  cases l with
  | nil => simp at h
  | cons x xs =>
    simp only [minList]
    rcases List.mem_cons.1 h with h | h
    · subst h; exact (foldl_min_le xs y).1
    · exact (foldl_min_le xs x).2 y h

theorem ArrayAux.minList_mem (l : List Nat) (h : l ≠ []) : minList l ∈ l := by
  cases l with
  | nil => simp at h
  | cons x xs =>
    simp only [minList, List.mem_cons]
    exact foldl_min_mem xs x

theorem ArrayAux.le_maxList (l : List Nat) (y : Nat) (h : y ∈ l) : y ≤ maxList l := by
  cases l with
  | nil => simp at h
  | cons x xs =>
    simp only [maxList]
    rcases List.mem_cons.1 h with h | h
    · subst h; exact (le_foldl_max xs y).1
    · exact (le_foldl_max xs x).2 y h

theorem ArrayAux.maxList_mem (l : List Nat) (h : l ≠ []) : maxList l ∈ l := by
  cases l with
  | nil => simp at h
  | cons x xs =>
    simp only [maxList, List.mem_cons]
    exact foldl_max_mem xs x

/-- membership in a slice -/
theorem ArrayAux.mem_slice_iff {α : Type} (l : List α) (a b : Nat) (x : α) :
    x ∈ slice l a b ↔ ∃ i, a ≤ i ∧ i < b ∧ ∃ h : i < l.length, l[i] = x := by
  unfold slice
  rw [List.mem_iff_getElem]
  constructor
  · rintro ⟨j, hj, rfl⟩
    simp at hj
    refine ⟨a + j, by omega, by omega, by omega, ?_⟩
    simp
  · rintro ⟨i, h1, h2, h3, rfl⟩
    refine ⟨i - a, by simp; omega, ?_⟩
    simp
    congr 1
    omega

theorem ArrayAux.chunkRanges_getD (ranges : List Range) (rpc : Nat) (hrpc : 0 < rpc) (c : Nat) (hc : c * rpc < ranges.length) :
    (chunkRanges ranges rpc).getD c (0, 0) =
      (minList ((slice ranges (c * rpc) ((c + 1) * rpc)).map Prod.fst),
       maxList ((slice ranges (c * rpc) ((c + 1) * rpc)).map Prod.snd)) := by
  have hlt := (chunksOf_lt_length rpc hrpc ranges c).2 hc
  unfold chunkRanges
  rw [getD_eq_getElem' _ _ (by simpa using hlt)]
  rw [List.getElem_map]
  have := chunksOf_getD rpc hrpc ranges c
  rw [getD_eq_getElem' _ _ hlt] at this
  rw [this]

theorem ArrayAux.div_mul_lt_of_lt {i rpc n : Nat} (hi : i < n) : i / rpc * rpc < n := by
  have := Nat.div_mul_le_self i rpc
  omega

/-- the chunk byte span brackets every member row -/
theorem chunkRanges_cover (ranges : List Range) (rpc : Nat) (hrpc : 0 < rpc) (i : Nat) (hi : i < ranges.length) :
    ((chunkRanges ranges rpc).getD (i / rpc) (0, 0)).1 ≤ (ranges.getD i (0, 0)).1 ∧
    (ranges.getD i (0, 0)).2 ≤ ((chunkRanges ranges rpc).getD (i / rpc) (0, 0)).2 := by
  rw [chunkRanges_getD ranges rpc hrpc _ (div_mul_lt_of_lt hi)]
  have hmem : ranges.getD i (0, 0) ∈ slice ranges (i / rpc * rpc) ((i / rpc + 1) * rpc) := by
    rw [mem_slice_iff]
    refine ⟨i, Nat.div_mul_le_self i rpc, ?_, hi, ?_⟩
    · have := Nat.div_add_mod i rpc
      have := Nat.mod_lt i hrpc
      rw [Nat.succ_mul, Nat.mul_comm]
      omega
    · rw [getD_eq_getElem' _ _ hi]
  constructor
  · exact minList_le _ _ (List.mem_map_of_mem hmem)
  · exact le_maxList _ _ (List.mem_map_of_mem hmem)

/-- the chunk byte span starts at the start of one of the chunk's rows and ends at the stop of one of them -/
theorem chunkRanges_attained (ranges : List Range) (rpc : Nat) (hrpc : 0 < rpc) (c : Nat) (hc : c * rpc < ranges.length) :
    ∃ i j, i / rpc = c ∧ j / rpc = c ∧ i < ranges.length ∧ j < ranges.length ∧
      (chunkRanges ranges rpc).getD c (0, 0) = ((ranges.getD i (0, 0)).1, (ranges.getD j (0, 0)).2) := by
  rw [chunkRanges_getD ranges rpc hrpc _ hc]
  have hne : slice ranges (c * rpc) ((c + 1) * rpc) ≠ [] := by
    intro h
    have : ranges[c * rpc] ∈ slice ranges (c * rpc) ((c + 1) * rpc) := by
      rw [mem_slice_iff]
      exact ⟨c * rpc, Nat.le_refl _, by rw [Nat.succ_mul]; omega, hc, rfl⟩
    rw [h] at this
    simp at this
  have h1 := minList_mem ((slice ranges (c * rpc) ((c + 1) * rpc)).map Prod.fst) (by simpa using hne)
  have h2 := maxList_mem ((slice ranges (c * rpc) ((c + 1) * rpc)).map Prod.snd) (by simpa using hne)
  rw [List.mem_map] at h1 h2
  obtain ⟨r1, hr1, e1⟩ := h1
  obtain ⟨r2, hr2, e2⟩ := h2
  rw [mem_slice_iff] at hr1 hr2
  obtain ⟨i, hi1, hi2, hi3, rfl⟩ := hr1
  obtain ⟨j, hj1, hj2, hj3, rfl⟩ := hr2
  have key : ∀ i, c * rpc ≤ i → i < (c + 1) * rpc → i / rpc = c := by
    intro i h1 h2
    rw [Nat.succ_mul] at h2
    rw [Nat.mul_comm] at h1 h2
    apply Nat.div_eq_of_lt_le
    · rw [Nat.mul_comm]; exact h1
    · rw [Nat.succ_mul, Nat.mul_comm]; exact h2
  refine ⟨i, j, key i hi1 hi2, key j hj1 hj2, hi3, hj3, ?_⟩
  rw [getD_eq_getElem' _ _ hi3, getD_eq_getElem' _ _ hj3, e1, e2]

/-- `samples`: sample `j` of a row is the `bpp` bytes at offset `j * bpp` -/
theorem samples_getD (bpp : Nat) (part : Bytes) (row : List Bytes) (h : samples bpp part = .ok row) (j : Nat)
    (hj : j < row.length) : row.getD j [] = slice part (j * bpp) ((j + 1) * bpp) := by
  unfold samples at h
  split at h
  · cases h
  · split at h
    · cases h
    · cases h
      exact chunksOf_getD bpp (by omega) part j

theorem samples_length (bpp : Nat) (part : Bytes) (row : List Bytes) (h : samples bpp part = .ok row) :
    row.length * bpp = part.length := by
  unfold samples at h
  split at h
  · cases h
  · split at h
    · cases h
    · rename_i h0 hmod
      cases h
      have hk : 0 < bpp := by omega
      have hmod : part.length % bpp = 0 := by simpa using hmod
      have hiff := chunksOf_lt_length bpp hk part
      have hdm := Nat.div_add_mod part.length bpp
      rw [hmod, Nat.add_zero] at hdm
      -- length = part.length / bpp
      have h1 : ¬ ((chunksOf bpp part).length < (chunksOf bpp part).length) := Nat.lt_irrefl _
      rw [hiff] at h1
      apply Nat.le_antisymm
      · apply Nat.le_of_not_lt
        intro hlt
        cases hL : (chunksOf bpp part).length with
        | zero => rw [hL] at hlt; simp at hlt
        | succ m =>
          have := (hiff m).1 (by omega)
          rw [hL, Nat.succ_mul] at hlt
          -- m*bpp < len, len < m*bpp + bpp, bpp ∣ len
          have h3 : m < part.length / bpp := by
            exact (Nat.lt_div_iff_mul_lt_of_dvd (by omega) (Nat.dvd_of_mod_eq_zero hmod)).2 this
          have h4 : part.length / bpp < m + 1 := by
            apply (Nat.div_lt_iff_lt_mul hk).2
            rw [Nat.succ_mul]; exact hlt
          omega
      · omega

theorem ArrayAux.rangeList_pos_mem (s e st : Int) (hst : 0 < st) (x : Int) (hx : x ∈ rangeList s e st) :
    s ≤ x ∧ x < e := by
  unfold rangeList at hx
  rw [if_pos hst] at hx
  split at hx
  · rename_i hse
    simp only [List.mem_map, List.mem_range] at hx
    obtain ⟨i, hi, rfl⟩ := hx
    have hq : 0 ≤ (e - s - 1) / st := Int.ediv_nonneg (by omega) (by omega)
    have hi' : (i : Int) ≤ (e - s - 1) / st := by omega
    have h1 : (i : Int) * st ≤ (e - s - 1) / st * st := Int.mul_le_mul_of_nonneg_right hi' (by omega)
    have h2 : (e - s - 1) / st * st ≤ e - s - 1 := Int.ediv_mul_le _ (by omega)
    have h3 : 0 ≤ (i : Int) * st := Int.mul_nonneg (by omega) (by omega)
    omega
  · simp at hx

theorem ArrayAux.rangeList_neg_mem (s e st : Int) (hst : st < 0) (x : Int) (hx : x ∈ rangeList s e st) :
    e < x ∧ x ≤ s := by
  unfold rangeList at hx
  rw [if_neg (by omega), if_pos hst] at hx
  split at hx
  · rename_i hse
    simp only [List.mem_map, List.mem_range] at hx
    obtain ⟨i, hi, rfl⟩ := hx
    have hq : 0 ≤ (s - e - 1) / (-st) := Int.ediv_nonneg (by omega) (by omega)
    have hi' : (i : Int) ≤ (s - e - 1) / (-st) := by omega
    have h1 : (i : Int) * (-st) ≤ (s - e - 1) / (-st) * (-st) := Int.mul_le_mul_of_nonneg_right hi' (by omega)
    have h2 : (s - e - 1) / (-st) * (-st) ≤ s - e - 1 := Int.ediv_mul_le _ (by omega)
    have h3 : 0 ≤ (i : Int) * (-st) := Int.mul_nonneg (by omega) (by omega)
    have h4 : (i : Int) * (-st) = - ((i : Int) * st) := Int.mul_neg _ _
    omega
  · simp at hx

theorem ArrayAux.rangeList_zero (s e : Int) : rangeList s e 0 = [] := by
  simp [rangeList]

theorem ArrayAux.map_range_pairwise_le (k : Nat) (s st : Int) (hst : 0 ≤ st) :
    (((List.range k).map (fun (i : Nat) => s + (i : Int) * st)).map Int.toNat).Pairwise (· ≤ ·) := by
  rw [List.pairwise_map, List.pairwise_map]
  refine List.Pairwise.imp ?_ (List.pairwise_lt_range (n := k))
  intro a b hab
  apply Int.toNat_le_toNat
  have : (a : Int) * st ≤ (b : Int) * st := Int.mul_le_mul_of_nonneg_right (by omega) hst
  omega

theorem ArrayAux.map_range_pairwise_ge (k : Nat) (s st : Int) (hst : st ≤ 0) :
    (((List.range k).map (fun (i : Nat) => s + (i : Int) * st)).map Int.toNat).Pairwise (· ≥ ·) := by
  rw [List.pairwise_map, List.pairwise_map]
  refine List.Pairwise.imp ?_ (List.pairwise_lt_range (n := k))
  intro a b hab
  apply Int.toNat_le_toNat
  have : (a : Int) * (-st) ≤ (b : Int) * (-st) := Int.mul_le_mul_of_nonneg_right (by omega) (by omega)
  rw [Int.mul_neg, Int.mul_neg] at this
  omega

theorem ArrayAux.rangeList_monotone (s e st : Int) :
    ((rangeList s e st).map Int.toNat).Pairwise (· ≤ ·) ∨ ((rangeList s e st).map Int.toNat).Pairwise (· ≥ ·) := by
  unfold rangeList
  split
  · split
    · exact Or.inl (map_range_pairwise_le _ _ _ (by omega))
    · simp
  · split
    · split
      · exact Or.inr (map_range_pairwise_ge _ _ _ (by omega))
      · simp
    · simp

theorem ArrayAux.adjustBound_pos (n : Nat) (v : Int) : 0 ≤ adjustBound n false v ∧ adjustBound n false v ≤ n := by
  unfold adjustBound
  split
  · split <;> (try simp) <;> omega
  · split <;> (try simp) <;> omega

theorem ArrayAux.adjustBound_neg (n : Nat) (v : Int) : -1 ≤ adjustBound n true v ∧ adjustBound n true v ≤ (n : Int) - 1 := by
  unfold adjustBound
  split
  · split <;> (try simp) <;> omega
  · split <;> (try simp) <;> omega

theorem ArrayAux.toNat_lt_of_rangeList (n : Nat) (s e st x : Int) (hx : x ∈ rangeList s e st)
    (h : if st < 0 then (-1 ≤ e ∧ s ≤ (n : Int) - 1) else (0 ≤ s ∧ e ≤ n)) : x.toNat < n := by
  by_cases hneg : st < 0
  · rw [if_pos hneg] at h
    have := rangeList_neg_mem _ _ _ hneg x hx
    omega
  · rw [if_neg hneg] at h
    by_cases h0 : st = 0
    · subst h0; rw [rangeList_zero] at hx; simp at hx
    · have := rangeList_pos_mem _ _ _ (by omega) x hx
      omega

theorem ArrayAux.sliceIndices_bounds (n : Nat) (a b c : Option Int) (l : List Nat) (h : sliceIndices n a b c = .ok l) :
    ∀ i ∈ l, i < n := by
  unfold sliceIndices at h
  simp only at h
  split at h
  · cases h
  · rename_i hst
    injection h with h
    subst h
    intro i hi
    rw [List.mem_map] at hi
    obtain ⟨x, hx, rfl⟩ := hi
    apply toNat_lt_of_rangeList n _ _ _ x hx
    have A := adjustBound_neg n
    have B := adjustBound_pos n
    by_cases hneg : c.getD 1 < 0
    · rw [if_pos hneg]
      cases a <;> cases b <;> simp only [hneg, decide_true, if_true] <;> constructor <;>
        first | omega | exact (A _).1 | exact (A _).2
    · rw [if_neg hneg]
      cases a <;> cases b <;> simp only [hneg, decide_false, Bool.false_eq_true, if_false] <;> constructor <;>
        first | omega | exact (B _).1 | exact (B _).2

theorem ArrayAux.sliceIndices_monotone (n : Nat) (a b c : Option Int) (l : List Nat) (h : sliceIndices n a b c = .ok l) :
    l.Pairwise (· ≤ ·) ∨ l.Pairwise (· ≥ ·) := by
  unfold sliceIndices at h
  simp only at h
  split at h
  · cases h
  · injection h with h
    subst h
    exact rangeList_monotone _ _ _

/-- selected positions are inside the axis -/
theorem selectAxis_bounds (n : Nat) (k : Idx) (l : List Nat) (d : Bool) (h : selectAxis n k = .ok (l, d)) :
    ∀ i ∈ l, i < n := by
  cases k with
  | int i =>
    simp only [selectAxis] at h
    split at h
    · injection h with h; injection h with h1 h2
      subst h1; intro j hj; simp at hj; omega
    · split at h
      · injection h with h; injection h with h1 h2
        subst h1; intro j hj; simp at hj; omega
      · cases h
  | slice a b c =>
    simp only [selectAxis] at h
    cases hs : sliceIndices n a b c with
    | error e => rw [hs] at h; cases h
    | ok l' =>
      rw [hs] at h
      simp only [Except.map] at h
      injection h with h; injection h with h1 h2
      subst h1
      exact sliceIndices_bounds n a b c _ hs

/-- selected positions are monotone (increasing for positive steps, decreasing for negative ones) -/
theorem selectAxis_monotone (n : Nat) (k : Idx) (l : List Nat) (d : Bool) (h : selectAxis n k = .ok (l, d)) :
    l.Pairwise (· ≤ ·) ∨ l.Pairwise (· ≥ ·) := by
  cases k with
  | int i =>
    simp only [selectAxis] at h
    split at h
    · injection h with h; injection h with h1 h2
      subst h1; simp
    · split at h
      · injection h with h; injection h with h1 h2
        subst h1; simp
      · cases h
  | slice a b c =>
    simp only [selectAxis] at h
    cases hs : sliceIndices n a b c with
    | error e => rw [hs] at h; cases h
    | ok l' =>
      rw [hs] at h
      simp only [Except.map] at h
      injection h with h; injection h with h1 h2
      subst h1
      exact sliceIndices_monotone n a b c _ hs

/-- an integer key selects exactly one position and drops the axis; a slice never drops it -/
theorem selectAxis_drop (n : Nat) (k : Idx) (l : List Nat) (h : selectAxis n k = .ok (l, true)) :
    ∃ i, l = [i] := by
  cases k with
  | int i =>
    simp only [selectAxis] at h
    split at h
    · injection h with h; injection h with h1 h2
      exact ⟨_, h1.symm⟩
    · split at h
      · injection h with h; injection h with h1 h2
        exact ⟨_, h1.symm⟩
      · cases h
  | slice a b c =>
    simp only [selectAxis] at h
    cases hs : sliceIndices n a b c with
    | error e => rw [hs] at h; cases h
    | ok l' =>
      rw [hs] at h
      simp only [Except.map] at h
      injection h with h; injection h with h1 h2
      cases h2

theorem groupByChunk_keys (rpc : Nat) (sel : List (Nat × Range)) :
    (groupByChunk rpc sel).map Prod.fst = dedupKeys (sel.map (fun it => it.1 / rpc)) := by
  unfold groupByChunk
  rw [List.map_map]
  conv => rhs; rw [← List.map_id (dedupKeys _)]
  rfl

/-- a key list made of runs: either the head key never reappears, or it is repeated immediately -/
theorem ArrayAux.run_dichotomy {α : Type} (R : Nat → Nat → Prop) (hanti : ∀ a b, R a b → R b a → a = b)
    (f : α → Nat) (x : α) (xs : List α) (h : ((x :: xs).map f).Pairwise R) :
    (∀ y ∈ xs, f y ≠ f x) ∨ ∃ y ys, xs = y :: ys ∧ f y = f x := by
  cases xs with
  | nil => left; simp
  | cons y ys =>
    by_cases hy : f y = f x
    · right; exact ⟨y, ys, rfl, hy⟩
    · left
      simp only [List.map_cons, List.pairwise_cons, List.mem_cons, List.mem_map, forall_eq_or_imp,
        forall_exists_index, and_imp, forall_apply_eq_imp_iff₂] at h
      obtain ⟨⟨hxy, hxz⟩, hyz, _⟩ := h
      intro z hz
      rcases List.mem_cons.1 hz with rfl | hz
      · exact hy
      · intro hzx
        apply hy
        have h1 := hyz z hz
        rw [hzx] at h1
        exact hanti _ _ h1 hxy

theorem ArrayAux.filter_ne_eq_self_of_not_mem (l : List Nat) (k : Nat) (h : k ∉ l) : l.filter (· ≠ k) = l := by
  rw [List.filter_eq_self]
  intro a ha
  simp only [ne_eq, decide_not, Bool.not_eq_eq_eq_not, Bool.not_true, decide_eq_false_iff_not]
  rintro rfl
  exact h ha

theorem ArrayAux.flatMap_congr' {α β : Type} {l : List α} {f g : α → List β} (h : ∀ x ∈ l, f x = g x) :
    l.flatMap f = l.flatMap g := by
  rw [List.flatMap_def, List.flatMap_def, List.map_congr_left h]

theorem ArrayAux.flatMap_dedup_filter {α : Type} (R : Nat → Nat → Prop) (hanti : ∀ a b, R a b → R b a → a = b)
    (f : α → Nat) (l : List α) (h : (l.map f).Pairwise R) :
    (dedupKeys (l.map f)).flatMap (fun k => l.filter (fun x => f x = k)) = l := by
  induction l with
  | nil => simp [dedupKeys]
  | cons x xs ih =>
    have hxs : (xs.map f).Pairwise R := by
      simp only [List.map_cons, List.pairwise_cons] at h; exact h.2
    have ih := ih hxs
    have hcong : ∀ D : List Nat, (D.filter (· ≠ f x)).flatMap (fun k => (x :: xs).filter (fun z => f z = k))
        = (D.filter (· ≠ f x)).flatMap (fun k => xs.filter (fun z => f z = k)) := by
      intro D
      apply flatMap_congr'
      intro k hk
      simp only [ne_eq, decide_not, List.mem_filter, Bool.not_eq_eq_eq_not, Bool.not_true,
        decide_eq_false_iff_not] at hk
      rw [List.filter_cons_of_neg]
      simp only [decide_eq_true_eq]
      exact fun e => hk.2 e.symm
    simp only [List.map_cons, dedupKeys, List.flatMap_cons]
    rw [hcong, List.filter_cons_of_pos (by simp), List.cons_append]
    congr 1
    rcases run_dichotomy R hanti f x xs h with hA | ⟨y, ys, rfl, hy⟩
    · have h1 : xs.filter (fun z => decide (f z = f x)) = [] := by
        rw [List.filter_eq_nil_iff]
        intro a ha
        simpa using hA a ha
      rw [h1, List.nil_append, filter_ne_eq_self_of_not_mem]
      · exact ih
      · rw [mem_dedupKeys]
        simp only [List.mem_map, not_exists, not_and]
        exact fun a ha => hA a ha
    · have hD : (dedupKeys ((y :: ys).map f)).filter (· ≠ f x) = (dedupKeys (ys.map f)).filter (· ≠ f x) := by
        simp only [List.map_cons, dedupKeys, hy]
        rw [List.filter_cons_of_neg (by simp), List.filter_filter]
        simp
      have hI : dedupKeys ((y :: ys).map f) = f x :: (dedupKeys (ys.map f)).filter (· ≠ f x) := by
        simp only [List.map_cons, dedupKeys, hy]
      rw [hD]
      rw [hI, List.flatMap_cons] at ih
      exact ih

theorem ArrayAux.le_antisymm' : ∀ a b : Nat, a ≤ b → b ≤ a → a = b := fun _ _ => Nat.le_antisymm
theorem ArrayAux.ge_antisymm' : ∀ a b : Nat, a ≥ b → b ≥ a → a = b := fun _ _ h1 h2 => Nat.le_antisymm h2 h1

theorem ArrayAux.pairwise_div_of_pairwise (rpc : Nat) (l : List Nat) :
    (l.Pairwise (· ≤ ·) → (l.map (· / rpc)).Pairwise (· ≤ ·)) ∧
    (l.Pairwise (· ≥ ·) → (l.map (· / rpc)).Pairwise (· ≥ ·)) := by
  constructor
  · intro h
    rw [List.pairwise_map]
    exact h.imp (fun hab => Nat.div_le_div_right hab)
  · intro h
    rw [List.pairwise_map]
    exact h.imp (fun hab => Nat.div_le_div_right hab)

theorem ArrayAux.groupByChunk_flatten_filter (rpc : Nat) (sel : List (Nat × Range))
    (hmono : (sel.map (fun it => it.1)).Pairwise (· ≤ ·) ∨ (sel.map (fun it => it.1)).Pairwise (· ≥ ·)) :
    (dedupKeys (sel.map (fun it => it.1 / rpc))).flatMap (fun k => sel.filter (fun it => it.1 / rpc = k)) = sel := by
  have e : sel.map (fun it => it.1 / rpc) = (sel.map (fun it => it.1)).map (· / rpc) := by
    rw [List.map_map]; rfl
  rcases hmono with h | h
  · apply flatMap_dedup_filter (· ≤ ·) le_antisymm'
    rw [e]
    exact (pairwise_div_of_pairwise rpc _).1 h
  · apply flatMap_dedup_filter (· ≥ ·) ge_antisymm'
    rw [e]
    exact (pairwise_div_of_pairwise rpc _).2 h

/-- for a monotone selection, grouping by chunk and concatenating the groups gives back the selection
    (false for interleaved selections such as rows [4, 0, 5] with chunks of 3) -/
theorem groupByChunk_flatten (rpc : Nat) (sel : List (Nat × Range))
    (hmono : (sel.map (fun it => it.1)).Pairwise (· ≤ ·) ∨ (sel.map (fun it => it.1)).Pairwise (· ≥ ·)) :
    (groupByChunk rpc sel).flatMap (fun g => g.2.map (fun r => (g.1, r))) =
      sel.map (fun it => (it.1 / rpc, it.2)) := by
  have key := groupByChunk_flatten_filter rpc sel hmono
  conv => rhs; rw [← key]
  unfold groupByChunk
  rw [List.flatMap_map, List.map_flatMap]
  apply flatMap_congr'
  intro k _
  simp only [List.map_map]
  apply List.map_congr_left
  intro it hit
  simp only [List.mem_filter, decide_eq_true_eq] at hit
  simp [hit.2]

/-- the I/O trace of a selection: one `seek`+`read` per touched chunk, in first-touch order, inside one open/close -/
theorem getitem_trace (img : Image) (k0 k1 : Idx) (rows : List Nat) (d : Bool)
    (h : selectAxis img.ranges.length k0 = .ok (rows, d)) :
    (getitem img k0 k1).2 =
      [IOEvent.open_] ++ (dedupKeys (rows.map (· / img.rpc))).flatMap (fun c =>
        [IOEvent.seek ((chunkRanges img.ranges img.rpc).getD c (0, 0)).1,
         IOEvent.read (((chunkRanges img.ranges img.rpc).getD c (0, 0)).2 - ((chunkRanges img.ranges img.rpc).getD c (0, 0)).1)])
      ++ [IOEvent.close] := by
  unfold getitem
  rw [h]
  simp only
  have hk : dedupKeys (rows.map (· / img.rpc)) =
      (groupByChunk img.rpc (rows.map (fun i => (i, img.ranges.getD i (0, 0))))).map Prod.fst := by
    rw [groupByChunk_keys, List.map_map]
    rfl
  rw [hk, List.flatMap_map, List.flatMap_map]

/-- a failed key evaluation (IndexError / zero step) touches no file -/
theorem getitem_trace_error (img : Image) (k0 k1 : Idx) (e : Err)
    (h : selectAxis img.ranges.length k0 = .error e) : (getitem img k0 k1).2 = [] := by
  unfold getitem
  rw [h]

theorem ArrayAux.map_getD_range {α : Type} (l : List α) (d : α) : (List.range l.length).map (fun i => l.getD i d) = l := by
  apply List.ext_getElem
  · simp
  · intro i h1 h2
    simp at h1
    simp [h1]

theorem ArrayAux.rangeList_full (n : Nat) : (rangeList 0 n 1).map Int.toNat = List.range n := by
  unfold rangeList
  simp only [Int.zero_lt_one, if_true]
  split
  · rename_i h
    have : ((n : Int) - 0 - 1) / 1 + 1 = n := by simp
    rw [this]
    simp only [Int.toNat_natCast, Int.zero_add, Int.mul_one, List.map_map]
    conv => rhs; rw [← List.map_id (List.range n)]
    apply List.map_congr_left
    intro a _
    simp
  · have : n = 0 := by omega
    subst this
    simp

theorem ArrayAux.selectAxis_all (n : Nat) : selectAxis n (.slice none none none) = .ok (List.range n, false) := by
  simp only [selectAxis, sliceIndices, Option.getD_none]
  simp [Except.map, rangeList_full]

/-- full slices on both axes return the loaded image itself -/
theorem npIndex_all {α : Type} [Inhabited α] (full : List (List α)) (ncols : Nat)
    (hrect : ∀ row ∈ full, row.length = ncols) :
    npIndex full ncols (.slice none none none) (.slice none none none) = .ok (.d2 ncols full) := by
  unfold npIndex indexColumns
  rw [selectAxis_all, selectAxis_all]
  simp only [bind, Except.bind, pure, Except.pure]
  rw [map_getD_range, List.length_range]
  congr 2
  conv => rhs; rw [← List.map_id full]
  apply List.map_congr_left
  intro row hrow
  rw [← hrect row hrow]
  exact map_getD_range row default

theorem ArrayAux.mapM_ok_cons_inv {ε α β : Type} (f : α → Except ε β) (x : α) (xs : List α) (ys : List β)
    (h : (x :: xs).mapM f = .ok ys) : ∃ y ys', ys = y :: ys' ∧ f x = .ok y ∧ xs.mapM f = .ok ys' := by
  rw [List.mapM_cons] at h
  cases hx : f x with
  | error e => rw [hx] at h; cases h
  | ok y =>
    rw [hx] at h
    cases hxs : xs.mapM f with
    | error e => rw [hxs] at h; cases h
    | ok ys' =>
      rw [hxs] at h
      refine ⟨y, ys', ?_, rfl, rfl⟩
      cases h
      rfl

theorem ArrayAux.mapM_ok_getD {ε α β : Type} (f : α → Except ε β) (l : List α) (ys : List β) (d : β)
    (h : l.mapM f = .ok ys) :
    ys.length = l.length ∧ ∀ i (hi : i < l.length), f l[i] = .ok (ys.getD i d) := by
  induction l generalizing ys with
  | nil =>
    rw [List.mapM_nil] at h
    cases h
    simp
  | cons x xs ih =>
    obtain ⟨y, ys', rfl, hx, hxs⟩ := mapM_ok_cons_inv f x xs ys h
    have := ih ys' hxs
    refine ⟨by simp [this.1], ?_⟩
    intro i hi
    cases i with
    | zero => simpa using hx
    | succ i =>
      simp only [List.getElem_cons_succ, List.getD_cons_succ]
      exact this.2 i (by simpa using hi)

theorem ArrayAux.mapM_map_ok {ε α β γ : Type} (f : β → Except ε γ) (g : α → β) (h : α → γ) (sel : List α)
    (hh : ∀ x ∈ sel, f (g x) = .ok (h x)) : (sel.map g).mapM f = .ok (sel.map h) := by
  induction sel with
  | nil => simp [List.mapM_nil, pure, Except.pure]
  | cons x xs ih =>
    rw [List.map_cons, List.mapM_cons, hh x (by simp), ih (fun y hy => hh y (by simp [hy]))]
    rfl

/-- each extracted part is the row's byte range of the file -/
theorem ArrayAux.extract_eq_slice (img : Image) (hrpc : 0 < img.rpc) (i : Nat) (hi : i < img.ranges.length) :
    let cr := (chunkRanges img.ranges img.rpc).getD (i / img.rpc) (0, 0)
    extractRange (readChunk img.file cr.1 (cr.2 - cr.1)) cr.1 (img.ranges.getD i (0, 0)) =
      slice img.file (img.ranges.getD i (0, 0)).1 (img.ranges.getD i (0, 0)).2 := by
  intro cr
  have hc := chunkRanges_cover img.ranges img.rpc hrpc i hi
  unfold extractRange readChunk
  apply slice_slice
  · exact hc.1
  · intro _
    have := hc.2
    show _ ≤ cr.1 + (cr.2 - cr.1)
    have : (img.ranges.getD i (0, 0)).2 ≤ cr.2 := hc.2
    omega

theorem ArrayAux.parts_eq (img : Image) (hrpc : 0 < img.rpc) (rowsSel : List Nat)
    (hb : ∀ i ∈ rowsSel, i < img.ranges.length)
    (hmono : rowsSel.Pairwise (· ≤ ·) ∨ rowsSel.Pairwise (· ≥ ·)) :
    ((groupByChunk img.rpc (rowsSel.map (fun i => (i, img.ranges.getD i (0, 0))))).map
        (fun (c, rs) => let cr := (chunkRanges img.ranges img.rpc).getD c (0, 0); (cr.1, cr.2 - cr.1, rs))).flatMap
      (fun (o, s, rs) => rs.map (extractRange (readChunk img.file o s) o)) =
    rowsSel.map (fun i => slice img.file (img.ranges.getD i (0, 0)).1 (img.ranges.getD i (0, 0)).2) := by
  have hsel : ((rowsSel.map (fun i => (i, img.ranges.getD i (0, 0)))).map (fun it => it.1)) = rowsSel := by
    rw [List.map_map]
    conv => rhs; rw [← List.map_id rowsSel]
    rfl
  have hfl := groupByChunk_flatten img.rpc (rowsSel.map (fun i => (i, img.ranges.getD i (0, 0))))
    (by rw [hsel]; exact hmono)
  rw [List.flatMap_map]
  have h1 : ∀ G : List (Nat × List Range),
      G.flatMap (fun g => g.2.map (extractRange (readChunk img.file
        ((chunkRanges img.ranges img.rpc).getD g.1 (0, 0)).1
        (((chunkRanges img.ranges img.rpc).getD g.1 (0, 0)).2 - ((chunkRanges img.ranges img.rpc).getD g.1 (0, 0)).1))
        ((chunkRanges img.ranges img.rpc).getD g.1 (0, 0)).1)) =
      (G.flatMap (fun g => g.2.map (fun r => (g.1, r)))).map (fun p => extractRange (readChunk img.file
        ((chunkRanges img.ranges img.rpc).getD p.1 (0, 0)).1
        (((chunkRanges img.ranges img.rpc).getD p.1 (0, 0)).2 - ((chunkRanges img.ranges img.rpc).getD p.1 (0, 0)).1))
        ((chunkRanges img.ranges img.rpc).getD p.1 (0, 0)).1 p.2) := by
    intro G
    rw [List.map_flatMap]
    apply flatMap_congr'
    intro g _
    rw [List.map_map]
    rfl
  refine Eq.trans (h1 _) ?_
  rw [hfl, List.map_map, List.map_map]
  apply List.map_congr_left
  intro i hi
  exact extract_eq_slice img hrpc i (hb i hi)

theorem ArrayAux.stackOk_of_rect {α : Type} (rows : List (List α)) (n : Nat) (h : ∀ r ∈ rows, r.length = n) :
    stackOk rows = true := by
  cases rows with
  | nil => rfl
  | cons r rs =>
    simp only [stackOk, List.all_eq_true, beq_iff_eq]
    intro x hx
    rw [h x (by simp [hx]), h r (by simp)]

theorem getitem_eq_npIndex (img : Image) (full : List (List Bytes))
    (hload : loadAll img = .ok full) (hrect : ∀ row ∈ full, row.length = img.ncols)
    (hrpc : 0 < img.rpc) (k0 k1 : Idx) :
    (getitem img k0 k1).1 = npIndex full img.ncols k0 k1 := by
  unfold loadAll at hload
  obtain ⟨hlen, hrow⟩ := mapM_ok_getD _ _ _ [] hload
  unfold getitem npIndex
  rw [hlen]
  cases hsel : selectAxis img.ranges.length k0 with
  | error e => rfl
  | ok p =>
    obtain ⟨rowsSel, dropRow⟩ := p
    have hb := selectAxis_bounds _ _ _ _ hsel
    have hmono := selectAxis_monotone _ _ _ _ hsel
    simp only
    rw [parts_eq img hrpc rowsSel hb hmono]
    have hm : (rowsSel.map (fun i => slice img.file (img.ranges.getD i (0, 0)).1 (img.ranges.getD i (0, 0)).2)).mapM
        (samples img.bpp) = .ok (rowsSel.map (fun i => full.getD i [])) := by
      apply mapM_map_ok
      intro i hi
      have hi' := hb i hi
      rw [getD_eq_getElem' _ _ hi']
      exact hrow i hi'
    rw [hm]
    have hR : ∀ r ∈ rowsSel.map (fun i => full.getD i []), r.length = img.ncols := by
      intro r hr
      rw [List.mem_map] at hr
      obtain ⟨i, hi, rfl⟩ := hr
      apply hrect
      have hi' : i < full.length := by rw [hlen]; exact hb i hi
      rw [getD_eq_getElem' _ _ hi']
      exact List.getElem_mem _
    simp only [bind, Except.bind]
    rw [stackOk_of_rect _ _ hR]
    generalize rowsSel.map (fun i => full.getD i []) = R at hR
    cases R with
    | nil => rfl
    | cons r rs =>
      have := hR r (by simp)
      simp only [this]
      rfl

end Alos2

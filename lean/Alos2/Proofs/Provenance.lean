/-
Provenance theorems: for EVERY file content, each transformer output is the frozen documented tree
(`Spec/Trees.lean`, rendered from spec/provenance.json) with every symbolic leaf evaluated on the parsed
record — i.e. every output leaf is the documented field (by path) under the documented leaf function, with
the documented name, dimensions, attributes and group path, and there are no other leaves.

Chain: parse ⟹ shape (`Proofs/Shape.lean`) ⟹ naturality (`Proofs/Natural.lean`) ⟹ a computation on syntax
(`decide`) comparing the symbolic pipeline output on the regenerated layout with the frozen tree.
-/
import Alos2.Model.Sym
import Alos2.Gen.Layouts
import Alos2.Spec.Trees
import Alos2.Proofs.Shape
import Alos2.Proofs.Natural
import Alos2.Proofs.Layout

namespace Alos2

/-- the real leaf functions are the symbolic ones evaluated -/
theorem compat_eval (v : Val) (ρ : String → Sym → Bool)
    (h1 : ∀ s, ρ "isEmptyStr" s = realLeafFns.isEmptyStr (s.eval v))
    (h2 : ∀ s, ρ "isMinusOne" s = realLeafFns.isMinusOne (s.eval v))
    (h3 : ∀ s, ρ "isNan" s = realLeafFns.isNan (s.eval v)) :
    Compat (Sym.eval v) (symLeafFns ρ) realLeafFns := by
  constructor
  · intro a; simp [symLeafFns, Sym.eval]
  · intro a; simp [symLeafFns, Sym.eval]
  · intro a; simp [symLeafFns, h1]
  · intro a; simp [symLeafFns, h2]
  · intro a; simp [symLeafFns, h3]

/-! ### Boolean equality tests on output trees, with soundness (for kernel computation on syntax) -/

namespace Prov
variable {α : Type} [DecidableEq α]

mutual
def pbeq : PVal α → PVal α → Bool
  | .leaf a, .leaf b => decide (a = b)
  | .cstr a, .cstr b => decide (a = b)
  | .cint a, .cint b => decide (a = b)
  | .list xs, .list ys => pbeqList xs ys
  | .dict xs, .dict ys => pbeqKvs xs ys
  | .tup xs, .tup ys => pbeqList xs ys
  | _, _ => false
def pbeqList : List (PVal α) → List (PVal α) → Bool
  | [], [] => true
  | x :: xs, y :: ys => pbeq x y && pbeqList xs ys
  | _, _ => false
def pbeqKvs : List (String × PVal α) → List (String × PVal α) → Bool
  | [], [] => true
  | (k, x) :: xs, (k', y) :: ys => decide (k = k') && pbeq x y && pbeqKvs xs ys
  | _, _ => false
end

mutual
theorem pbeq_sound : ∀ (a b : PVal α), pbeq a b = true → a = b
  | .leaf a, b, h => by cases b <;> simp_all [pbeq]
  | .cstr a, b, h => by cases b <;> simp_all [pbeq]
  | .cint a, b, h => by cases b <;> simp_all [pbeq]
  | .list xs, b, h => by
    cases b <;> simp [pbeq] at h
    rw [pbeqList_sound xs _ h]
  | .dict xs, b, h => by
    cases b <;> simp [pbeq] at h
    rw [pbeqKvs_sound xs _ h]
  | .tup xs, b, h => by
    cases b <;> simp [pbeq] at h
    rw [pbeqList_sound xs _ h]
theorem pbeqList_sound : ∀ (a b : List (PVal α)), pbeqList a b = true → a = b
  | [], b, h => by cases b <;> simp_all [pbeqList]
  | x :: xs, b, h => by
    cases b <;> simp [pbeqList] at h
    rw [pbeq_sound x _ h.1, pbeqList_sound xs _ h.2]
theorem pbeqKvs_sound : ∀ (a b : List (String × PVal α)), pbeqKvs a b = true → a = b
  | [], b, h => by cases b <;> simp_all [pbeqKvs]
  | (k, x) :: xs, b, h => by
    rcases b with _ | ⟨⟨k', y⟩, ys⟩ <;> simp [pbeqKvs] at h
    rw [h.1.1, pbeq_sound x _ h.1.2, pbeqKvs_sound xs _ h.2]
end

def gvbeq (a b : GVar α) : Bool := decide (a.dims = b.dims) && pbeq a.data b.data && pbeqKvs a.attrs b.attrs

theorem gvbeq_sound (a b : GVar α) (h : gvbeq a b = true) : a = b := by
  cases a; cases b
  simp [gvbeq] at h
  simp [h.1.1, pbeq_sound _ _ h.1.2, pbeqKvs_sound _ _ h.2]

def varsbeq : List (String × GVar α) → List (String × GVar α) → Bool
  | [], [] => true
  | (k, x) :: xs, (k', y) :: ys => decide (k = k') && gvbeq x y && varsbeq xs ys
  | _, _ => false

theorem varsbeq_sound : ∀ (a b : List (String × GVar α)), varsbeq a b = true → a = b
  | [], b, h => by cases b <;> simp_all [varsbeq]
  | (k, x) :: xs, b, h => by
    rcases b with _ | ⟨⟨k', y⟩, ys⟩ <;> simp [varsbeq] at h
    rw [h.1.1, gvbeq_sound x _ h.1.2, varsbeq_sound xs _ h.2]

mutual
def gbeq : Grp α → Grp α → Bool
  | .mk v g a, .mk v' g' a' => varsbeq v v' && gsbeq g g' && pbeqKvs a a'
def gsbeq : List (String × Grp α) → List (String × Grp α) → Bool
  | [], [] => true
  | (k, x) :: xs, (k', y) :: ys => decide (k = k') && gbeq x y && gsbeq xs ys
  | _, _ => false
end

mutual
theorem gbeq_sound : ∀ (a b : Grp α), gbeq a b = true → a = b
  | .mk v g a, .mk v' g' a', h => by
    simp [gbeq] at h
    rw [varsbeq_sound _ _ h.1.1, gsbeq_sound g _ h.1.2, pbeqKvs_sound _ _ h.2]
theorem gsbeq_sound : ∀ (a b : List (String × Grp α)), gsbeq a b = true → a = b
  | [], b, h => by cases b <;> simp_all [gsbeq]
  | (k, x) :: xs, b, h => by
    rcases b with _ | ⟨⟨k', y⟩, ys⟩ <;> simp [gsbeq] at h
    rw [h.1.1, gbeq_sound x _ h.1.2, gsbeq_sound xs _ h.2]
end

def ogbeq : Option (Grp α) → Option (Grp α) → Bool
  | some a, some b => gbeq a b
  | none, none => true
  | _, _ => false

theorem ogbeq_sound (a b : Option (Grp α)) (h : ogbeq a b = true) : a = b := by
  cases a <;> cases b <;> simp [ogbeq] at h ⊢
  exact gbeq_sound _ _ h

def okbeq : Option (KVs α) → Option (KVs α) → Bool
  | some a, some b => pbeqKvs a b
  | none, none => true
  | _, _ => false

theorem okbeq_sound (a b : Option (KVs α)) (h : okbeq a b = true) : a = b := by
  cases a <;> cases b <;> simp [okbeq] at h ⊢
  exact pbeqKvs_sound _ _ h

end Prov

namespace Prov

/-! ### the oracle that answers the value tests by evaluating on the parsed record -/

/-- the oracle determined by the parsed record -/
def rhoOf (v : Val) : String → Sym → Bool := fun test s =>
  if test = "isEmptyStr" then realLeafFns.isEmptyStr (s.eval v)
  else if test = "isMinusOne" then realLeafFns.isMinusOne (s.eval v)
  else if test = "isNan" then realLeafFns.isNan (s.eval v)
  else false

theorem compat_rhoOf (v : Val) : Compat (Sym.eval v) (symLeafFns (rhoOf v)) realLeafFns :=
  compat_eval v (rhoOf v) (fun _ => by simp [rhoOf]) (fun _ => by simp [rhoOf]) (fun _ => by simp [rhoOf])

/-! ### sorting commutes with mapping (keys are untouched) -/

theorem insertByKey_map {γ δ : Type} (h : String × γ → String × δ) (hk : ∀ x, (h x).1 = x.1)
    (x : String × γ) (l : List (String × γ)) :
    insertByKey (h x) (l.map h) = (insertByKey x l).map h := by
  induction l with
  | nil => simp [insertByKey]
  | cons y ys ih =>
    simp only [List.map_cons, insertByKey, hk]
    split
    · simp
    · simp [ih]

theorem sortByKey_map {γ δ : Type} (h : String × γ → String × δ) (hk : ∀ x, (h x).1 = x.1)
    (l : List (String × γ)) : sortByKey (l.map h) = (sortByKey l).map h := by
  induction l with
  | nil => simp [sortByKey]
  | cons y ys ih =>
    simp only [sortByKey, List.map_cons, List.foldr_cons] at ih ⊢
    rw [ih, insertByKey_map h hk]

theorem sortByKey_mapKvs {α β : Type} (f : α → β) (kvs : KVs α) :
    sortByKey (PVal.mapKvs f kvs) = PVal.mapKvs f (sortByKey kvs) := by
  rw [Natural.mapKvs_eq, Natural.mapKvs_eq]
  exact sortByKey_map (fun kv => (kv.1, kv.2.map f)) (fun _ => rfl) kvs

theorem GVar.sortKeys_map {α β : Type} (f : α → β) (g : GVar α) :
    (g.map f).sortKeys = (g.sortKeys).map f := by
  simp [GVar.sortKeys, GVar.map, sortByKey_mapKvs]

mutual
theorem sortKeys_map {α β : Type} (f : α → β) : ∀ g : Grp α, Grp.sortKeys (g.map f) = (g.sortKeys).map f
  | .mk vars groups attrs => by
    simp only [Grp.map, Grp.sortKeys]
    rw [sortGroups_map f groups, sortByKey_mapKvs, Natural.mapGroups_eq, Natural.mapGroups_eq,
      sortByKey_map (fun kg : String × Grp α => (kg.1, kg.2.map f)) (fun _ => rfl)]
    congr 1
    rw [← sortByKey_map (fun kv : String × GVar α => (kv.1, kv.2.map f)) (fun _ => rfl)]
    simp [List.map_map, Function.comp_def, GVar.sortKeys_map]
theorem sortGroups_map {α β : Type} (f : α → β) :
    ∀ gs : List (String × Grp α), Grp.sortGroups (Grp.mapGroups f gs) = Grp.mapGroups f (Grp.sortGroups gs)
  | [] => by simp [Grp.mapGroups, Grp.sortGroups]
  | (k, g) :: rest => by
    simp only [Grp.mapGroups, Grp.sortGroups]
    rw [sortKeys_map f g, sortGroups_map f rest]
end

/-! ### pipelines that do not use the value tests do not depend on the oracle -/

theorem leafFnByName_congr {α : Type} (lf lf2 : LeafFns α) (h1 : lf.toBool = lf2.toBool)
    (h2 : lf.isoDatetime = lf2.isoDatetime) : leafFnByName lf = leafFnByName lf2 := by
  funext name
  unfold leafFnByName
  split <;> simp [h1, h2]

theorem record5Fn_congr {α : Type} (lf lf2 : LeafFns α) (h1 : lf.toBool = lf2.toBool) :
    record5Fn lf = record5Fn lf2 := by
  funext name
  unfold record5Fn
  split <;> simp [h1]

theorem transformDatasetSummary_congr {α : Type} (lf lf2 : LeafFns α) (h1 : lf.toBool = lf2.toBool)
    (h2 : lf.isoDatetime = lf2.isoDatetime) (x : PVal α) :
    transformDatasetSummary lf x = transformDatasetSummary lf2 x := by
  unfold transformDatasetSummary
  rw [leafFnByName_congr lf lf2 h1 h2]

theorem transformRecord5_congr {α : Type} (lf lf2 : LeafFns α) (h1 : lf.toBool = lf2.toBool) (x : PVal α) :
    transformRecord5 lf x = transformRecord5 lf2 x := by
  unfold transformRecord5
  rw [record5Fn_congr lf lf2 h1]

theorem transformVolumeDescriptor_congr {α : Type} (lf lf2 : LeafFns α) (h1 : lf.toBool = lf2.toBool)
    (h2 : lf.isoDatetime = lf2.isoDatetime) (x : KVs α) :
    transformVolumeDescriptor lf x = transformVolumeDescriptor lf2 x := by
  unfold transformVolumeDescriptor
  rw [leafFnByName_congr lf lf2 h1 h2]

/-- the generic chain for a static record: shape, naturality, and a closed computation on syntax -/
theorem static_provenance (c : Con) (Treal : PVal Leaf → Option (Grp Leaf)) (Tsym : PVal Sym → Option (Grp Sym))
    (spec : Grp Sym)
    (hnat : ∀ (v : Val) (s : PVal Sym), Treal (s.map (Sym.eval v)) = (Tsym s).map (Grp.map (Sym.eval v)))
    (hsyn : ogbeq ((Con.skel c []).bind (fun s => (Tsym s).map Grp.sortKeys)) (some spec) = true)
    (ctx : Ctx) (bs : Bytes) (pos : Nat) (v : Val) (pos' : Nat)
    (h : parse c ctx bs pos = .ok (v, pos')) :
    (Treal v.toPVal).map Grp.sortKeys = some (spec.map (Sym.eval v)) := by
  have hsyn' := ogbeq_sound _ _ hsyn
  match hs : Con.skel c [] with
  | none => simp [hs] at hsyn'
  | some s =>
    rw [hs, Option.bind_some] at hsyn'
    rw [parse_eq_skel c s hs ctx bs pos v pos' h, hnat, Option.map_map]
    have : (Grp.sortKeys ∘ Grp.map (Sym.eval v)) = (Grp.map (Sym.eval v) ∘ Grp.sortKeys) := by
      funext g; simp [sortKeys_map]
    rw [this, ← Option.map_map, hsyn', Option.map_some]

end Prov

namespace Prov

/-! ### the volume directory record: three members, the middle one dynamic -/


theorem volumeDirectoryRecord_eq : ∃ e, Gen.volumeDirectoryRecord = .struct [
    ("volume_descriptor", Gen.volumeDescriptor),
    ("file_descriptors", .array e Gen.filePointerRecord),
    ("text_record", Gen.textRecord)] := ⟨_, rfl⟩

theorem parse_struct3 {n1 n2 n3 : String} {c1 c2 c3 : Con} (h12 : n1 ≠ n2) (h13 : n1 ≠ n3) (h23 : n2 ≠ n3)
    {ctx : Ctx} {bs : Bytes} {pos : Nat} {v : Val} {pos' : Nat}
    (h : parse (.struct [(n1, c1), (n2, c2), (n3, c3)]) ctx bs pos = .ok (v, pos')) :
    ∃ v1 v2 v3 ctx1 ctx3 p1 p1' p3 p3',
      parse c1 ctx1 bs p1 = .ok (v1, p1') ∧ parse c3 ctx3 bs p3 = .ok (v3, p3') ∧
      v = .dict [(n1, v1), (n2, v2), (n3, v3)] := by
  rw [parse, parseFields] at h
  simp only [Shape.bind_ok] at h
  obtain ⟨⟨v1, p1⟩, h1, h⟩ := h
  rw [parseFields] at h
  simp only [Shape.bind_ok] at h
  obtain ⟨⟨v2, p2⟩, h2, h⟩ := h
  rw [parseFields] at h
  simp only [Shape.bind_ok] at h
  obtain ⟨⟨v3, p3⟩, h3, h⟩ := h
  rw [parseFields] at h
  refine ⟨v1, v2, v3, _, _, _, _, _, _, h1, h3, ?_⟩
  simp [setField, h12, h13, h23] at h
  exact h.1.symm


theorem transformVolumeRecord_congr {α : Type} (lf lf2 : LeafFns α) (h1 : lf.toBool = lf2.toBool)
    (h2 : lf.isoDatetime = lf2.isoDatetime) (x : PVal α) :
    transformVolumeRecord lf x = transformVolumeRecord lf2 x := by
  unfold transformVolumeRecord
  simp only [transformVolumeDescriptor_congr lf lf2 h1 h2]

theorem transformVolumeRecord_drop {α : Type} (lf : LeafFns α) (s1 X s3 : PVal α) :
    transformVolumeRecord lf (.dict [("volume_descriptor", s1), ("file_descriptors", X), ("text_record", s3)]) =
    transformVolumeRecord lf (.dict [("volume_descriptor", s1), ("text_record", s3)]) := by
  simp [transformVolumeRecord, dissoc, Gen.Config.volume_directory__transform_record.ignored]

set_option maxRecDepth 100000 in
theorem root_syn : okbeq
    ((Con.skel Gen.volumeDescriptor ["volume_descriptor"]).bind fun s1 =>
      (Con.skel Gen.textRecord ["text_record"]).bind fun s3 =>
        (transformVolumeRecord (symLeafFns allPresent)
          (.dict [("volume_descriptor", s1), ("text_record", s3)])).map sortByKey)
    (some Spec.rootAttrs) = true := by decide +kernel


/-! ### header attributes: congruence of the pipeline in the value tests -/

open Natural

section agree
variable {α : Type}

/-- two leaf-function families answer the value tests alike on the leaves among the values of `L` -/
def TestsAgree (lf lf2 : LeafFns α) (L : KVs α) : Prop :=
  ∀ kv ∈ L, ∀ a, kv.2 = .leaf a →
    lf.isEmptyStr a = lf2.isEmptyStr a ∧ lf.isMinusOne a = lf2.isMinusOne a ∧ lf.isNan a = lf2.isNan a

def FnAgree (L : KVs α) (g g2 : PVal α → PVal α) : Prop := ∀ kv ∈ L, g kv.2 = g2 kv.2

inductive FnsAgree (L : KVs α) : List (String × (PVal α → PVal α)) → List (String × (PVal α → PVal α)) → Prop where
  | nil : FnsAgree L [] []
  | cons {k g g2 fs fs2} : FnAgree L g g2 → FnsAgree L fs fs2 → FnsAgree L ((k, g) :: fs) ((k, g2) :: fs2)

theorem FnsAgree.find {L : KVs α} {fs fs2} (h : FnsAgree L fs fs2) (k : String) :
    ORel (fun p p2 => FnAgree L p.2 p2.2) (fs.find? (fun p => p.1 = k)) (fs2.find? (fun p => p.1 = k)) := by
  induction h with
  | nil => simp [ORel]
  | @cons k' g g2 fs fs2 hg _ ih =>
    by_cases hk : k' = k
    · simp [hk, ORel]; exact hg
    · simpa [hk] using ih

theorem applyToItems_agree {L : KVs α} {fs fs2} (h : FnsAgree L fs fs2) :
    applyToItems fs L = applyToItems fs2 L := by
  unfold applyToItems
  apply List.map_congr_left
  intro kv hkv
  simp only [Prod.mk.injEq, true_and]
  have := h.find kv.1
  revert this
  cases fs.find? (fun p => p.1 = kv.1) <;> cases fs2.find? (fun p => p.1 = kv.1) <;> simp [ORel]
  intro hg; exact hg kv hkv

theorem interpAll_agree {L : KVs α} {interp interp2 : String → Option (PVal α → PVal α)}
    (hi : ∀ name, ORel (FnAgree L) (interp name) (interp2 name)) (tbl : List (String × String)) :
    ORel (FnsAgree L) (interpAll interp tbl) (interpAll interp2 tbl) := by
  unfold interpAll
  induction tbl with
  | nil => simp [ORel]; exact .nil
  | cons kv rest ih =>
    simp only [List.mapM_cons]
    have h1 := hi kv.2
    cases h : interp kv.2 <;> cases h' : interp2 kv.2 <;> simp [h, h', ORel] at h1 ⊢
    revert ih
    cases List.mapM (fun kv => Option.map (fun f => (kv.1, f)) (interp kv.2)) rest <;>
      cases List.mapM (fun kv => Option.map (fun f => (kv.1, f)) (interp2 kv.2)) rest <;> simp [ORel]
    intro hr; exact .cons h1 hr

theorem headerLambda_agree {lf lf2 : LeafFns α} {L : KVs α} (h : TestsAgree lf lf2 L) (name : String) :
    ORel (FnAgree L) (headerLambda lf name) (headerLambda lf2 name) := by
  unfold headerLambda
  split
  · intro kv hkv
    cases hv : kv.2 <;> simp
    rw [(h kv hkv _ hv).1]
  · intro kv hkv
    cases hv : kv.2 <;> simp
    rw [(h kv hkv _ hv).2.1, (h kv hkv _ hv).2.2]
  · intro kv hkv
    cases hv : kv.2 <;> simp
    rw [(h kv hkv _ hv).2.1]
  · trivial

/-- the part of `extract_attrs` that does not look at values -/
def headerFront (kvs : KVs α) : KVs α :=
  keepKeys Gen.Config.sar_image__extract_attrs.known_attrs
    (removeNestingLayer (dissoc Gen.Config.sar_image__extract_attrs.ignored kvs))

theorem extractAttrs_congr (lf lf2 : LeafFns α) (kvs : KVs α) (h : TestsAgree lf lf2 (headerFront kvs)) :
    extractAttrs lf (.dict kvs) = extractAttrs lf2 (.dict kvs) := by
  simp only [extractAttrs]
  have hr := interpAll_agree (headerLambda_agree h) Gen.Config.sar_image__extract_attrs.transformers
  revert hr
  cases interpAll (headerLambda lf) Gen.Config.sar_image__extract_attrs.transformers <;>
    cases interpAll (headerLambda lf2) Gen.Config.sar_image__extract_attrs.transformers <;>
    simp [ORel]
  intro hr
  have := applyToItems_agree hr
  unfold headerFront at this
  rw [this]

end agree


/-! ### which layout member sits at a path, and what kind of leaf it yields -/

def conAt : Con → List String → Option Con
  | c, [] => some c
  | .struct fs, k :: rest => (Layout.lastCon fs k).bind (fun c' => conAt c' rest)
  | _, _ => none

theorem leafAt_of_get {v w : Val} {k : String} (h : v.get? k = some w) (rest : List String) :
    v.leafAt (k :: rest) = w.leafAt rest := by
  cases v <;> simp [Val.get?] at h
  rename_i kvs
  obtain ⟨a, h⟩ := h
  simp [Val.leafAt, h]

theorem conAt_parse : ∀ (p : List String) (c c' : Con) (ctx : Ctx) (bs : Bytes) (pos : Nat) (v : Val) (pos' : Nat),
    parse c ctx bs pos = .ok (v, pos') → conAt c p = some c' →
    ∃ ctx' p1 w p2, parse c' ctx' bs p1 = .ok (w, p2) ∧ ∀ rest, v.leafAt (p ++ rest) = w.leafAt rest := by
  intro p
  induction p with
  | nil =>
    intro c c' ctx bs pos v pos' h hc
    simp [conAt] at hc
    subst hc
    exact ⟨ctx, pos, v, pos', h, fun _ => rfl⟩
  | cons k rest ih =>
    intro c c' ctx bs pos v pos' h hc
    cases c
    case struct fs =>
      rw [conAt] at hc
      cases hl : Layout.lastCon fs k with
      | none => simp [hl] at hc
      | some c1 =>
        rw [hl, Option.bind_some] at hc
        obtain ⟨ctx1, p1, w1, p2, h1, hg⟩ := Layout.struct_get h k c1 hl
        obtain ⟨ctx', q1, w, q2, hw, hr⟩ := ih c1 c' ctx1 bs p1 w1 p2 h1 hc
        refine ⟨ctx', q1, w, q2, hw, fun r => ?_⟩
        rw [List.cons_append, leafAt_of_get hg, hr]
    all_goals simp [conAt] at hc

theorem parse_pstr_leaf {e : Expr} {ctx : Ctx} {bs : Bytes} {pos : Nat} {v : Val} {p : Nat}
    (h : parse (.pstr e) ctx bs pos = .ok (v, p)) : ∃ s, v = .leaf (.str s) := by
  rw [parse] at h
  simp only [Shape.bind_ok, Shape.pure_ok] at h
  obtain ⟨n, _, raw, _, s, _, h3⟩ := h
  simp at h3
  exact ⟨_, h3.1.symm⟩

/-- the one value test that can answer "yes" on the leaf at `p` (by the kind of the layout member there) -/
def relQuery (c : Con) (p : List String) : Option (String × Sym) :=
  match conAt c p with
  | some (.pstr _) => some ("isEmptyStr", .path p)
  | some (.aint _) => some ("isMinusOne", .path p)
  | _ => none

theorem relQuery_sound {c : Con} {ctx : Ctx} {bs : Bytes} {pos : Nat} {v : Val} {pos' : Nat}
    (h : parse c ctx bs pos = .ok (v, pos')) {p : List String} {q : String × Sym} (hq : relQuery c p = some q)
    (t : String) (ht : rhoOf v t (.path p) = true) : (t, Sym.path p) = q := by
  unfold relQuery at hq
  split at hq
  · rename_i e hc
    obtain ⟨ctx', p1, w, p2, hw, hr⟩ := conAt_parse p c _ ctx bs pos v pos' h hc
    obtain ⟨s, rfl⟩ := parse_pstr_leaf hw
    have hl : v.leafAt p = some (.str s) := by simpa [Val.leafAt] using hr []
    simp at hq; subst hq
    simp only [rhoOf, Sym.eval, hl, Option.getD_some, realLeafFns] at ht
    split at ht
    · simp_all
    · simp at ht
  · rename_i e hc
    obtain ⟨ctx', p1, w, p2, hw, hr⟩ := conAt_parse p c _ ctx bs pos v pos' h hc
    obtain ⟨_, m, _, _, rfl⟩ := Layout.parse_aint_inv hw
    have hl : v.leafAt p = some (.int m) := by simpa [Val.leafAt] using hr []
    simp at hq; subst hq
    simp only [rhoOf, Sym.eval, hl, Option.getD_some, realLeafFns] at ht
    split at ht
    · simp at ht
    · split at ht
      · simp_all
      · simp at ht
  · simp at hq


/-! ### closed oracles: a table of the queries answered "yes" -/

def rhoT (tbl : List (String × Sym)) : String → Sym → Bool := fun t s => decide ((t, s) ∈ tbl)

def subs {γ : Type} : List γ → List (List γ)
  | [] => [[]]
  | x :: xs => (subs xs).map (x :: ·) ++ subs xs

theorem filter_mem_subs {γ : Type} (p : γ → Bool) : ∀ l : List γ, l.filter p ∈ subs l
  | [] => by simp [subs]
  | x :: xs => by
    have ih := filter_mem_subs p xs
    simp only [List.filter_cons, subs, List.mem_append, List.mem_map]
    split
    · exact Or.inl ⟨_, ih, rfl⟩
    · exact Or.inr ih

def hdrPaths : List (List String) := Spec.headerOptionalOn.map Prod.snd

def presentT (tbl : List (String × Sym)) (k : String) : Bool :=
  match (Spec.headerOptionalOn.find? (fun e => e.1 = k)).map Prod.snd with
  | some p => !(rhoT tbl "isEmptyStr" (.path p)) && !(rhoT tbl "isMinusOne" (.path p)) && !(rhoT tbl "isNan" (.path p))
  | none => true

def leafInPaths (kv : String × PVal Sym) : Bool :=
  match kv.2 with
  | .leaf (.path p) => hdrPaths.contains p
  | .leaf _ => false
  | _ => true

/-- the closed computation for the header: for every admissible set of blank fields the symbolic pipeline
    yields the documented attributes filtered by presence -/
def hdrCheck : Bool :=
  match Con.skel Gen.imageFileDescriptor [] with
  | some (.dict kvs) =>
    (headerFront kvs).all leafInPaths &&
    match hdrPaths.mapM (relQuery Gen.imageFileDescriptor) with
    | some qs => (subs qs).all (fun tbl =>
        okbeq ((extractAttrs (symLeafFns (rhoT tbl)) (.dict kvs)).map sortByKey)
          (some (Spec.headerAttrs.filter (fun kv => presentT tbl kv.1))))
    | none => false
  | _ => false

set_option maxRecDepth 100000 in
theorem hdrCheck_true : hdrCheck = true := by decide +kernel


theorem mapM_some_mem {A B : Type} (f : A → Option B) : ∀ (l : List A) (r : List B), l.mapM f = some r →
    ∀ a ∈ l, ∃ b ∈ r, f a = some b
  | [], r, _, a, ha => by simp at ha
  | x :: xs, r, h, a, ha => by
    simp only [List.mapM_cons] at h
    cases hx : f x with
    | none => simp [hx] at h
    | some b =>
      cases hxs : List.mapM f xs with
      | none => simp [hx, hxs] at h
      | some r' =>
        simp [hx, hxs] at h
        subst h
        rcases List.mem_cons.mp ha with rfl | ha'
        · exact ⟨b, by simp, hx⟩
        · obtain ⟨b', hb', e⟩ := mapM_some_mem f xs r' hxs a ha'
          exact ⟨b', by simp [hb'], e⟩

theorem rho_agree {c : Con} {ctx : Ctx} {bs : Bytes} {pos : Nat} {v : Val} {pos' : Nat}
    (h : parse c ctx bs pos = .ok (v, pos')) {ps : List (List String)} {qs : List (String × Sym)}
    (hqs : ps.mapM (relQuery c) = some qs) (t : String) (p : List String) (hp : p ∈ ps) :
    rhoOf v t (.path p) = rhoT (qs.filter (fun q => rhoOf v q.1 q.2)) t (.path p) := by
  obtain ⟨q, hq, e⟩ := mapM_some_mem _ _ _ hqs p hp
  apply Bool.eq_iff_iff.mpr
  constructor
  · intro ht
    have e2 := relQuery_sound h e t ht
    subst e2
    simp [rhoT, List.mem_filter, hq, ht]
  · intro ht
    simp only [rhoT, List.mem_filter, decide_eq_true_eq] at ht
    exact ht.2

theorem present_eq (v : Val) (tbl : List (String × Sym))
    (hag : ∀ t p, p ∈ hdrPaths → rhoOf v t (.path p) = rhoT tbl t (.path p)) (k : String) :
    presentT tbl k = (match (Spec.headerOptionalOn.find? (fun e => e.1 = k)).map Prod.snd with
      | some p =>
        let l := (v.leafAt p).getD default
        !(realLeafFns.isEmptyStr l) && !(realLeafFns.isMinusOne l) && !(realLeafFns.isNan l)
      | none => true) := by
  unfold presentT
  cases hf : Spec.headerOptionalOn.find? (fun e => e.1 = k) with
  | none => simp
  | some e =>
    have hm : e.2 ∈ hdrPaths := List.mem_map_of_mem (List.mem_of_find?_eq_some hf)
    simp only [Option.map_some]
    rw [← hag _ _ hm, ← hag _ _ hm, ← hag _ _ hm]
    simp [rhoOf, Sym.eval]

end Prov

/-! ### C04: static leader records -/

set_option maxRecDepth 100000 in
theorem dataset_summary_provenance (ctx : Ctx) (bs : Bytes) (pos : Nat) (v : Val) (pos' : Nat)
    (h : parse Gen.datasetSummaryRecord ctx bs pos = .ok (v, pos')) :
    (transformDatasetSummary realLeafFns v.toPVal).map Grp.sortKeys = some (Spec.datasetSummary.map (Sym.eval v)) := by
  refine Prov.static_provenance Gen.datasetSummaryRecord _ (transformDatasetSummary (symLeafFns allPresent)) _
    ?_ (by decide +kernel) ctx bs pos v pos' h
  intro v s
  rw [transformDatasetSummary_natural _ _ _ (Prov.compat_rhoOf v),
    Prov.transformDatasetSummary_congr (symLeafFns (Prov.rhoOf v)) (symLeafFns allPresent) rfl rfl]

set_option maxRecDepth 100000 in
theorem radiometric_provenance (ctx : Ctx) (bs : Bytes) (pos : Nat) (v : Val) (pos' : Nat)
    (h : parse Gen.radiometricDataRecord ctx bs pos = .ok (v, pos')) :
    (transformRadiometricData v.toPVal).map Grp.sortKeys = some (Spec.radiometricData.map (Sym.eval v)) := by
  refine Prov.static_provenance Gen.radiometricDataRecord _ transformRadiometricData _
    ?_ (by decide +kernel) ctx bs pos v pos' h
  intro v s
  rw [transformRadiometricData_natural]

set_option maxRecDepth 100000 in
theorem record5_provenance (ctx : Ctx) (bs : Bytes) (pos : Nat) (v : Val) (pos' : Nat)
    (h : parse Gen.facilityRelatedData5Record ctx bs pos = .ok (v, pos')) :
    (transformRecord5 realLeafFns v.toPVal).map Grp.sortKeys = some (Spec.transformations.map (Sym.eval v)) := by
  refine Prov.static_provenance Gen.facilityRelatedData5Record _ (transformRecord5 (symLeafFns allPresent)) _
    ?_ (by decide +kernel) ctx bs pos v pos' h
  intro v s
  rw [transformRecord5_natural _ _ _ (Prov.compat_rhoOf v),
    Prov.transformRecord5_congr (symLeafFns (Prov.rhoOf v)) (symLeafFns allPresent) rfl]

/-! ### C16: root attributes from the volume directory (any number of file-pointer records) -/

theorem root_attrs_provenance (ctx : Ctx) (bs : Bytes) (pos : Nat) (v : Val) (pos' : Nat)
    (h : parse Gen.volumeDirectoryRecord ctx bs pos = .ok (v, pos')) :
    (transformVolumeRecord realLeafFns v.toPVal).map sortByKey = some (PVal.mapKvs (Sym.eval v) Spec.rootAttrs) := by
  have hu := parse_uniqueKeys _ ctx bs pos v pos' h
  obtain ⟨e, he⟩ := Prov.volumeDirectoryRecord_eq
  rw [he] at h
  obtain ⟨v1, v2, v3, ctx1, ctx3, p1, p1', p3, p3', h1, h3, rfl⟩ :=
    Prov.parse_struct3 (by decide) (by decide) (by decide) h
  have hsyn := Prov.okbeq_sound _ _ Prov.root_syn
  match hs1 : Con.skel Gen.volumeDescriptor ["volume_descriptor"] with
  | none => simp [hs1] at hsyn
  | some s1 =>
  match hs3 : Con.skel Gen.textRecord ["text_record"] with
  | none => simp [hs1, hs3] at hsyn
  | some s3 =>
    rw [hs1, hs3, Option.bind_some, Option.bind_some] at hsyn
    have e1 := parse_shape _ _ s1 hs1 _ _ _ _ _ h1
    have e3 := parse_shape _ _ s3 hs3 _ _ _ _ _ h3
    rw [toPVal_eq_skel_eval _ hu]
    simp only [Val.pathSkel, pathSkelKvs, List.nil_append, e1, e3]
    rw [transformVolumeRecord_natural _ _ _ (Prov.compat_rhoOf _),
      Prov.transformVolumeRecord_congr (symLeafFns (Prov.rhoOf _)) (symLeafFns allPresent) rfl rfl,
      Prov.transformVolumeRecord_drop, Option.map_map]
    have : (sortByKey ∘ PVal.mapKvs (Sym.eval (Val.dict [("volume_descriptor", v1), ("file_descriptors", v2), ("text_record", v3)])))
        = (PVal.mapKvs (Sym.eval (Val.dict [("volume_descriptor", v1), ("file_descriptors", v2), ("text_record", v3)])) ∘ sortByKey) := by
      funext g; simp [Prov.sortByKey_mapKvs]
    rw [this, ← Option.map_map, hsyn, Option.map_some]

/-! ### C03: header attributes — present exactly when the header field is non-blank, with its value -/

/-- is the optional header attribute `k` present for this parsed descriptor?  (the field that decides is
    `Spec.headerOptionalOn k`; "blank" is `""` for the text field and `-1` for the integer fields) -/
def headerAttrPresent (v : Val) (k : String) : Bool :=
  match (Spec.headerOptionalOn.find? (fun e => e.1 = k)).map Prod.snd with
  | some p =>
    let l := (v.leafAt p).getD default
    !(realLeafFns.isEmptyStr l) && !(realLeafFns.isMinusOne l) && !(realLeafFns.isNan l)
  | none => true

theorem header_attrs_provenance (ctx : Ctx) (bs : Bytes) (pos : Nat) (v : Val) (pos' : Nat)
    (h : parse Gen.imageFileDescriptor ctx bs pos = .ok (v, pos')) :
    (extractAttrs realLeafFns v.toPVal).map sortByKey =
      some ((PVal.mapKvs (Sym.eval v) Spec.headerAttrs).filter (fun kv => headerAttrPresent v kv.1)) := by
  have hc := Prov.hdrCheck_true
  unfold Prov.hdrCheck at hc
  split at hc
  next kvs hs =>
    rw [Bool.and_eq_true] at hc
    obtain ⟨hfront, hc⟩ := hc
    split at hc
    next qs hqs =>
      rw [List.all_eq_true] at hc hfront
      have hsyn := Prov.okbeq_sound _ _ (hc _ (Prov.filter_mem_subs (fun q => Prov.rhoOf v q.1 q.2) qs))
      have hag := Prov.rho_agree h hqs
      have hcongr := Prov.extractAttrs_congr (symLeafFns (Prov.rhoOf v))
        (symLeafFns (Prov.rhoT (qs.filter (fun q => Prov.rhoOf v q.1 q.2)))) kvs (by
          intro kv hkv a ha
          have := hfront kv hkv
          unfold Prov.leafInPaths at this
          rw [ha] at this
          cases a with
          | path p =>
            simp only [List.contains_eq_mem, decide_eq_true_eq] at this
            exact ⟨hag "isEmptyStr" p this, hag "isMinusOne" p this, hag "isNan" p this⟩
          | app fn a => simp at this
          | app2 fn a b => simp at this)
      rw [parse_eq_skel _ _ hs ctx bs pos v pos' h, extractAttrs_natural _ _ _ (Prov.compat_rhoOf v), hcongr,
        Option.map_map]
      have : (sortByKey ∘ PVal.mapKvs (Sym.eval v)) = (PVal.mapKvs (Sym.eval v) ∘ sortByKey) := by
        funext g; simp [Prov.sortByKey_mapKvs]
      rw [this, ← Option.map_map, hsyn, Option.map_some]
      congr 1
      have hp : (fun kv : String × PVal Leaf => headerAttrPresent v kv.1) =
          (fun kv => Prov.presentT (qs.filter (fun q => Prov.rhoOf v q.1 q.2)) kv.1) := by
        funext kv
        rw [Prov.present_eq v _ hag]
        rfl
      rw [hp, Natural.mapKvs_eq, Natural.mapKvs_eq, List.filter_map]
      rfl
    next => simp at hc
  next => simp at hc

end Alos2

/-
Coordinate promotion: for the image group as the reader builds it (C03 `image_group`: attrs ∪ header attrs ∪
`coordinates` = the names of the per-line variables) plus the lazily loaded `data` variable, `to_dataset` makes every
per-line variable a coordinate, leaves `data` the only data variable, and removes the bookkeeping attribute.
-/
import Alos2.Model.ToXarray
import Alos2.Model.Sym

namespace Alos2

/-- some entry has key `k`, and every entry with key `k` carries `v`: then the lookup gives `v` -/
theorem kvGet_of_all {α : Type} (l : KVs α) (k : String) (v : PVal α)
    (hex : ∃ kv ∈ l, kv.1 = k) (hall : ∀ kv ∈ l, kv.1 = k → kv.2 = v) : kvGet l k = some v := by
  induction l with
  | nil => obtain ⟨kv, hm, _⟩ := hex; cases hm
  | cons x xs ih =>
    unfold kvGet
    by_cases hx : x.1 = k
    · have := hall x (List.mem_cons_self ..) hx
      simp [hx, this]
    · have hex' : ∃ kv ∈ xs, kv.1 = k := by
        obtain ⟨kv, hm, hk⟩ := hex
        rcases List.mem_cons.mp hm with rfl | hm
        · exact absurd hk hx
        · exact ⟨kv, hm, hk⟩
      have := ih hex' (fun kv hm => hall kv (List.mem_cons_of_mem _ hm))
      unfold kvGet at this
      simpa [List.find?_cons, hx] using this

theorem kvSet_exists {α : Type} (l : KVs α) (k : String) (v : PVal α) : ∃ kv ∈ kvSet l k v, kv.1 = k := by
  unfold kvSet
  split
  · rename_i h
    obtain ⟨x, hx, hk⟩ := List.any_eq_true.mp h
    have hk' : x.1 = k := by simpa using hk
    exact ⟨(k, v), List.mem_map.mpr ⟨x, hx, by simp [hk']⟩, rfl⟩
  · exact ⟨(k, v), by simp, rfl⟩

theorem kvSet_all {α : Type} (l : KVs α) (k : String) (v : PVal α) : ∀ kv ∈ kvSet l k v, kv.1 = k → kv.2 = v := by
  unfold kvSet
  split
  · intro kv hm hk
    obtain ⟨x, _, rfl⟩ := List.mem_map.mp hm
    by_cases hx : x.1 = k
    · simp [hx]
    · simp [hx] at hk
  · rename_i h
    intro kv hm hk
    rcases List.mem_append.mp hm with hm | hm
    · exact absurd (List.any_eq_true.mpr ⟨kv, hm, by simpa using hk⟩) h
    · simp at hm; subst hm; rfl

theorem kvGet_kvSet_same {α : Type} (l : KVs α) (k : String) (v : PVal α) : kvGet (kvSet l k v) k = some v :=
  kvGet_of_all _ k v (kvSet_exists l k v) (kvSet_all l k v)

theorem kvGet_kvSet_other {α : Type} (l : KVs α) (k k' : String) (w : PVal α) (h : k' ≠ k) :
    kvGet (kvSet l k' w) k = kvGet l k := by
  unfold kvSet
  split
  · rename_i hany
    clear hany
    induction l with
    | nil => rfl
    | cons x xs ih =>
      unfold kvGet at ih ⊢
      by_cases hx : x.1 = k'
      · have hxk : ¬ x.1 = k := fun e => h (hx ▸ e)
        simpa [List.find?_cons, hx, h, hxk] using ih
      · simp only [List.map_cons, if_neg hx, List.find?_cons]
        by_cases hxk : x.1 = k
        · simp [hxk]
        · simpa [hxk] using ih
  · unfold kvGet
    simp [List.find?_append, h]

theorem kvGet_kvUnion_of {α : Type} (b : KVs α) (k : String) (v : PVal α) :
    ∀ a : KVs α, (∀ kv ∈ b, kv.1 = k → kv.2 = v) → ((∃ kv ∈ b, kv.1 = k) ∨ kvGet a k = some v) →
      kvGet (kvUnion a b) k = some v := by
  induction b with
  | nil =>
    intro a _ h
    rcases h with ⟨kv, hm, _⟩ | h
    · cases hm
    · simpa [kvUnion] using h
  | cons x xs ih =>
    intro a hall h
    have hstep : kvUnion a (x :: xs) = kvUnion (kvSet a x.1 x.2) xs := by simp [kvUnion]
    rw [hstep]
    have hall' : ∀ kv ∈ xs, kv.1 = k → kv.2 = v := fun kv hm => hall kv (List.mem_cons_of_mem _ hm)
    by_cases hx : x.1 = k
    · have hv := hall x (List.mem_cons_self ..) hx
      apply ih _ hall'
      right
      rw [hx, hv]
      exact kvGet_kvSet_same a k v
    · apply ih _ hall'
      rcases h with ⟨kv, hm, hk⟩ | h
      · left
        rcases List.mem_cons.mp hm with rfl | hm
        · exact absurd hk hx
        · exact ⟨kv, hm, hk⟩
      · right
        rw [kvGet_kvSet_other a k x.1 x.2 hx]
        exact h

theorem kvGet_kvUnion_last {α : Type} (a b : KVs α) (k : String) (v : PVal α) :
    kvGet (kvUnion a (kvUnion b [(k, v)])) k = some v := by
  have hb : kvUnion b [(k, v)] = kvSet b k v := by simp [kvUnion]
  rw [hb]
  exact kvGet_kvUnion_of _ k v a (kvSet_all b k v) (Or.inl (kvSet_exists b k v))

theorem filterMap_cstr {α : Type} (vars : List String) :
    (vars.map (PVal.cstr (α := α))).filterMap (fun x => match x with
      | .cstr s => some s
      | _ => none) = vars := by
  induction vars with
  | nil => rfl
  | cons x xs ih => simp [ih]

/-- the image group + `data`: coordinates are exactly the per-line variables -/
theorem image_dataset_names {α : Type} (vars : List String) (attrs hattrs : KVs α) (hd : "data" ∉ vars) (hnd : vars.Nodup) :
    ∃ rest, toDatasetNames (vars ++ ["data"]) (kvUnion attrs (kvUnion hattrs [("coordinates", .list (vars.map PVal.cstr))])) =
      some { dataVars := ["data"], coords := vars, attrs := rest } ∧ kvGet rest "coordinates" = none := by
  have _ := hnd -- not needed: the filters do not depend on multiplicity
  have hc : coordinateNames (kvUnion attrs (kvUnion hattrs [("coordinates", .list (vars.map PVal.cstr))])) = vars := by
    unfold coordinateNames
    rw [kvGet_kvUnion_last]
    exact filterMap_cstr vars
  refine ⟨(kvUnion attrs (kvUnion hattrs [("coordinates", .list (vars.map PVal.cstr))])).filter
    (fun kv => kv.1 ≠ "coordinates"), ?_, ?_⟩
  · unfold toDatasetNames
    simp only [hc]
    have hall : (vars.all fun c => (vars ++ ["data"]).contains c) = true := by
      simp [List.all_eq_true]
      intro x hx; exact Or.inl hx
    rw [if_pos hall]
    have h1 : (vars ++ ["data"]).filter (fun v => !vars.contains v) = ["data"] := by
      rw [List.filter_append]
      have : vars.filter (fun v => !vars.contains v) = [] := by
        simp [List.filter_eq_nil_iff]
      rw [this]
      simp [hd]
    have h2 : (vars ++ ["data"]).filter (fun v => vars.contains v) = vars := by
      rw [List.filter_append]
      have : vars.filter (fun v => vars.contains v) = vars := by
        simp [List.filter_eq_self]
      rw [this]
      simp [hd]
    rw [h1, h2]
  · unfold kvGet
    simp [List.find?_eq_none]

end Alos2

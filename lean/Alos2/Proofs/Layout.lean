/-
L — layout calculus: generic facts about the layout interpreter (`Model/Construct.lean`) and the
framing theorems for the records of the source whose length or multiplicity is declared inside the
file (`Gen/Layouts.lean`, regenerated from /repo on every run).
-/
import Alos2.Model.Construct
import Alos2.Gen.Layouts

namespace Alos2

/-! ### generic -/

/-! #### helpers: the `Except` monad, byte windows -/

namespace Layout

theorem bind_ok {α β : Type} {x : Except Err α} {f : α → Except Err β} {b : β} :
    (x >>= f) = .ok b ↔ ∃ a, x = .ok a ∧ f a = .ok b := by
  cases x <;> simp [bind, Except.bind]

theorem pure_ok {α : Type} {a b : α} : (pure a : Except Err α) = .ok b ↔ a = b := by
  simp [pure, Except.pure]

theorem readBytes_ok {bs : Bytes} {pos n : Nat} {raw : Bytes} (h : readBytes bs pos n = .ok raw) :
    pos + n ≤ bs.length ∧ raw = slice bs pos (pos + n) := by
  unfold readBytes at h
  split at h
  · simp at h; exact ⟨by assumption, h.symm⟩
  · simp at h

theorem evalLen_const {ctx : Ctx} {v : Int} {n : Nat} (h : evalLen ctx (.const v) = .ok n) :
    ¬ v < 0 ∧ n = v.toNat := by
  simp [evalLen, Expr.eval] at h
  split at h <;> simp_all

theorem parseMany_static (p : Nat → Except Err (Val × Nat)) (k len : Nat)
    (hp : ∀ pos v pos', p pos = .ok (v, pos') → pos' = pos + k ∧ (0 < k → pos + k ≤ len)) :
    ∀ (n pos : Nat) (vs : List Val) (pos' : Nat), parseMany p n pos = .ok (vs, pos') →
      pos' = pos + n * k ∧ (0 < n * k → pos + n * k ≤ len) := by
  intro n
  induction n with
  | zero => intro pos vs pos' h; simp [parseMany] at h; omega
  | succ n ih =>
    intro pos vs pos' h
    rw [parseMany] at h
    simp only [bind_ok, pure_ok] at h
    obtain ⟨⟨v1, p1⟩, h1, ⟨vs2, p2⟩, h2, h3⟩ := h
    simp at h3
    obtain ⟨hp1, hp2⟩ := hp _ _ _ h1
    obtain ⟨ih1, ih2⟩ := ih _ _ _ h2
    subst hp1; subst ih1
    rw [Nat.succ_mul]
    refine ⟨by omega, fun hk => ?_⟩
    rcases Nat.eq_zero_or_pos k with hk0 | hk0
    · subst hk0; simp at hk
    · rcases Nat.eq_zero_or_pos n with hn | hn
      · subst hn; have := hp2 hk0; omega
      · have := ih2 (Nat.mul_pos hn hk0); omega

theorem static_joint :
    (∀ (c : Con) (ctx : Ctx) (bs : Bytes) (pos : Nat), ∀ k v pos', Con.sizeWith false c = some k →
        parse c ctx bs pos = .ok (v, pos') → pos' = pos + k ∧ (0 < k → pos + k ≤ bs.length)) ∧
    (∀ (fs : List (String × Con)) (ctx : Ctx) (bs : Bytes) (pos : Nat), ∀ k v pos',
        Con.sizeFields false fs = some k →
        parseFields fs ctx bs pos = .ok (v, pos') → pos' = pos + k ∧ (0 < k → pos + k ≤ bs.length)) := by
  apply parse.mutual_induct
  case case1 =>
    intro fs ctx bs pos ih k v pos' hs h
    rw [Con.sizeWith] at hs; rw [parse] at h
    exact ih k v pos' hs h
  case case2 =>
    intro n ctx bs pos k v pos' hs h
    rw [Con.sizeWith] at hs; rw [parse] at h
    simp only [bind_ok, pure_ok] at h
    obtain ⟨raw, h1, h2⟩ := h
    have := readBytes_ok h1
    simp at hs h2
    omega
  case case3 =>
    intro e ctx bs pos k v pos' hs h
    cases e <;> simp [Con.sizeWith] at hs
    rw [parse] at h
    simp only [bind_ok, pure_ok] at h
    obtain ⟨n, h0, raw, h1, lf, _, h2⟩ := h
    have := readBytes_ok h1
    have := evalLen_const h0
    simp at h2
    omega
  case case4 =>
    intro e ctx bs pos k v pos' hs h
    cases e <;> simp [Con.sizeWith] at hs
    rw [parse] at h
    simp only [bind_ok, pure_ok] at h
    obtain ⟨n, h0, raw, h1, lf, _, h2⟩ := h
    have := readBytes_ok h1
    have := evalLen_const h0
    simp at h2
    omega
  case case5 =>
    intro e ctx bs pos k v pos' hs h
    cases e <;> simp [Con.sizeWith] at hs
    rw [parse] at h
    simp only [bind_ok, pure_ok] at h
    obtain ⟨n, h0, raw, h1, lf, _, raw2, h3, lf2, _, h2⟩ := h
    have := readBytes_ok h1
    have := readBytes_ok h3
    have := evalLen_const h0
    simp at h2
    omega
  case case6 =>
    intro e ctx bs pos k v pos' hs h
    cases e <;> simp [Con.sizeWith] at hs
    rw [parse] at h
    simp only [bind_ok, pure_ok] at h
    obtain ⟨n, h0, raw, h1, lf, _, h2⟩ := h
    have := readBytes_ok h1
    have := evalLen_const h0
    simp at h2
    omega
  case case7 =>
    intro e ctx bs pos k v pos' hs h
    cases e <;> simp [Con.sizeWith] at hs
    rw [parse] at h
    simp only [bind_ok, pure_ok] at h
    obtain ⟨n, h0, raw, h1, h2⟩ := h
    have := readBytes_ok h1
    have := evalLen_const h0
    simp at h2
    omega
  case case8 =>
    intro count elem ctx bs pos ih k v pos' hs h
    cases count <;> simp [Con.sizeWith] at hs
    obtain ⟨hv, ke, hke, hk⟩ := hs
    rw [parse] at h
    simp only [bind_ok, pure_ok] at h
    obtain ⟨n, h0, ⟨vs, p1⟩, h1, h2⟩ := h
    have := evalLen_const h0
    have := parseMany_static (fun p => parse elem ctx bs p) ke bs.length
      (fun p v p' hh => ih p ke v p' hke hh) n pos vs p1 h1
    simp at h2
    obtain ⟨_, rfl⟩ := h2
    subst hk
    simp_all
  case case9 =>
    intro f sub ctx bs pos ih k v pos' hs h
    rw [Con.sizeWith] at hs; rw [parse] at h
    simp only [bind_ok, pure_ok] at h
    obtain ⟨⟨v1, p1⟩, h1, w, _, h2⟩ := h
    simp at h2
    obtain ⟨_, rfl⟩ := h2
    exact ih k v1 _ hs h1
  case case10 =>
    intro attrs sub ctx bs pos ih k v pos' hs h
    rw [Con.sizeWith] at hs; rw [parse] at h
    simp only [bind_ok, pure_ok] at h
    obtain ⟨⟨v1, p1⟩, h1, h2⟩ := h
    simp at h2
    obtain ⟨_, rfl⟩ := h2
    exact ih k v1 _ hs h1
  case case11 =>
    intro table sub ctx bs pos ih k v pos' hs h
    rw [Con.sizeWith] at hs; rw [parse] at h
    simp only [bind_ok, pure_ok] at h
    obtain ⟨⟨v1, p1⟩, h1, w, _, h2⟩ := h
    simp at h2
    obtain ⟨_, rfl⟩ := h2
    exact ih k v1 _ hs h1
  case case12 =>
    intro n ctx bs pos k v pos' hs h
    rw [Con.sizeWith] at hs; rw [parse] at h
    simp only [bind_ok, pure_ok] at h
    obtain ⟨raw, h1, h2⟩ := h
    have := readBytes_ok h1
    simp at hs h2
    omega
  case case13 =>
    intro sub ctx bs pos ih k v pos' hs h
    rw [Con.sizeWith] at hs; rw [parse] at h
    simp only [bind_ok, pure_ok] at h
    obtain ⟨⟨v1, p1⟩, h1, w, _, h2⟩ := h
    simp at h2
    obtain ⟨_, rfl⟩ := h2
    exact ih k v1 _ hs h1
  case case14 =>
    intro sub ref ctx bs pos ih k v pos' hs h
    rw [Con.sizeWith] at hs
    simp only [parse, bind_ok, pure_ok] at h
    obtain ⟨⟨v1, p1⟩, h1, w, _, h2⟩ := h
    simp at h2
    obtain ⟨_, rfl⟩ := h2
    exact ih k v1 _ hs h1
  case case15 =>
    intro ctx bs pos k v pos' hs h
    rw [Con.sizeWith] at hs; rw [parse] at h
    simp [pure_ok] at h hs
    omega
  case case16 =>
    intro e ctx bs pos k v pos' hs h
    simp [Con.sizeWith] at hs
  case case17 =>
    intro e ctx bs pos v0 he k v pos' hs h
    rw [Con.sizeWith] at hs; rw [parse] at h
    simp [he, pure_ok] at h hs
    omega
  case case18 =>
    intro e ctx bs pos he k v pos' hs h
    rw [parse] at h
    simp [he, throw, throwThe, MonadExceptOf.throw] at h
  case case19 =>
    intro ctx bs pos k v pos' hs h
    rw [Con.sizeFields] at hs; rw [parseFields] at h
    simp at h hs
    omega
  case case20 =>
    intro name c rest ctx bs pos ih1 ih2 k v pos' hs h
    rw [Con.sizeFields] at hs; rw [parseFields] at h
    simp only [bind_ok] at h
    obtain ⟨⟨v1, p1⟩, h1, h2⟩ := h
    split at hs
    · rename_i a b ha hb
      simp at hs
      have := ih1 a v1 p1 ha h1
      have := ih2 v1 p1 b v pos' hb h2
      omega
    · simp at hs


theorem slice_getElem? {α : Type} (l : List α) (a b i : Nat) :
    (slice l a b)[i]? = if i < b - a then l[a + i]? else none := by
  simp [slice, List.getElem?_take, List.getElem?_drop]

theorem slice_sub {α : Type} {l l' : List α} {a b c d : Nat} (h : slice l a b = slice l' a b)
    (hac : a ≤ c) (hdb : d ≤ b) : slice l c d = slice l' c d := by
  apply List.ext_getElem?
  intro i
  rw [slice_getElem?, slice_getElem?]
  split
  · have := congrArg (fun x => x[c - a + i]?) h
    simp only [slice_getElem?] at this
    rw [if_pos (by omega), if_pos (by omega)] at this
    rw [show a + (c - a + i) = c + i by omega] at this
    exact this
  · rfl

theorem readBytes_local {bs bs' : Bytes} {pos k q n : Nat}
    (hsame : slice bs pos (pos + k) = slice bs' pos (pos + k))
    (hlen : pos + k ≤ bs.length) (hlen' : pos + k ≤ bs'.length) (hq : pos ≤ q) (hn : q + n ≤ pos + k) :
    readBytes bs q n = readBytes bs' q n := by
  unfold readBytes
  rw [if_pos (by omega), if_pos (by omega), slice_sub hsame hq hn]

theorem evalLen_const_eq (ctx : Ctx) {v : Int} (hv : 0 ≤ v) : evalLen ctx (.const v) = .ok v.toNat := by
  simp [evalLen, Expr.eval, Int.not_lt.mpr hv]

theorem parseMany_local (p p' : Nat → Except Err (Val × Nat)) (k : Nat)
    (hp : ∀ pos v pos', p' pos = .ok (v, pos') → pos' = pos + k) :
    ∀ (n pos : Nat), (∀ q, pos ≤ q → q + k ≤ pos + n * k → p q = p' q) →
      parseMany p n pos = parseMany p' n pos := by
  intro n
  induction n with
  | zero => intro pos _; simp [parseMany]
  | succ n ih =>
    intro pos hloc
    rw [parseMany, parseMany, hloc pos (Nat.le_refl _) (by rw [Nat.succ_mul]; omega)]
    cases hres : p' pos with
    | error e => rfl
    | ok r =>
      obtain ⟨v, p1⟩ := r
      have := hp _ _ _ hres
      subst this
      simp only [bind, Except.bind]
      rw [ih (pos + k) (fun q h1 h2 => hloc q (by omega) (by rw [Nat.succ_mul]; omega))]

theorem local_joint :
    (∀ (c : Con) (ctx : Ctx) (bs : Bytes) (pos : Nat), ∀ (bs' : Bytes) (k : Nat),
        Con.sizeWith false c = some k → slice bs pos (pos + k) = slice bs' pos (pos + k) →
        pos + k ≤ bs.length → pos + k ≤ bs'.length → parse c ctx bs pos = parse c ctx bs' pos) ∧
    (∀ (fs : List (String × Con)) (ctx : Ctx) (bs : Bytes) (pos : Nat), ∀ (bs' : Bytes) (k : Nat),
        Con.sizeFields false fs = some k → slice bs pos (pos + k) = slice bs' pos (pos + k) →
        pos + k ≤ bs.length → pos + k ≤ bs'.length →
        parseFields fs ctx bs pos = parseFields fs ctx bs' pos) := by
  apply parse.mutual_induct
  case case1 =>
    intro fs ctx bs pos ih bs' k hs hsame hl hl'
    rw [Con.sizeWith] at hs; rw [parse, parse]
    exact ih bs' k hs hsame hl hl'
  case case2 =>
    intro n ctx bs pos bs' k hs hsame hl hl'
    rw [Con.sizeWith] at hs; rw [parse, parse]
    simp at hs; subst hs
    rw [readBytes_local hsame hl hl' (Nat.le_refl _) (Nat.le_refl _)]
  case case3 =>
    intro e ctx bs pos bs' k hs hsame hl hl'
    cases e <;> simp [Con.sizeWith] at hs
    obtain ⟨hv, rfl⟩ := hs
    rw [parse, parse, evalLen_const_eq ctx hv]
    simp only [bind, Except.bind]
    rw [readBytes_local hsame hl hl' (Nat.le_refl _) (Nat.le_refl _)]
  case case4 =>
    intro e ctx bs pos bs' k hs hsame hl hl'
    cases e <;> simp [Con.sizeWith] at hs
    obtain ⟨hv, rfl⟩ := hs
    rw [parse, parse, evalLen_const_eq ctx hv]
    simp only [bind, Except.bind]
    rw [readBytes_local hsame hl hl' (Nat.le_refl _) (Nat.le_refl _)]
  case case5 =>
    intro e ctx bs pos bs' k hs hsame hl hl'
    cases e <;> simp [Con.sizeWith] at hs
    obtain ⟨hv, rfl⟩ := hs
    rw [parse, parse, evalLen_const_eq ctx hv]
    simp only [bind, Except.bind]
    rw [readBytes_local hsame hl hl' (Nat.le_refl _) (by omega),
      readBytes_local (q := pos + _) hsame hl hl' (by omega) (by omega)]
  case case6 =>
    intro e ctx bs pos bs' k hs hsame hl hl'
    cases e <;> simp [Con.sizeWith] at hs
    obtain ⟨hv, rfl⟩ := hs
    rw [parse, parse, evalLen_const_eq ctx hv]
    simp only [bind, Except.bind]
    rw [readBytes_local hsame hl hl' (Nat.le_refl _) (Nat.le_refl _)]
  case case7 =>
    intro e ctx bs pos bs' k hs hsame hl hl'
    cases e <;> simp [Con.sizeWith] at hs
    obtain ⟨hv, rfl⟩ := hs
    rw [parse, parse, evalLen_const_eq ctx hv]
    simp only [bind, Except.bind]
    rw [readBytes_local hsame hl hl' (Nat.le_refl _) (Nat.le_refl _)]
  case case8 =>
    intro count elem ctx bs pos ih bs' k hs hsame hl hl'
    cases count <;> simp [Con.sizeWith] at hs
    obtain ⟨hv, ke, hke, rfl⟩ := hs
    rw [parse, parse, evalLen_const_eq ctx hv]
    simp only [bind, Except.bind]
    rw [parseMany_local (fun p => parse elem ctx bs p) (fun p => parse elem ctx bs' p) ke
      (fun p v p' hh => (static_joint.1 elem ctx bs' p ke v p' hke hh).1) _ pos
      (fun q h1 h2 => ih q bs' ke hke (slice_sub hsame h1 h2) (by omega) (by omega))]
  case case9 =>
    intro f sub ctx bs pos ih bs' k hs hsame hl hl'
    rw [Con.sizeWith] at hs
    simp only [parse]
    rw [ih bs' k hs hsame hl hl']
  case case10 =>
    intro attrs sub ctx bs pos ih bs' k hs hsame hl hl'
    rw [Con.sizeWith] at hs
    simp only [parse]
    rw [ih bs' k hs hsame hl hl']
  case case11 =>
    intro table sub ctx bs pos ih bs' k hs hsame hl hl'
    rw [Con.sizeWith] at hs
    simp only [parse]
    rw [ih bs' k hs hsame hl hl']
  case case12 =>
    intro n ctx bs pos bs' k hs hsame hl hl'
    rw [Con.sizeWith] at hs; rw [parse, parse]
    simp at hs; subst hs
    rw [readBytes_local hsame hl hl' (Nat.le_refl _) (Nat.le_refl _)]
  case case13 =>
    intro sub ctx bs pos ih bs' k hs hsame hl hl'
    rw [Con.sizeWith] at hs
    simp only [parse]
    rw [ih bs' k hs hsame hl hl']
  case case14 =>
    intro sub ref ctx bs pos ih bs' k hs hsame hl hl'
    rw [Con.sizeWith] at hs
    simp only [parse]
    rw [ih bs' k hs hsame hl hl']
  case case15 =>
    intro ctx bs pos bs' k hs hsame hl hl'
    rw [parse, parse]
  case case16 =>
    intro e ctx bs pos bs' k hs hsame hl hl'
    rw [parse, parse]
  case case17 =>
    intro e ctx bs pos v0 he bs' k hs hsame hl hl'
    rw [parse, parse]
  case case18 =>
    intro e ctx bs pos he bs' k hs hsame hl hl'
    rw [parse, parse]
  case case19 =>
    intro ctx bs pos bs' k hs hsame hl hl'
    rw [parseFields, parseFields]
  case case20 =>
    intro name c rest ctx bs pos ih1 ih2 bs' k hs hsame hl hl'
    rw [Con.sizeFields] at hs
    split at hs
    · rename_i a b ha hb
      simp at hs; subst hs
      rw [parseFields, parseFields, ih1 bs' a ha (slice_sub hsame (Nat.le_refl _) (by omega)) (by omega) (by omega)]
      cases hres : parse c ctx bs' pos with
      | error e => rfl
      | ok r =>
        obtain ⟨v, p1⟩ := r
        obtain ⟨rfl, _⟩ := static_joint.1 c ctx bs' pos a v p1 ha hres
        simp only [bind, Except.bind]
        exact ih2 v (pos + a) bs' b hb (slice_sub hsame (by omega) (by omega)) (by omega) (by omega)
    · simp at hs

end Layout

open Layout

/-- a static layout (no dynamic length/count, no `Seek`) consumes exactly its static size,
    and (if that size is positive) all those bytes are present -/
theorem parse_static (c : Con) (k : Nat) (hs : Con.staticSize c = some k)
    (ctx : Ctx) (bs : Bytes) (pos : Nat) (v : Val) (pos' : Nat)
    (h : parse c ctx bs pos = .ok (v, pos')) : pos' = pos + k ∧ (0 < k → pos + k ≤ bs.length) := by
  exact static_joint.1 c ctx bs pos k v pos' hs h

/-- a static layout read from too few bytes fails -/
theorem parse_static_truncated (c : Con) (k : Nat) (hs : Con.staticSize c = some k) (hk : 0 < k)
    (ctx : Ctx) (bs : Bytes) (pos : Nat) (hcut : bs.length < pos + k) :
    ∃ e, parse c ctx bs pos = .error e := by
  cases hres : parse c ctx bs pos with
  | error e => exact ⟨e, rfl⟩
  | ok r =>
    obtain ⟨v, p⟩ := r
    have := (parse_static c k hs ctx bs pos v p hres).2 hk
    omega

/-- locality: the result of parsing a static layout depends only on the bytes it consumes -/
theorem parse_static_local (c : Con) (k : Nat) (hs : Con.staticSize c = some k)
    (ctx : Ctx) (bs bs' : Bytes) (pos : Nat)
    (hsame : slice bs pos (pos + k) = slice bs' pos (pos + k))
    (hlen : pos + k ≤ bs.length) (hlen' : pos + k ≤ bs'.length) :
    parse c ctx bs pos = parse c ctx bs' pos := by
  exact local_joint.1 c ctx bs pos bs' k hs hsame hlen hlen'

/-! ### static sizes of the generated records (recomputed on the regenerated terms) -/

theorem static_sizes :
    Con.staticSize Gen.recordPreamble = some 12 ∧
    Con.staticSize Gen.imageFileDescriptor = some 720 ∧
    Con.staticSize Gen.leaderFileDescriptor = some 720 ∧
    Con.staticSize Gen.datasetSummaryRecord = some 4096 ∧
    Con.staticSize Gen.mapProjectionRecord = some 1620 ∧
    Con.staticSize Gen.platformPositionRecord = some 4680 ∧
    Con.staticSize Gen.radiometricDataRecord = some 9860 ∧
    Con.staticSize Gen.facilityRelatedData5Record = some 5000 ∧
    Con.staticSize Gen.volumeDescriptor = some 360 ∧
    Con.staticSize Gen.filePointerRecord = some 360 ∧
    Con.staticSize Gen.textRecord = some 360 := by
  decide +kernel

/-! ### the context of a struct: member lookup, persistence of bindings -/

namespace Layout

def KeysNodup (lvl : List (String × Val)) : Prop := (lvl.map Prod.fst).Nodup

theorem lookup_map_ne (l : List (String × Val)) (name name' : String) (v : Val) (hn : ¬ name' = name) :
    lookupField (l.map (fun kv => if kv.1 = name then (name, v) else kv)) name' = lookupField l name' := by
  induction l with
  | nil => rfl
  | cons a l ih =>
    unfold lookupField at ih ⊢
    rw [List.map_cons, List.find?_cons, List.find?_cons]
    have h1 : ¬ name = name' := fun h => hn h.symm
    by_cases ha : a.1 = name
    · have h2 : ¬ a.1 = name' := by rw [ha]; exact h1
      simp only [ha, h1, ↓reduceIte, decide_false]
      exact ih
    · rw [if_neg ha]
      by_cases hb : a.1 = name'
      · simp only [hb, decide_true]
      · simp only [hb, decide_false]
        exact ih

theorem lookup_map_eq (l : List (String × Val)) (name : String) (v : Val)
    (hex : l.any (fun kv => kv.1 = name) = true) :
    lookupField (l.map (fun kv => if kv.1 = name then (name, v) else kv)) name = some v := by
  induction l with
  | nil => simp at hex
  | cons a l ih =>
    unfold lookupField at ih ⊢
    rw [List.map_cons, List.find?_cons]
    by_cases ha : a.1 = name
    · simp only [ha, ↓reduceIte, decide_true, Option.map_some]
    · simp only [List.any_cons, ha, decide_false, Bool.false_or] at hex
      simp only [ha, ↓reduceIte, decide_false]
      exact ih hex

theorem lookupField_setField (lvl : List (String × Val)) (name name' : String) (v : Val) :
    lookupField (setField lvl name v) name' = if name' = name then some v else lookupField lvl name' := by
  unfold setField
  split
  · rename_i hex
    by_cases hn : name' = name
    · subst hn; rw [if_pos rfl]; exact lookup_map_eq _ _ _ hex
    · rw [if_neg hn]; exact lookup_map_ne _ _ _ _ hn
  · by_cases hn : name' = name
    · simp [lookupField, hn]
    · have : ¬ name = name' := fun h => hn h.symm
      simp [lookupField, hn, this]

theorem KeysNodup_setField {lvl : List (String × Val)} (name : String) (v : Val) (h : KeysNodup lvl) :
    KeysNodup (setField lvl name v) := by
  unfold setField
  split
  · unfold KeysNodup at *
    have : (lvl.map (fun kv => if kv.1 = name then (name, v) else kv)).map Prod.fst = lvl.map Prod.fst := by
      rw [List.map_map]
      apply List.map_congr_left
      intro a _
      simp only [Function.comp]
      split <;> simp_all
    rw [this]; exact h
  · rename_i hex
    unfold KeysNodup at *
    simp only [List.map_cons, List.nodup_cons]
    refine ⟨?_, h⟩
    simp at hex ⊢
    intro x hx
    exact hex _ hx

theorem find_reverse_nodup (lvl : List (String × Val)) (name : String) (h : KeysNodup lvl) :
    lvl.reverse.find? (fun kv => kv.1 = name) = lvl.find? (fun kv => kv.1 = name) := by
  induction lvl with
  | nil => rfl
  | cons a l ih =>
    unfold KeysNodup at h
    simp only [List.map_cons, List.nodup_cons] at h
    rw [List.reverse_cons, List.find?_append, ih h.2, List.find?_cons]
    by_cases ha : a.1 = name
    · have : l.find? (fun kv => kv.1 = name) = none := by
        rw [List.find?_eq_none]
        intro x hx hxn
        simp at hxn
        apply h.1
        rw [ha, ← hxn]
        exact List.mem_map_of_mem hx
      simp [this, ha]
    · simp [ha]

theorem dict_get_reverse (lvl : List (String × Val)) (name : String) (h : KeysNodup lvl) :
    (Val.dict lvl.reverse).get? name = lookupField lvl name := by
  simp only [Val.get?, lookupField, find_reverse_nodup lvl name h]

theorem parseFields_cons_ok {name : String} {c : Con} {rest : List (String × Con)}
    {lvl : List (String × Val)} {outer : Ctx} {bs : Bytes} {pos : Nat} {r : Val × Nat}
    (h : parseFields ((name, c) :: rest) (lvl :: outer) bs pos = .ok r) :
    ∃ v1 p1, parse c (lvl :: outer) bs pos = .ok (v1, p1) ∧
      parseFields rest (setField lvl name v1 :: outer) bs p1 = .ok r := by
  rw [parseFields] at h
  simp only [bind_ok] at h
  obtain ⟨⟨v1, p1⟩, h1, h2⟩ := h
  exact ⟨v1, p1, h1, h2⟩

/-- the value of a struct is the dict of its final level; names not among the fields keep their binding -/
theorem parseFields_result (fs : List (String × Con)) :
    ∀ (lvl : List (String × Val)) (outer : Ctx) (bs : Bytes) (pos : Nat) (v : Val) (pos' : Nat),
      parseFields fs (lvl :: outer) bs pos = .ok (v, pos') → KeysNodup lvl →
      ∃ lvlF, v = .dict lvlF.reverse ∧ KeysNodup lvlF ∧
        ∀ name, name ∉ fs.map Prod.fst → lookupField lvlF name = lookupField lvl name := by
  induction fs with
  | nil =>
    intro lvl outer bs pos v pos' h hn
    rw [parseFields] at h
    simp at h
    exact ⟨lvl, h.1.symm, hn, fun _ _ => rfl⟩
  | cons f rest ih =>
    intro lvl outer bs pos v pos' h hn
    obtain ⟨name, c⟩ := f
    obtain ⟨v1, p1, h1, h2⟩ := parseFields_cons_ok h
    obtain ⟨lvlF, e1, e2, e3⟩ := ih _ _ _ _ _ _ h2 (KeysNodup_setField name v1 hn)
    refine ⟨lvlF, e1, e2, fun nm hnm => ?_⟩
    simp only [List.map_cons, List.mem_cons, not_or] at hnm
    rw [e3 nm hnm.2, lookupField_setField, if_neg hnm.1]

theorem parseFields_get_persist {fs : List (String × Con)} {lvl : List (String × Val)} {outer : Ctx}
    {bs : Bytes} {pos : Nat} {v : Val} {pos' : Nat}
    (h : parseFields fs (lvl :: outer) bs pos = .ok (v, pos')) (hn : KeysNodup lvl)
    (name : String) (hnm : name ∉ fs.map Prod.fst) : v.get? name = lookupField lvl name := by
  obtain ⟨lvlF, e1, e2, e3⟩ := parseFields_result fs _ _ _ _ _ _ h hn
  rw [e1, dict_get_reverse _ _ e2, e3 name hnm]

def lastCon : List (String × Con) → String → Option Con
  | [], _ => none
  | (n, c) :: rest, name =>
    match lastCon rest name with
    | some c' => some c'
    | none => if n = name then some c else none

theorem lastCon_none {fs : List (String × Con)} {name : String} (h : lastCon fs name = none) :
    name ∉ fs.map Prod.fst := by
  induction fs with
  | nil => simp
  | cons f rest ih =>
    obtain ⟨n, c⟩ := f
    rw [lastCon] at h
    split at h
    · simp at h
    · rename_i hr
      split at h
      · simp at h
      · rename_i hne
        simp only [List.map_cons, List.mem_cons, not_or]
        exact ⟨fun h' => hne h'.symm, ih hr⟩

theorem parseFields_get_last (fs : List (String × Con)) (name : String) (c : Con) :
    ∀ (lvl : List (String × Val)) (outer : Ctx) (bs : Bytes) (pos : Nat) (v : Val) (pos' : Nat),
      parseFields fs (lvl :: outer) bs pos = .ok (v, pos') → KeysNodup lvl → lastCon fs name = some c →
      ∃ ctx' p1 w p2, parse c ctx' bs p1 = .ok (w, p2) ∧ v.get? name = some w := by
  induction fs with
  | nil => intro lvl outer bs pos v pos' h hn hl; simp [lastCon] at hl
  | cons f rest ih =>
    intro lvl outer bs pos v pos' h hn hl
    obtain ⟨n, c0⟩ := f
    obtain ⟨v1, p1, h1, h2⟩ := parseFields_cons_ok h
    have hn' := KeysNodup_setField n v1 hn
    rw [lastCon] at hl
    split at hl
    · rename_i c' hr
      simp at hl; subst hl
      exact ih _ _ _ _ _ _ h2 hn' hr
    · rename_i hr
      split at hl
      · rename_i hnn
        simp at hl; subst hl; subst hnn
        refine ⟨_, _, v1, p1, h1, ?_⟩
        rw [parseFields_get_persist h2 hn' n (lastCon_none hr), lookupField_setField, if_pos rfl]
      · simp at hl

theorem KeysNodup_nil : KeysNodup [] := by simp [KeysNodup]

theorem struct_get {fs : List (String × Con)} {ctx : Ctx} {bs : Bytes} {pos : Nat} {v : Val} {p : Nat}
    (h : parse (.struct fs) ctx bs pos = .ok (v, p)) (name : String) (c : Con)
    (hl : lastCon fs name = some c) :
    ∃ ctx' p1 w p2, parse c ctx' bs p1 = .ok (w, p2) ∧ v.get? name = some w := by
  rw [parse] at h
  exact parseFields_get_last fs name c _ _ _ _ _ _ h KeysNodup_nil hl

theorem parseAInt_int {raw : Bytes} {lf : Leaf} (h : parseAInt raw = .ok lf) : ∃ m : Int, lf = .int m := by
  unfold parseAInt at h
  simp only [bind_ok] at h
  obtain ⟨s, _, h⟩ := h
  split at h
  · simp [pure_ok] at h; exact ⟨_, h.symm⟩
  · split at h
    · simp [pure_ok] at h; exact ⟨_, h.symm⟩
    · simp [throw, throwThe, MonadExceptOf.throw] at h

theorem evalLen_ok {ctx : Ctx} {e : Expr} {n : Nat} (h : evalLen ctx e = .ok n) :
    e.eval ctx = some (n : Int) := by
  unfold evalLen at h
  split at h
  · simp at h
  · rename_i z hz
    split at h
    · simp at h
    · simp at h
      rw [hz, ← h]
      congr 1
      omega

theorem parse_aint_inv {e : Expr} {ctx : Ctx} {bs : Bytes} {pos : Nat} {v : Val} {p : Nat}
    (h : parse (.aint e) ctx bs pos = .ok (v, p)) :
    ∃ (n : Nat) (m : Int), e.eval ctx = some (n : Int) ∧ p = pos + n ∧ v = .leaf (.int m) := by
  rw [parse] at h
  simp only [bind_ok, pure_ok] at h
  obtain ⟨n, h0, raw, h1, lf, h2, h3⟩ := h
  obtain ⟨m, rfl⟩ := parseAInt_int h2
  simp at h3
  exact ⟨n, m, evalLen_ok h0, h3.2.symm, h3.1.symm⟩

theorem parse_uint_inv {n : Nat} {ctx : Ctx} {bs : Bytes} {pos : Nat} {v : Val} {p : Nat}
    (h : parse (.uint n) ctx bs pos = .ok (v, p)) :
    ∃ m : Nat, p = pos + n ∧ v = .leaf (.int m) := by
  rw [parse] at h
  simp only [bind_ok, pure_ok] at h
  obtain ⟨raw, h1, h3⟩ := h
  simp at h3
  exact ⟨_, h3.2.symm, h3.1.symm⟩

theorem parse_pstr_inv {e : Expr} {ctx : Ctx} {bs : Bytes} {pos : Nat} {v : Val} {p : Nat}
    (h : parse (.pstr e) ctx bs pos = .ok (v, p)) :
    ∃ (n : Nat), e.eval ctx = some (n : Int) ∧ p = pos + n := by
  rw [parse] at h
  simp only [bind_ok, pure_ok] at h
  obtain ⟨n, h0, raw, h1, lf, h2, h3⟩ := h
  simp at h3
  exact ⟨n, evalLen_ok h0, h3.2.symm⟩

theorem parse_array_inv {e : Expr} {elem : Con} {ctx : Ctx} {bs : Bytes} {pos : Nat} {v : Val} {p : Nat}
    (h : parse (.array e elem) ctx bs pos = .ok (v, p)) (k : Nat) (hk : Con.sizeWith false elem = some k) :
    ∃ (n : Nat), e.eval ctx = some (n : Int) ∧ p = pos + n * k := by
  rw [parse] at h
  simp only [bind_ok, pure_ok] at h
  obtain ⟨n, h0, ⟨vs, p1⟩, h1, h3⟩ := h
  simp at h3
  have := parseMany_static (fun p => parse elem ctx bs p) k bs.length
      (fun p v p' hh => static_joint.1 elem ctx bs p k v p' hk hh) n pos vs p1 h1
  exact ⟨n, evalLen_ok h0, by omega⟩

theorem struct_get_uint {fs : List (String × Con)} {ctx : Ctx} {bs : Bytes} {pos : Nat} {v : Val} {p : Nat}
    (h : parse (.struct fs) ctx bs pos = .ok (v, p)) (name : String) (m : Nat)
    (hl : lastCon fs name = some (.uint m)) :
    ∃ L : Nat, v.get? name = some (.leaf (.int L)) := by
  obtain ⟨ctx', p1, w, p2, h1, h2⟩ := struct_get h name _ hl
  obtain ⟨L, _, rfl⟩ := parse_uint_inv h1
  exact ⟨L, h2⟩

theorem struct_get_aint {fs : List (String × Con)} {ctx : Ctx} {bs : Bytes} {pos : Nat} {v : Val} {p : Nat}
    (h : parse (.struct fs) ctx bs pos = .ok (v, p)) (name : String) (e : Expr)
    (hl : lastCon fs name = some (.aint e)) :
    ∃ L : Int, v.get? name = some (.leaf (.int L)) := by
  obtain ⟨ctx', p1, w, p2, h1, h2⟩ := struct_get h name _ hl
  obtain ⟨_, L, _, _, rfl⟩ := parse_aint_inv h1
  exact ⟨L, h2⟩

/-- peel the first member off a `parseFields` hypothesis (the old hypothesis is cleared) -/
macro "layout_step " h:ident " with " v:ident p:ident h1:ident : tactic =>
  `(tactic| (have hnew := parseFields_cons_ok $h; clear $h; obtain ⟨$v:ident, $p:ident, $h1:ident, $h:ident⟩ := hnew))

/-- skip a static block of members at the front of a struct -/
theorem parseFields_static_prefix (fs rest : List (String × Con)) :
    ∀ (k : Nat) (lvl : List (String × Val)) (outer : Ctx) (bs : Bytes) (pos : Nat) (r : Val × Nat),
      parseFields (fs ++ rest) (lvl :: outer) bs pos = .ok r → Con.sizeFields false fs = some k →
      KeysNodup lvl →
      ∃ lvl1, parseFields rest (lvl1 :: outer) bs (pos + k) = .ok r ∧ KeysNodup lvl1 ∧
        ∀ name, name ∉ fs.map Prod.fst → lookupField lvl1 name = lookupField lvl name := by
  induction fs with
  | nil =>
    intro k lvl outer bs pos r h hs hn
    simp [Con.sizeFields] at hs
    subst hs
    exact ⟨lvl, h, hn, fun _ _ => rfl⟩
  | cons f fs ih =>
    intro k lvl outer bs pos r h hs hn
    obtain ⟨name, c⟩ := f
    rw [List.cons_append] at h
    obtain ⟨v1, p1, h1, h2⟩ := parseFields_cons_ok h
    rw [Con.sizeFields] at hs
    split at hs
    · rename_i a b ha hb
      simp at hs; subst hs
      obtain ⟨rfl, _⟩ := static_joint.1 c _ _ _ a _ _ ha h1
      obtain ⟨lvl1, e1, e2, e3⟩ := ih b _ _ _ _ _ h2 hb (KeysNodup_setField name v1 hn)
      refine ⟨lvl1, by rw [← Nat.add_assoc]; exact e1, e2, fun nm hnm => ?_⟩
      simp only [List.map_cons, List.mem_cons, not_or] at hnm
      rw [e3 nm hnm.2, lookupField_setField, if_neg hnm.1]
    · simp at hs

theorem parseFields_static_take (i : Nat) {fs : List (String × Con)} {k : Nat} {lvl : List (String × Val)}
    {outer : Ctx} {bs : Bytes} {pos : Nat} {r : Val × Nat}
    (h : parseFields fs (lvl :: outer) bs pos = .ok r) (hs : Con.sizeFields false (fs.take i) = some k)
    (hn : KeysNodup lvl) :
    ∃ lvl1, parseFields (fs.drop i) (lvl1 :: outer) bs (pos + k) = .ok r ∧ KeysNodup lvl1 ∧
        ∀ name, name ∉ (fs.take i).map Prod.fst → lookupField lvl1 name = lookupField lvl name := by
  rw [← List.take_append_drop i fs] at h
  exact parseFields_static_prefix _ _ _ _ _ _ _ _ h hs hn

theorem parseFields_cons_ok' {name : String} {c : Con} {rest : List (String × Con)}
    {lvl : List (String × Val)} {outer : Ctx} {bs : Bytes} {pos : Nat} {v : Val} {pos' : Nat}
    (h : parseFields ((name, c) :: rest) (lvl :: outer) bs pos = .ok (v, pos')) (hn : KeysNodup lvl) :
    ∃ v1 p1, parse c (lvl :: outer) bs pos = .ok (v1, p1) ∧
      parseFields rest (setField lvl name v1 :: outer) bs p1 = .ok (v, pos') ∧
      KeysNodup (setField lvl name v1) ∧ (name ∉ rest.map Prod.fst → v.get? name = some v1) := by
  obtain ⟨v1, p1, h1, h2⟩ := parseFields_cons_ok h
  have hn' := KeysNodup_setField name v1 hn
  refine ⟨v1, p1, h1, h2, hn', fun hnm => ?_⟩
  rw [parseFields_get_persist h2 hn' name hnm, lookupField_setField, if_pos rfl]

/-- peel the first member off a `parseFields` hypothesis, keeping the key invariant and the fact that the
    member's value is what the final dict holds under that name -/
macro "layout_step' " h:ident hn:ident " with " v:ident p:ident h1:ident g:ident : tactic =>
  `(tactic| (have hnew := parseFields_cons_ok' $h $hn; clear $h; clear $hn
             obtain ⟨$v:ident, $p:ident, $h1:ident, $h:ident, $hn:ident, $g:ident⟩ := hnew
             replace $g:ident := $g (by decide)))

theorem getPath_cons {v w : Val} {n : String} (rest : List String) (h : v.get? n = some w) :
    v.getPath (n :: rest) = w.getPath rest := by
  rw [Val.getPath, h]

theorem sarLeaderRecord_eq : Gen.sarLeaderRecord = .struct [
    ("file_descriptor", Gen.leaderFileDescriptor),
    ("dataset_summary", Gen.datasetSummaryRecord),
    ("map_projection", .array (.path ["file_descriptor", "map_projection", "number_of_records"])
      Gen.mapProjectionRecord),
    ("platform_position", Gen.platformPositionRecord),
    ("attitude", Gen.attitudeRecord),
    ("radiometric_data", Gen.radiometricDataRecord),
    ("data_quality_summary", Gen.dataQualitySummaryRecord),
    ("facility_related_data_1", Gen.facilityRelatedDataRecord),
    ("facility_related_data_2", Gen.facilityRelatedDataRecord),
    ("facility_related_data_3", Gen.facilityRelatedDataRecord),
    ("facility_related_data_4", Gen.facilityRelatedDataRecord),
    ("facility_related_data_5", Gen.facilityRelatedData5Record)] := rfl

end Layout

/-! ### framing of the dynamic records: a successful parse consumes exactly the declared bytes -/

/-- attitude record with `n` points and declared length `L`: consumes exactly `L` (and `16 + 120 n ≤ L`) -/
theorem attitude_consumes (ctx : Ctx) (bs : Bytes) (pos : Nat) (v : Val) (pos' : Nat)
    (h : parse Gen.attitudeRecord ctx bs pos = .ok (v, pos')) :
    ∃ L n : Nat, v.getPath ["preamble", "record_length"] = some (.leaf (.int L)) ∧
      v.getPath ["number_of_points"] = some (.leaf (.int n)) ∧
      16 + 120 * n ≤ L ∧ pos' = pos + L := by
  unfold Gen.attitudeRecord at h
  rw [parse] at h
  layout_step h with vp p1 h1
  layout_step h with vn p2 h2
  layout_step h with va p3 h3
  have hn2 := KeysNodup_setField "number_of_points" vn (KeysNodup_setField "preamble" vp KeysNodup_nil)
  have g1 := parseFields_get_persist h (KeysNodup_setField "data_points" va hn2) "preamble" (by decide)
  have g2 := parseFields_get_persist h (KeysNodup_setField "data_points" va hn2) "number_of_points" (by decide)
  layout_step h with vb p4 h4
  rw [parseFields] at h
  obtain ⟨L, hL⟩ := struct_get_uint h1 "record_length" 4 rfl
  obtain ⟨rfl, _⟩ := static_joint.1 _ _ _ _ 12 _ _ (by decide) h1
  obtain ⟨w, m, hw, rfl, rfl⟩ := parse_aint_inv h2
  obtain ⟨n, hn, rfl⟩ := parse_array_inv h3 120 (by decide)
  obtain ⟨b, hb, rfl⟩ := parse_pstr_inv h4
  simp [Expr.eval, resolve, lookupField_setField, hL, Val.toInt?] at hn hb
  simp [Expr.eval] at hw
  simp at h
  simp [lookupField_setField] at g1 g2
  refine ⟨L, n, ?_, ?_, by omega, by omega⟩
  · simp [Val.getPath, g1, hL]
  · simp [Val.getPath, g2, hn]

/-- data-quality summary with `n` channels: consumes exactly 1620 bytes, and `n ≤ 16` -/
theorem dqs_consumes (ctx : Ctx) (bs : Bytes) (pos : Nat) (v : Val) (pos' : Nat)
    (h : parse Gen.dataQualitySummaryRecord ctx bs pos = .ok (v, pos')) :
    ∃ n : Nat, v.getPath ["number_of_channels"] = some (.leaf (.int n)) ∧ n ≤ 16 ∧ pos' = pos + 1620 := by
  unfold Gen.dataQualitySummaryRecord at h
  rw [parse] at h
  layout_step h with v1 p1 h1
  layout_step h with v2 p2 h2
  layout_step h with v3 p3 h3
  layout_step h with v4 p4 h4
  layout_step h with v5 p5 h5
  have hn5 := KeysNodup_setField "number_of_channels" v5 (KeysNodup_setField "date_of_the_last_calibration_update" v4
    (KeysNodup_setField "sar_channel_id" v3 (KeysNodup_setField "record_number" v2
    (KeysNodup_setField "preamble" v1 KeysNodup_nil))))
  have g1 := parseFields_get_persist h hn5 "number_of_channels" (by decide)
  layout_step h with v6 p6 h6
  layout_step h with v7 p7 h7
  layout_step h with v8 p8 h8
  layout_step h with v9 p9 h9
  rw [parseFields] at h
  obtain ⟨rfl, _⟩ := static_joint.1 _ _ _ _ 12 _ _ (by decide) h1
  obtain ⟨rfl, _⟩ := static_joint.1 _ _ _ _ 4 _ _ (by decide) h2
  obtain ⟨rfl, _⟩ := static_joint.1 _ _ _ _ 4 _ _ (by decide) h3
  obtain ⟨rfl, _⟩ := static_joint.1 _ _ _ _ 6 _ _ (by decide) h4
  obtain ⟨w, m, hw, rfl, rfl⟩ := parse_aint_inv h5
  obtain ⟨rfl, _⟩ := static_joint.1 _ _ _ _ 192 _ _ (by decide) h6
  obtain ⟨rfl, _⟩ := static_joint.1 _ _ _ _ 96 _ _ (by decide) h8
  rw [parse] at h7 h9
  layout_step h7 with va q1 h71
  layout_step h7 with vb q2 h72
  rw [parseFields] at h7
  layout_step h9 with vc q3 h91
  layout_step h9 with vd q4 h92
  rw [parseFields] at h9
  obtain ⟨n1, hn1, rfl⟩ := parse_array_inv h71 32 (by decide)
  obtain ⟨b1, hb1, rfl⟩ := parse_pstr_inv h72
  obtain ⟨n2, hn2, rfl⟩ := parse_array_inv h91 32 (by decide)
  obtain ⟨b2, hb2, rfl⟩ := parse_pstr_inv h92
  simp [Expr.eval, resolve, lookupField_setField, Val.toInt?] at hw hn1 hb1 hn2 hb2
  simp at h7 h9
  simp at h
  simp [lookupField_setField] at g1
  obtain ⟨_, h7⟩ := h7
  obtain ⟨_, h9⟩ := h9
  obtain ⟨_, h⟩ := h
  refine ⟨n1, ?_, by omega, by omega⟩
  simp [Val.getPath, g1, hn1]

/-- facility-related data records 1–4 of declared length `L`: consume exactly `L` (and `66 ≤ L`) -/
theorem facility_consumes (ctx : Ctx) (bs : Bytes) (pos : Nat) (v : Val) (pos' : Nat)
    (h : parse Gen.facilityRelatedDataRecord ctx bs pos = .ok (v, pos')) :
    ∃ L : Nat, v.getPath ["preamble", "record_length"] = some (.leaf (.int L)) ∧ 66 ≤ L ∧ pos' = pos + L := by
  unfold Gen.facilityRelatedDataRecord at h
  rw [parse] at h
  layout_step h with vp p1 h1
  have g1 := parseFields_get_persist h (KeysNodup_setField "preamble" vp KeysNodup_nil) "preamble" (by decide)
  layout_step h with vn p2 h2
  layout_step h with va p3 h3
  layout_step h with vb p4 h4
  rw [parseFields] at h
  obtain ⟨L, hL⟩ := struct_get_uint h1 "record_length" 4 rfl
  obtain ⟨rfl, _⟩ := static_joint.1 _ _ _ _ 12 _ _ (by decide) h1
  obtain ⟨w, m, hw, rfl, rfl⟩ := parse_aint_inv h2
  obtain ⟨a, ha, rfl⟩ := parse_pstr_inv h3
  obtain ⟨b, hb, rfl⟩ := parse_pstr_inv h4
  simp [Expr.eval, resolve, lookupField_setField, hL, Val.toInt?] at hw ha hb
  simp at h
  simp [lookupField_setField] at g1
  refine ⟨L, ?_, by omega, by omega⟩
  simp [Val.getPath, g1, hL]

/-- volume directory with `k` file-pointer records: consumes exactly `360 (k + 2)` bytes -/
theorem volume_consumes (ctx : Ctx) (bs : Bytes) (pos : Nat) (v : Val) (pos' : Nat)
    (h : parse Gen.volumeDirectoryRecord ctx bs pos = .ok (v, pos')) :
    ∃ k : Nat, v.getPath ["volume_descriptor", "number_of_file_pointer_records"] = some (.leaf (.int k)) ∧
      pos' = pos + 360 * (k + 2) := by
  unfold Gen.volumeDirectoryRecord at h
  rw [parse] at h
  layout_step h with v1 p1 h1
  have g1 := parseFields_get_persist h (KeysNodup_setField "volume_descriptor" v1 KeysNodup_nil)
    "volume_descriptor" (by decide)
  layout_step h with v2 p2 h2
  layout_step h with v3 p3 h3
  rw [parseFields] at h
  obtain ⟨k, hk⟩ := struct_get_aint h1 "number_of_file_pointer_records" _ rfl
  obtain ⟨rfl, _⟩ := static_joint.1 _ _ _ _ 360 _ _ (by decide) h1
  obtain ⟨n, hn, rfl⟩ := parse_array_inv h2 360 (by decide)
  obtain ⟨rfl, _⟩ := static_joint.1 _ _ _ _ 360 _ _ (by decide) h3
  simp [Expr.eval, resolve, lookupField_setField, hk, Val.toInt?] at hn
  simp at h
  simp [lookupField_setField] at g1
  refine ⟨n, ?_, by omega⟩
  simp [Val.getPath, g1, hk, hn]

/-- trailer descriptor with `k` low-resolution image entries: parses inside the 720 bytes read for it
    (it consumes 694 bytes for every admissible `k ≤ 7`; the reader slices the images from offset 720) -/
theorem trailer_consumes (ctx : Ctx) (bs : Bytes) (pos : Nat) (v : Val) (pos' : Nat)
    (h : parse Gen.trailerFileDescriptor ctx bs pos = .ok (v, pos')) :
    ∃ k : Nat, v.getPath ["number_of_low_resolution_images"] = some (.leaf (.int k)) ∧ k ≤ 7 ∧
      pos' = pos + 694 := by
  unfold Gen.trailerFileDescriptor at h
  rw [parse] at h
  obtain ⟨lvl1, h, hn1, -⟩ := parseFields_static_take 40 (k := 490) h (by decide +kernel) KeysNodup_nil
  simp only [List.drop_succ_cons, List.drop_zero] at h
  layout_step h with v1 p1 h1
  have g1 := parseFields_get_persist h (KeysNodup_setField "number_of_low_resolution_images" v1 hn1)
    "number_of_low_resolution_images" (by decide)
  layout_step h with v2 p2 h2
  layout_step h with v3 p3 h3
  rw [parseFields] at h
  obtain ⟨w, m, hw, rfl, rfl⟩ := parse_aint_inv h1
  obtain ⟨n, hn, rfl⟩ := parse_array_inv h2 26 (by decide)
  obtain ⟨b, hb, rfl⟩ := parse_pstr_inv h3
  simp [Expr.eval, resolve, lookupField_setField, Val.toInt?] at hw hn hb
  simp at h
  simp [lookupField_setField] at g1
  refine ⟨n, ?_, by omega, by omega⟩
  simp [Val.getPath, g1, hn]

/-- the whole leader: the end position is the sum of the lengths the file declares, so each record starts
    where the previous one's declared bytes end (map projection present `k = 1` or absent `k = 0`, any
    attitude / facility lengths) -/
theorem leader_consumes (bs : Bytes) (v : Val) (pos' : Nat)
    (h : parse Gen.sarLeaderRecord [] bs 0 = .ok (v, pos')) :
    ∃ k La L1 L2 L3 L4 : Nat,
      v.getPath ["file_descriptor", "map_projection", "number_of_records"] = some (.leaf (.int k)) ∧
      v.getPath ["attitude", "preamble", "record_length"] = some (.leaf (.int La)) ∧
      v.getPath ["facility_related_data_1", "preamble", "record_length"] = some (.leaf (.int L1)) ∧
      v.getPath ["facility_related_data_2", "preamble", "record_length"] = some (.leaf (.int L2)) ∧
      v.getPath ["facility_related_data_3", "preamble", "record_length"] = some (.leaf (.int L3)) ∧
      v.getPath ["facility_related_data_4", "preamble", "record_length"] = some (.leaf (.int L4)) ∧
      pos' = 720 + 4096 + k * 1620 + 4680 + La + 9860 + 1620 + L1 + L2 + L3 + L4 + 5000 := by
  rw [sarLeaderRecord_eq, parse] at h
  have hn := KeysNodup_nil
  layout_step' h hn with v1 p1 h1 g1
  layout_step' h hn with v2 p2 h2 g2
  layout_step' h hn with v3 p3 h3 g3
  layout_step' h hn with v4 p4 h4 g4
  layout_step' h hn with v5 p5 h5 g5
  layout_step' h hn with v6 p6 h6 g6
  layout_step' h hn with v7 p7 h7 g7
  layout_step' h hn with v8 p8 h8 g8
  layout_step' h hn with v9 p9 h9 g9
  layout_step' h hn with v10 p10 h10 g10
  layout_step' h hn with v11 p11 h11 g11
  layout_step' h hn with v12 p12 h12 g12
  rw [parseFields] at h
  simp at h
  obtain ⟨-, h⟩ := h
  obtain ⟨ctx', q1, w, q2, hw, hw1⟩ := struct_get h1 "map_projection" _ rfl
  obtain ⟨k, hk⟩ := struct_get_aint hw "number_of_records" _ rfl
  obtain ⟨rfl, _⟩ := static_joint.1 _ _ _ _ 720 _ _ static_sizes.2.2.1 h1
  obtain ⟨rfl, _⟩ := static_joint.1 _ _ _ _ 4096 _ _ static_sizes.2.2.2.1 h2
  obtain ⟨n, hn3, rfl⟩ := parse_array_inv h3 1620 static_sizes.2.2.2.2.1
  obtain ⟨rfl, _⟩ := static_joint.1 _ _ _ _ 4680 _ _ static_sizes.2.2.2.2.2.1 h4
  obtain ⟨La, na, ha1, -, -, rfl⟩ := attitude_consumes _ _ _ _ _ h5
  obtain ⟨rfl, _⟩ := static_joint.1 _ _ _ _ 9860 _ _ static_sizes.2.2.2.2.2.2.1 h6
  obtain ⟨nd, -, -, rfl⟩ := dqs_consumes _ _ _ _ _ h7
  obtain ⟨L1, hf1, -, rfl⟩ := facility_consumes _ _ _ _ _ h8
  obtain ⟨L2, hf2, -, rfl⟩ := facility_consumes _ _ _ _ _ h9
  obtain ⟨L3, hf3, -, rfl⟩ := facility_consumes _ _ _ _ _ h10
  obtain ⟨L4, hf4, -, rfl⟩ := facility_consumes _ _ _ _ _ h11
  obtain ⟨rfl, _⟩ := static_joint.1 _ _ _ _ 5000 _ _ static_sizes.2.2.2.2.2.2.2.1 h12
  simp [Expr.eval, resolve, lookupField_setField, hw1, hk, Val.toInt?] at hn3
  refine ⟨n, La, L1, L2, L3, L4, ?_, ?_, ?_, ?_, ?_, ?_, by omega⟩
  · rw [getPath_cons _ g1, getPath_cons _ hw1, getPath_cons _ hk, hn3]; rfl
  · rw [getPath_cons _ g5, ha1]
  · rw [getPath_cons _ g8, hf1]
  · rw [getPath_cons _ g9, hf2]
  · rw [getPath_cons _ g10, hf3]
  · rw [getPath_cons _ g11, hf4]

end Alos2

/-
L — layout calculus: generic facts about the layout interpreter (`Model/Construct.lean`) and the
framing theorems for the records of the source whose length or multiplicity is declared inside the
file (`Gen/Layouts.lean`, regenerated from /repo on every run).
-/
import Alos2.Model.Construct
import Alos2.Gen.Layouts

namespace Alos2

/-! ### generic -/

/-- a static layout (no dynamic length/count, no `Seek`) consumes exactly its static size,
    and (if that size is positive) all those bytes are present -/
theorem parse_static (c : Con) (k : Nat) (hs : Con.staticSize c = some k)
    (ctx : Ctx) (bs : Bytes) (pos : Nat) (v : Val) (pos' : Nat)
    (h : parse c ctx bs pos = .ok (v, pos')) : pos' = pos + k ∧ (0 < k → pos + k ≤ bs.length) := by
  sorry

/-- a static layout read from too few bytes fails -/
theorem parse_static_truncated (c : Con) (k : Nat) (hs : Con.staticSize c = some k) (hk : 0 < k)
    (ctx : Ctx) (bs : Bytes) (pos : Nat) (hcut : bs.length < pos + k) :
    ∃ e, parse c ctx bs pos = .error e := by
  sorry

/-- locality: the result of parsing a static layout depends only on the bytes it consumes -/
theorem parse_static_local (c : Con) (k : Nat) (hs : Con.staticSize c = some k)
    (ctx : Ctx) (bs bs' : Bytes) (pos : Nat)
    (hsame : slice bs pos (pos + k) = slice bs' pos (pos + k))
    (hlen : pos + k ≤ bs.length) (hlen' : pos + k ≤ bs'.length) :
    parse c ctx bs pos = parse c ctx bs' pos := by
  sorry

/-! ### static sizes of the generated records (recomputed on the regenerated terms) -/

theorem static_sizes :
    Con.staticSize Gen.recordPreamble = some 12 ∧
    Con.staticSize Gen.imageFileDescriptor = some 720 ∧
    Con.staticSize Gen.leaderFileDescriptor = some 720 ∧
    Con.staticSize Gen.datasetSummaryRecord = some 4096 ∧
    Con.staticSize Gen.mapProjectionRecord = some 1620 ∧
    Con.staticSize Gen.platformPositionRecord = some 4680 ∧
    Con.staticSize Gen.radiometricDataRecord = some 9860 ∧
    Con.staticSize Gen.facilityRelatedData5Record = some 5000 ∧
    Con.staticSize Gen.volumeDescriptor = some 360 ∧
    Con.staticSize Gen.filePointerRecord = some 360 ∧
    Con.staticSize Gen.textRecord = some 360 := by
  decide +kernel

/-! ### framing of the dynamic records: a successful parse consumes exactly the declared bytes -/

/-- attitude record with `n` points and declared length `L`: consumes exactly `L` (and `16 + 120 n ≤ L`) -/
theorem attitude_consumes (ctx : Ctx) (bs : Bytes) (pos : Nat) (v : Val) (pos' : Nat)
    (h : parse Gen.attitudeRecord ctx bs pos = .ok (v, pos')) :
    ∃ L n : Nat, v.getPath ["preamble", "record_length"] = some (.leaf (.int L)) ∧
      v.getPath ["number_of_points"] = some (.leaf (.int n)) ∧
      16 + 120 * n ≤ L ∧ pos' = pos + L := by
  sorry

/-- data-quality summary with `n` channels: consumes exactly 1620 bytes, and `n ≤ 16` -/
theorem dqs_consumes (ctx : Ctx) (bs : Bytes) (pos : Nat) (v : Val) (pos' : Nat)
    (h : parse Gen.dataQualitySummaryRecord ctx bs pos = .ok (v, pos')) :
    ∃ n : Nat, v.getPath ["number_of_channels"] = some (.leaf (.int n)) ∧ n ≤ 16 ∧ pos' = pos + 1620 := by
  sorry

/-- facility-related data records 1–4 of declared length `L`: consume exactly `L` (and `66 ≤ L`) -/
theorem facility_consumes (ctx : Ctx) (bs : Bytes) (pos : Nat) (v : Val) (pos' : Nat)
    (h : parse Gen.facilityRelatedDataRecord ctx bs pos = .ok (v, pos')) :
    ∃ L : Nat, v.getPath ["preamble", "record_length"] = some (.leaf (.int L)) ∧ 66 ≤ L ∧ pos' = pos + L := by
  sorry

/-- volume directory with `k` file-pointer records: consumes exactly `360 (k + 2)` bytes -/
theorem volume_consumes (ctx : Ctx) (bs : Bytes) (pos : Nat) (v : Val) (pos' : Nat)
    (h : parse Gen.volumeDirectoryRecord ctx bs pos = .ok (v, pos')) :
    ∃ k : Nat, v.getPath ["volume_descriptor", "number_of_file_pointer_records"] = some (.leaf (.int k)) ∧
      pos' = pos + 360 * (k + 2) := by
  sorry

/-- trailer descriptor with `k` low-resolution image entries: parses inside the 720 bytes read for it
    (it consumes 694 bytes for every admissible `k ≤ 7`; the reader slices the images from offset 720) -/
theorem trailer_consumes (ctx : Ctx) (bs : Bytes) (pos : Nat) (v : Val) (pos' : Nat)
    (h : parse Gen.trailerFileDescriptor ctx bs pos = .ok (v, pos')) :
    ∃ k : Nat, v.getPath ["number_of_low_resolution_images"] = some (.leaf (.int k)) ∧ k ≤ 7 ∧
      pos' = pos + 694 := by
  sorry

/-- the whole leader: the end position is the sum of the lengths the file declares, so each record starts
    where the previous one's declared bytes end (map projection present `k = 1` or absent `k = 0`, any
    attitude / facility lengths) -/
theorem leader_consumes (bs : Bytes) (v : Val) (pos' : Nat)
    (h : parse Gen.sarLeaderRecord [] bs 0 = .ok (v, pos')) :
    ∃ k La L1 L2 L3 L4 : Nat,
      v.getPath ["file_descriptor", "map_projection", "number_of_records"] = some (.leaf (.int k)) ∧
      v.getPath ["attitude", "preamble", "record_length"] = some (.leaf (.int La)) ∧
      v.getPath ["facility_related_data_1", "preamble", "record_length"] = some (.leaf (.int L1)) ∧
      v.getPath ["facility_related_data_2", "preamble", "record_length"] = some (.leaf (.int L2)) ∧
      v.getPath ["facility_related_data_3", "preamble", "record_length"] = some (.leaf (.int L3)) ∧
      v.getPath ["facility_related_data_4", "preamble", "record_length"] = some (.leaf (.int L4)) ∧
      pos' = 720 + 4096 + k * 1620 + 4680 + La + 9860 + 1620 + L1 + L2 + L3 + L4 + 5000 := by
  sorry

end Alos2

/-
C01 end to end on the models: from the bytes of an image FILE, through the layout-based reader (`open_image` without a cache:
descriptor, line records chunk by chunk, `transform_metadata` → `ArrayMeta`) and through the lazy array built from that
description (`Array.__getitem__`, `Model/Array.lean`), to the samples — the two halves of C01 (`layout_ranges`: what the reader
hands to `Array(...)`; `pixel_fidelity`: what the array reads for a regular geometry) composed into one statement about a file.
-/
import Alos2.Proofs.Geometry
import Alos2.Proofs.LineAddr
import Alos2.Proofs.ImageOpen
import Alos2.Proofs.FailStop

namespace Alos2

/-- the lazy array `open_image` builds from the description the reader returns (`Array(fs, url, **array_metadata,
    records_per_chunk=rpc)`): byte ranges and number of columns from the metadata, bytes per sample from the type code -/
def imageOfMeta (file : Bytes) (a : ArrayMeta) (bpp : Nat) : Image :=
  { file := file, ranges := a.byteRanges.map (fun r => (r.1.toNat, r.2.toNat)), ncols := a.shape.2.toNat, bpp := bpp,
    rpc := normalizeChunksize a.rpc a.byteRanges.length }

namespace ReaderPx

theorem mapM_index {α β : Type} (f : α → Except Err β) (F : Nat → β) :
    ∀ (l : List α) (k : Nat) (out : List β), l.mapM f = .ok out →
      (∀ i a, l[i]? = some a → f a = .ok (F (k + i))) →
      out = (List.range l.length).map (fun i => F (k + i)) := by
  intro l
  induction l with
  | nil =>
    intro k out h _
    rw [List.mapM_nil] at h
    cases h
    rfl
  | cons a l ih =>
    intro k out h hf
    rw [List.mapM_cons] at h
    simp only [Shape.bind_ok, Shape.pure_ok] at h
    obtain ⟨b, hb, bs, hbs, rfl⟩ := h
    have h0 := hf 0 a rfl
    rw [hb] at h0
    cases h0
    have := ih (k + 1) bs hbs (fun i x hx => by
      have := hf (i + 1) x (by simpa using hx)
      rw [this]; congr 2; omega)
    rw [this, List.length_cons, List.range_succ_eq_map, List.map_cons, List.map_map]
    congr 1
    apply List.map_congr_left
    intro i _
    simp only [Function.comp]
    congr 1; omega

theorem bpp_pos (code dt : String) (bpp : Nat)
    (h : Gen.dtypes.find? (fun d => d.1 = code) = some (code, dt, bpp)) : 0 < bpp := by
  have hm := List.mem_of_find?_eq_some h
  have : Gen.dtypes = [("C*8", "complex64", 8), ("IU2", "uint16", 2)] := by decide
  rw [this] at hm
  simp only [List.mem_cons, Prod.mk.injEq, List.mem_nil_iff, or_false] at hm
  omega

/-- the header of a successful metadata pass that returned records declares a positive record count -/
theorem declared_count (file : Bytes) (rpc : Nat) (header : Val) (recs : List Val)
    (h : readImageRecords file rpc = .ok (header, recs)) (hn : 0 < recs.length) :
    ∃ n : Nat, intAt header ["number_of_sar_data_records"] = .ok (n : Int) := by
  unfold readImageRecords at h
  simp only [Shape.bind_ok] at h
  obtain ⟨hd, -, n, en, L, -, h⟩ := h
  split at h
  · simp only [Shape.bind_ok] at h
    obtain ⟨_, h, -⟩ := h
    cases h
  simp only [Shape.bind_ok, Shape.pure_ok] at h
  obtain ⟨r, h, heq⟩ := h
  simp only [Prod.mk.injEq] at heq
  obtain ⟨rfl, rfl⟩ := heq
  by_cases hle : n ≤ 0
  · rw [if_pos hle] at h
    unfold readChunks at h
    cases h
    simp at hn
  · refine ⟨n.toNat, ?_⟩
    rw [en, Int.toNat_of_nonneg (by omega)]

end ReaderPx

/-- the lazy array the reader builds for such a file IS the regular-geometry array of `Proofs/Geometry.lean` -/
theorem reader_image_is_regular (file : Bytes) (name : String) (rpc : Nat) (gname : String) (g : ImageGroup)
    (h : openImageFile file name rpc = .ok (gname, g))
    (header : Val) (recs : List Val) (hr : readImageRecords file rpc = .ok (header, recs))
    (hrpc : 0 < rpc) (hn : 0 < recs.length)
    (L : Nat) (hL : 0 < L) (hdrL : intAt header ["sar_data_record_length"] = .ok (L : Int))
    (hrl : ∀ r ∈ recs, intAt r ["preamble", "record_length"] = .ok (L : Int))
    (t : Nat) (ht : t = 10 ∨ t = 11) (hty : ∀ r ∈ recs, intAt r ["preamble", "record_type"] = .ok (t : Int))
    (m bpp : Nat) (dt : String)
    (hbpp : Gen.dtypes.find? (fun d => d.1 = g.array.typeCode) = some (g.array.typeCode, dt, bpp))
    (hshape : g.array.shape = (((recs.length : Nat) : Int), ((m : Nat) : Int)))
    (hLm : L = prefixOf t + m * bpp) :
    imageOfMeta file g.array bpp =
      ({ n := recs.length, m := m, bpp := bpp, P := prefixOf t, code := t } : Geometry).image file rpc ∧
    0 < bpp ∧ 720 + recs.length * L ≤ file.length := by
  obtain ⟨header', recs', -, hr', -, hrpc', -, -, -, -, hranges, -⟩ := openImageFile_array _ _ _ _ _ h
  rw [hr] at hr'
  simp only [Except.ok.injEq, Prod.mk.injEq] at hr'
  obtain ⟨rfl, rfl⟩ := hr'
  have hrg := readImageRecords_ranges file rpc header recs hr L hL hdrL hrl t ht hty
  have hbr : g.array.byteRanges = (List.range recs.length).map
      (fun i => (((720 + (0 + i) * L + prefixOf t : Nat) : Int), ((720 + ((0 + i) + 1) * L : Nat) : Int))) := by
    refine ReaderPx.mapM_index _ (fun i => (((720 + i * L + prefixOf t : Nat) : Int), ((720 + (i + 1) * L : Nat) : Int)))
      recs 0 _ hranges ?_
    intro i r hi
    obtain ⟨-, h1, h2⟩ := hrg i r hi
    rw [h1, h2, Nat.zero_add]
    rfl
  obtain ⟨n, hdrn⟩ := ReaderPx.declared_count file rpc header recs hr hn
  have hsize := (readImageRecords_within_file file rpc header recs hr n L hL hdrn hdrL t hrl hty).2.1 hn
  have hb := ReaderPx.bpp_pos _ _ _ hbpp
  let g' : Geometry := { n := recs.length, m := m, bpp := bpp, P := prefixOf t, code := t }
  have hgL : g'.L = L := hLm.symm
  have himg : imageOfMeta file g.array bpp = g'.image file rpc := by
    unfold imageOfMeta Geometry.image
    rw [hbr, hrpc', hshape]
    simp only [List.map_map, List.length_map, List.length_range, Int.toNat_natCast]
    congr 1
    apply List.map_congr_left
    intro i _
    simp only [Function.comp, Geometry.range, hgL, Int.toNat_natCast, Nat.zero_add]
    rfl
  exact ⟨himg, hb, hsize⟩

/-- READER + ARRAY: for every image file that the layout-based reader opens, whose line records are well framed (every
    preamble declares the header's record length L and one type t) and whose header is self-consistent (declared shape =
    (number of line records, m); L = prefix + m·bpp with bpp the sample size of the declared type code), loading the whole
    image through the lazy array returns exactly one row per line record, m samples each, sample (i, j) being the bytes
    [720 + i·L + P + j·bpp, 720 + i·L + P + (j+1)·bpp) of the file — for every positive `records_per_chunk` -/
theorem reader_pixel_fidelity (file : Bytes) (name : String) (rpc : Nat) (gname : String) (g : ImageGroup)
    (h : openImageFile file name rpc = .ok (gname, g))
    (header : Val) (recs : List Val) (hr : readImageRecords file rpc = .ok (header, recs))
    (hrpc : 0 < rpc) (hn : 0 < recs.length)
    (L : Nat) (hL : 0 < L) (hdrL : intAt header ["sar_data_record_length"] = .ok (L : Int))
    (hrl : ∀ r ∈ recs, intAt r ["preamble", "record_length"] = .ok (L : Int))
    (t : Nat) (ht : t = 10 ∨ t = 11) (hty : ∀ r ∈ recs, intAt r ["preamble", "record_type"] = .ok (t : Int))
    (m bpp : Nat) (dt : String)
    (hbpp : Gen.dtypes.find? (fun d => d.1 = g.array.typeCode) = some (g.array.typeCode, dt, bpp))
    (hshape : g.array.shape = (((recs.length : Nat) : Int), ((m : Nat) : Int)))
    (hLm : L = prefixOf t + m * bpp) :
    ∃ rows : List (List Bytes),
      (getitem (imageOfMeta file g.array bpp) (.slice none none none) (.slice none none none)).1 = .ok (.d2 m rows) ∧
      rows.length = recs.length ∧
      ∀ i, i < recs.length → ∀ j, j < m →
        (rows.getD i []).getD j [] =
          slice file (720 + i * L + prefixOf t + j * bpp) (720 + i * L + prefixOf t + (j + 1) * bpp) := by
  obtain ⟨header', recs', -, hr', -, hrpc', -, -, -, -, hranges, -⟩ := openImageFile_array _ _ _ _ _ h
  rw [hr] at hr'
  simp only [Except.ok.injEq, Prod.mk.injEq] at hr'
  obtain ⟨rfl, rfl⟩ := hr'
  have hrg := readImageRecords_ranges file rpc header recs hr L hL hdrL hrl t ht hty
  have hbr : g.array.byteRanges = (List.range recs.length).map
      (fun i => (((720 + (0 + i) * L + prefixOf t : Nat) : Int), ((720 + ((0 + i) + 1) * L : Nat) : Int))) := by
    refine ReaderPx.mapM_index _ (fun i => (((720 + i * L + prefixOf t : Nat) : Int), ((720 + (i + 1) * L : Nat) : Int)))
      recs 0 _ hranges ?_
    intro i r hi
    obtain ⟨-, h1, h2⟩ := hrg i r hi
    rw [h1, h2, Nat.zero_add]
    rfl
  obtain ⟨n, hdrn⟩ := ReaderPx.declared_count file rpc header recs hr hn
  have hsize := (readImageRecords_within_file file rpc header recs hr n L hL hdrn hdrL t hrl hty).2.1 hn
  have hb := ReaderPx.bpp_pos _ _ _ hbpp
  let g' : Geometry := { n := recs.length, m := m, bpp := bpp, P := prefixOf t, code := t }
  have hgL : g'.L = L := hLm.symm
  have himg : imageOfMeta file g.array bpp = g'.image file rpc := by
    unfold imageOfMeta Geometry.image
    rw [hbr, hrpc', hshape]
    simp only [List.map_map, List.length_map, List.length_range, Int.toNat_natCast]
    congr 1
    apply List.map_congr_left
    intro i _
    simp only [Function.comp, Geometry.range, hgL, Int.toNat_natCast, Nat.zero_add]
    rfl
  rw [himg]
  have := Geometry.pixel_fidelity g' file hn hb (by rw [hgL]; exact hsize) rpc hrpc
  rw [hgL] at this
  exact this

end Alos2

/-
Naturality of the pipelines of `Model/Transform2.lean`: each commutes with any leaf map compatible with the
extended leaf functions (`Compat2`) — the transformers never look inside a value read from the file except
through `LeafFns2`.

Helper lemmas live in the namespace `Alos2.Natural2`; the three pipeline theorems are in `Alos2`.
-/
import Alos2.Model.Sym
import Alos2.Model.Transform2
import Alos2.Proofs.Natural

namespace Alos2

open Natural

variable {α β : Type}

attribute [local simp] Natural.map_leaf Natural.map_cstr Natural.map_cint Natural.map_list Natural.map_tup Natural.map_dict

/-! ### platform position -/

namespace Natural2

theorem mergeDicts_map (f : α → β) (xs : List (PVal α)) :
    mergeDicts (xs.map (PVal.map f)) = (mergeDicts xs).map (kvm f) := by
  unfold mergeDicts
  rw [asDicts_map, mergeWithList_map]

theorem toDimVar_map (f : α → β) (dim : String) (v : PVal α) :
    toDimVar dim (v.map f) = (toDimVar dim v).map f := by
  simp [toDimVar, separateAttrs_map]

theorem transformPositions_map (f : α → β) (v : PVal α) :
    transformPositions (v.map f) = (transformPositions v).map f := by
  cases v <;> try (simp [transformPositions]; done)
  rename_i xs
  simp only [transformPositions, map_list, mergeDicts_map, map_dict, List.map_map]
  congr 1
  apply List.map_congr_left
  intro kv _
  obtain ⟨k, w⟩ := kv
  cases w <;> try (simp; done)
  rename_i ys
  simp only [Function.comp_def, map_list, mergeDicts_map, map_dict, List.map_map, toDimVar_map]

theorem transformCompositeDatetime_map {f : α → β} {lf : LeafFns2 α} {lf' : LeafFns2 β} (h : Compat2 f lf lf')
    (v : PVal α) :
    transformCompositeDatetime lf' (v.map f) = (transformCompositeDatetime lf v).map (PVal.map f) := by
  cases v <;> try (simp [transformCompositeDatetime]; done)
  rename_i kvs
  simp only [transformCompositeDatetime, map_dict, kvGet_map]
  rcases kvGet kvs "date" with _ | d <;> try (simp; done)
  rcases kvGet kvs "seconds_of_day" with _ | s
  · cases d <;> simp
  · cases d <;> cases s <;> simp [h.compositeDatetime]

theorem moveDesignator_map (f : α → β) (kvs : KVs α) :
    moveDesignator (kvs.map (kvm f)) = (moveDesignator kvs).map (List.map (kvm f)) := by
  simp only [moveDesignator, kvGet_map]
  rcases kvGet kvs "orbital_elements_designator" with _ | v <;> try (simp; done)
  rcases kvGet kvs "orbital_elements" with _ | d
  · simp only [Option.map_none, Option.map_some]
    rw [show (PVal.dict (kvSet [] "type" (v.map f)) : PVal β) = (PVal.dict (kvSet [] "type" v)).map f by
      rw [map_dict, ← kvSet_kvm]; rfl]
    rw [kvSet_kvm, List.filter_map]
    rfl
  · cases d <;> try (simp; done)
    rename_i dd
    simp only [Option.map_some, map_dict]
    rw [show (PVal.dict (kvSet (dd.map (kvm f)) "type" (v.map f)) : PVal β) = (PVal.dict (kvSet dd "type" v)).map f by
      rw [map_dict, ← kvSet_kvm]]
    rw [kvSet_kvm, List.filter_map]
    rfl

/-- the key-wise step of `transformPlatformPosition` -/
def platStep (lf : LeafFns2 α) (kv : String × PVal α) : Option (String × PVal α) :=
  if kv.1 = "datetime_of_first_point" then (transformCompositeDatetime lf kv.2).map (fun r => (kv.1, r))
  else if kv.1 = "positions" then some (kv.1, transformPositions kv.2)
  else if kv.1 = "occurrence_flag_of_a_leap_second" then some (kv.1, onLeaf lf.toBool kv.2)
  else some kv

theorem platStep_map {f : α → β} {lf : LeafFns2 α} {lf' : LeafFns2 β} (h : Compat2 f lf lf')
    (kv : String × PVal α) : platStep lf' (kvm f kv) = (platStep lf kv).map (kvm f) := by
  obtain ⟨k, w⟩ := kv
  simp only [platStep, kvm]
  split
  · simp [transformCompositeDatetime_map h, Option.map_map, Function.comp_def]
  · split
    · simp [transformPositions_map]
    · split
      · simp [onLeaf_rel h.toBool w]
      · simp

theorem transformPlatformPosition_dict (lf : LeafFns2 α) (kvs : KVs α) :
    transformPlatformPosition lf (.dict kvs) =
      if Gen.Config.platform_position__transform_platform_position.transformers ≠
        [("datetime_of_first_point", "transform_composite_datetime"), ("positions", "transform_positions"),
         ("occurrence_flag_of_a_leap_second", "bool")] then none else
      ((removeSparesKvs (dissoc Gen.Config.platform_position__transform_platform_position.ignored kvs)).mapM (platStep lf)).bind
        (fun applied => (moveDesignator (rename Gen.Config.platform_position__transform_platform_position.translations applied)).bind
          (fun moved => some (asGroup (.dict moved)))) := by
  simp only [transformPlatformPosition, removeSpares]
  rfl

end Natural2

open Natural2

theorem transformPlatformPosition_natural (f : α → β) (lf : LeafFns2 α) (lf' : LeafFns2 β) (h : Compat2 f lf lf')
    (v : PVal α) :
    transformPlatformPosition lf' (v.map f) = (transformPlatformPosition lf v).map (Grp.map f) := by
  cases v <;> try (simp [transformPlatformPosition]; done)
  rename_i kvs
  rw [map_dict, transformPlatformPosition_dict, transformPlatformPosition_dict]
  split
  · rfl
  · rw [dissoc_kvm, (removeSpares_all f).2.1,
      mapM_option_map (kvm f) (kvm f) (platStep lf) (platStep lf') _ (fun kv _ => platStep_map h kv)]
    cases List.mapM (platStep lf) (removeSparesKvs (dissoc Gen.Config.platform_position__transform_platform_position.ignored kvs)) with
    | none => simp
    | some applied =>
      simp only [Option.map_some, Option.bind_some, rename_kvm, moveDesignator_map]
      cases moveDesignator (rename Gen.Config.platform_position__transform_platform_position.translations applied) with
      | none => simp
      | some moved => simp [← asGroup_map]

/-! ### map projection -/

namespace Natural2

theorem mapM_option_map' {A B B' : Type} (h : B → B') (s : A → Option B) (s' : A → Option B')
    (l : List A) (H : ∀ a ∈ l, s' a = (s a).map h) :
    l.mapM s' = (l.mapM s).map (List.map h) := by
  simpa using mapM_option_map id h s s' l H

theorem filterMapProjection_map {f : α → β} {lf : LeafFns2 α} {lf' : LeafFns2 β} (h : Compat2 f lf lf')
    (kvs : KVs α) :
    filterMapProjection lf' (kvs.map (kvm f)) = (filterMapProjection lf kvs).map (List.map (kvm f)) := by
  simp only [filterMapProjection, kvGet_map]
  rcases kvGet kvs "map_projection_designator" with _ | d <;> try (simp; done)
  cases d <;> try (simp; done)
  rename_i a
  simp only [Option.map_some, map_leaf, h.desig]
  cases lf.desig a <;> simp [dissoc_kvm, rename_kvm]

theorem cornerVar_map (f : α → β) (v : PVal α) : cornerVar (v.map f) = (cornerVar v).map f := by
  rcases v with a | s | i | xs | kvs | xs <;> try (simp [cornerVar]; done)
  rcases xs with _ | ⟨x, rest⟩ <;> try (simp [cornerVar]; done)
  rcases x with a | s | i | xs | kvs | ys <;> try (simp [cornerVar]; done)
  rcases ys with _ | ⟨v0, ys⟩ <;> try (simp [cornerVar]; done)
  rcases ys with _ | ⟨a0, r0⟩ <;> try (simp [cornerVar]; done)
  simp only [cornerVar, map_list, map_tup, List.map_cons, List.map_map, PVal.list.injEq, List.cons.injEq,
    true_and, and_true, List.map_nil, map_cstr, PVal.tup.injEq]
  apply List.map_congr_left
  intro x _
  rcases x with a | s | i | xs | kvs | ys <;> try (simp; done)
  rcases ys with _ | ⟨v0, ys⟩ <;> simp

theorem combineCorners_map (f : α → β) (v : PVal α) :
    combineCorners (v.map f) = (combineCorners v).map (PVal.map f) := by
  cases v <;> try (simp [combineCorners]; done)
  rename_i kvs
  simp only [combineCorners, map_dict]
  rw [mapM_option_map' (PVal.map f) (kvGet kvs) (kvGet (kvs.map (kvm f))) cornerKeys (fun k _ => kvGet_map f kvs k)]
  cases List.mapM (kvGet kvs) cornerKeys with
  | none => simp
  | some items =>
    simp only [Option.map_some, Option.bind_eq_bind, Option.bind_some, mergeDicts_map, List.map_map, Option.pure_def,
      map_dict, Function.comp_def, cornerVar_map]

def FnRelO (f : α → β) (g : PVal α → Option (PVal α)) (g' : PVal β → Option (PVal β)) : Prop :=
  ∀ v, g' (v.map f) = (g v).map (PVal.map f)

theorem valMapM_map {f : α → β} {g g'} (hg : FnRelO f g g') (kvs : KVs α) :
    (kvs.map (kvm f)).mapM (fun kv => (g' kv.2).map (fun r => (kv.1, r))) =
      (kvs.mapM (fun kv => (g kv.2).map (fun r => (kv.1, r)))).map (List.map (kvm f)) := by
  apply mapM_option_map
  intro kv _
  simp [hg kv.2, Option.map_map, Function.comp_def]

theorem cornerNames_map (f : α → β) : (cornerNames : PVal α).map f = cornerNames := by
  simp [cornerNames]

theorem transformCornerPoints_map (f : α → β) : FnRelO f transformCornerPoints transformCornerPoints := by
  intro v
  cases v <;> try (simp [transformCornerPoints]; done)
  rename_i kvs
  simp only [transformCornerPoints, map_dict]
  rw [dissoc_kvm, valMapM_map (combineCorners_map f)]
  cases List.mapM (fun kv => (combineCorners kv.2).map (fun r => (kv.1, r))) (dissoc ["terrain_heights_relative_to_ellipsoid"] kvs) with
  | none => simp
  | some combined =>
    simp only [Option.map_some, Option.bind_eq_bind, Option.bind_some, Option.pure_def, map_dict, List.map_map,
      Option.some.injEq, PVal.dict.injEq]
    apply List.map_congr_left
    intro kv _
    obtain ⟨k, w⟩ := kv
    simp only [Function.comp, kvm]
    split
    · cases w <;> try (simp; done)
      rename_i inner
      simp only [map_dict, Prod.mk.injEq, true_and, PVal.dict.injEq]
      rw [← kvUnion_kvm]
      simp [kvm, cornerNames_map]
    · rfl

theorem transformCoeffs_map (f : α → β) : FnRelO f transformCoeffs transformCoeffs := by
  intro v
  rcases v with a | s | i | xs | kvs | xs <;> try (simp [transformCoeffs]; done)
  rcases xs with _ | ⟨x1, xs⟩ <;> try (simp [transformCoeffs]; done)
  rcases xs with _ | ⟨x2, xs⟩
  · cases x1 <;> simp [transformCoeffs]
  · rcases xs with _ | ⟨x3, xs⟩ <;> cases x1 <;> simp [transformCoeffs, Function.comp_def]

theorem transformConversionCoefficients_map (f : α → β) :
    FnRelO f transformConversionCoefficients transformConversionCoefficients := by
  intro v
  cases v <;> try (simp [transformConversionCoefficients]; done)
  rename_i kvs
  simp only [transformConversionCoefficients, map_dict]
  rw [valMapM_map (transformCoeffs_map f)]
  cases List.mapM (fun kv => (transformCoeffs kv.2).map (fun r => (kv.1, r))) kvs with
  | none => simp
  | some tr => simp [rename_kvm]

inductive FnsRelO (f : α → β) :
    List (String × (PVal α → Option (PVal α))) → List (String × (PVal β → Option (PVal β))) → Prop where
  | nil : FnsRelO f [] []
  | cons {k g g' fs fs'} : FnRelO f g g' → FnsRelO f fs fs' → FnsRelO f ((k, g) :: fs) ((k, g') :: fs')

theorem FnsRelO.find {f : α → β} {fs fs'} (h : FnsRelO f fs fs') (k : String) :
    ORel (fun p p' => FnRelO f p.2 p'.2) (fs.find? (fun p => p.1 = k)) (fs'.find? (fun p => p.1 = k)) := by
  induction h with
  | nil => simp [ORel]
  | @cons k' g g' fs fs' hg _ ih =>
    by_cases hk : k' = k
    · simp [hk, ORel]; exact hg
    · simpa [hk] using ih

theorem applyToItemsOpt_map {f : α → β} {fs fs'} (h : FnsRelO f fs fs') (kvs : KVs α) :
    applyToItemsOpt fs' (kvs.map (kvm f)) = (applyToItemsOpt fs kvs).map (List.map (kvm f)) := by
  unfold applyToItemsOpt
  apply mapM_option_map
  intro kv _
  have := h.find kv.1
  revert this
  simp only [kvm]
  cases fs.find? (fun p => p.1 = kv.1) <;> cases fs'.find? (fun p => p.1 = kv.1) <;> simp [ORel]
  intro hg
  simp [hg kv.2, Option.map_map, Function.comp_def]

theorem onDict_rel {f : α → β} {g : KVs α → KVs α} {g' : KVs β → KVs β}
    (hg : ∀ kvs, g' (kvs.map (kvm f)) = (g kvs).map (kvm f)) :
    FnRelO f (fun v => some (onDict g v)) (fun v => some (onDict g' v)) := by
  intro v
  cases v <;> simp [onDict, hg]

theorem mapProjectionFn_rel (f : α → β) (name : String) :
    ORel (FnRelO f) (mapProjectionFn name) (mapProjectionFn name) := by
  unfold mapProjectionFn
  split
  · exact onDict_rel (rename_kvm f _)
  · exact onDict_rel (dissoc_kvm f _)
  · exact onDict_rel (dissoc_kvm f _)
  · exact transformCornerPoints_map f
  · exact transformConversionCoefficients_map f
  · trivial

theorem interpAllO_rel {f : α → β} {interp : String → Option (PVal α → Option (PVal α))}
    {interp' : String → Option (PVal β → Option (PVal β))}
    (hi : ∀ name, ORel (FnRelO f) (interp name) (interp' name)) (tbl : List (String × String)) :
    ORel (FnsRelO f) (tbl.mapM (fun kv => (interp kv.2).map (fun g => (kv.1, g))))
      (tbl.mapM (fun kv => (interp' kv.2).map (fun g => (kv.1, g)))) := by
  induction tbl with
  | nil => simp [ORel]; exact .nil
  | cons kv rest ih =>
    simp only [List.mapM_cons]
    have h1 := hi kv.2
    cases h : interp kv.2 <;> cases h' : interp' kv.2 <;> simp [h, h', ORel] at h1 ⊢
    revert ih
    cases List.mapM (fun kv => Option.map (fun g => (kv.1, g)) (interp kv.2)) rest <;>
      cases List.mapM (fun kv => Option.map (fun g => (kv.1, g)) (interp' kv.2)) rest <;> simp [ORel]
    intro hr; exact .cons h1 hr

end Natural2

theorem transformMapProjection_natural (f : α → β) (lf : LeafFns2 α) (lf' : LeafFns2 β) (h : Compat2 f lf lf')
    (v : PVal α) :
    transformMapProjection lf' (v.map f) = (transformMapProjection lf v).map (Grp.map f) := by
  unfold transformMapProjection
  rw [removeSpares_map]
  cases removeSpares v <;> try (simp; done)
  rename_i kvs
  simp only [map_dict]
  have hr := interpAllO_rel (mapProjectionFn_rel f) Gen.Config.map_projection__transform_map_projection.transformers
  revert hr
  cases List.mapM (fun kv => (mapProjectionFn (α := α) kv.2).map (fun g => (kv.1, g)))
      Gen.Config.map_projection__transform_map_projection.transformers <;>
    cases List.mapM (fun kv => (mapProjectionFn (α := β) kv.2).map (fun g => (kv.1, g)))
      Gen.Config.map_projection__transform_map_projection.transformers <;>
    simp [ORel]
  rename_i fs fs'
  intro hr
  rw [dissoc_kvm, filterMapProjection_map h]
  cases filterMapProjection lf (dissoc Gen.Config.map_projection__transform_map_projection.ignored kvs) with
  | none => simp
  | some filtered =>
    simp only [Option.map_some, Option.bind_some, applyToItemsOpt_map hr, Function.comp_apply]
    cases applyToItemsOpt fs filtered with
    | none => simp
    | some applied => simp [rename_kvm, ← asGroup_map]

/-! ### attitude -/

namespace Natural2

theorem mapM_list_map {A A' : Type} {f : α → β} {g : A → A'} {s : A → Option (PVal α)} {s' : A' → Option (PVal β)}
    {l : List A} (H : ∀ a ∈ l, s' (g a) = (s a).map (PVal.map f)) :
    ((l.map g).mapM s').map PVal.list = (((l.mapM s).map PVal.list)).map (PVal.map f) := by
  rw [mapM_option_map g (PVal.map f) s s' l H]
  cases List.mapM s l <;> simp

theorem bind_mapM_natural {A A' B B' C C' : Type} {g : A → A'} {h : B → B'} {j : C → C'}
    {s : A → Option B} {s' : A' → Option B'} {K : List B → Option C} {K' : List B' → Option C'} {l : List A}
    (H : ∀ a ∈ l, s' (g a) = (s a).map h) (HK : ∀ x, K' (x.map h) = (K x).map j) :
    ((l.map g).mapM s').bind K' = ((l.mapM s).bind K).map j := by
  rw [mapM_option_map g h s s' l H]
  cases List.mapM s l <;> simp [HK]

theorem transformTime_map {f : α → β} {lf : LeafFns2 α} {lf' : LeafFns2 β} (h : Compat2 f lf lf') (v : PVal α) :
    transformTime lf' (v.map f) = (transformTime lf v).map (PVal.map f) := by
  cases v <;> try (simp [transformTime]; done)
  rename_i kvs
  simp only [transformTime, map_dict, kvGet_map]
  rcases kvGet kvs "day_of_year" with _ | ds <;> try (simp; done)
  rcases kvGet kvs "millisecond_of_day" with _ | ms
  · cases ds <;> simp
  · cases ds <;> try (simp; done)
    cases ms <;> try (simp; done)
    rename_i ds ms
    simp only [Option.map_some, map_list, List.length_map]
    split
    · rfl
    · rw [List.zip_map]
      apply mapM_list_map
      intro dm _
      obtain ⟨d, m⟩ := dm
      cases d <;> cases m <;> simp [h.attitudeTime]

theorem transformAttSection_map {f : α → β} {lf : LeafFns2 α} {lf' : LeafFns2 β} (h : Compat2 f lf lf') (v : PVal α) :
    transformAttSection lf' (v.map f) = (transformAttSection lf v).map f := by
  cases v <;> try (simp [transformAttSection]; done)
  rename_i kvs
  simp only [transformAttSection, map_dict, List.map_map]
  congr 1
  apply List.map_congr_left
  intro kv _
  obtain ⟨k, w⟩ := kv
  simp only [Function.comp]
  split
  · simp [separateAttrs_map]
  · split
    · cases w <;> try (simp; done)
      rename_i xs
      simp only [map_list, List.map_map, Prod.mk.injEq, true_and, PVal.list.injEq]
      apply List.map_congr_left
      intro x _
      exact onLeaf_rel h.toBool x
    · rfl

theorem prependDim1_map (f : α → β) (dim : String) (v : PVal α) :
    prependDim1 dim (v.map f) = (prependDim1 dim v).map f := by
  cases v <;> simp [prependDim1]

theorem prependDim_map (f : α → β) (dim : String) (v : PVal α) :
    prependDim dim (v.map f) = (prependDim dim v).map f := by
  cases v <;> try (simp [prependDim, prependDim1]; done)
  rename_i kvs
  simp only [prependDim, map_dict, List.map_map]
  congr 1
  apply List.map_congr_left
  intro kv _
  obtain ⟨k, w⟩ := kv
  cases w <;> try (simp [prependDim1, Function.comp_def]; done)
  simp only [Function.comp_def, map_dict, List.map_map, prependDim1_map]

theorem prependDim_dict (dim : String) (kvs : KVs α) : ∃ d, prependDim dim (.dict kvs) = .dict d := ⟨_, rfl⟩

/-- the local `put` of `copyTime` -/
def putTime (t : PVal α) (kvs : KVs α) (sec : String) : Option (KVs α) :=
  match kvGet kvs sec with
  | some (.dict d) => some (kvSet kvs sec (.dict (kvSet d "time" t)))
  | none => some (kvSet kvs sec (.dict [("time", t)]))
  | _ => none

theorem putTime_map (f : α → β) (t : PVal α) (kvs : KVs α) (sec : String) :
    putTime (t.map f) (kvs.map (kvm f)) sec = (putTime t kvs sec).map (List.map (kvm f)) := by
  simp only [putTime, kvGet_map]
  rcases kvGet kvs sec with _ | d
  · simp only [Option.map_none, Option.map_some]
    rw [← kvSet_kvm]
    simp
  · cases d <;> try (simp; done)
    rename_i dd
    simp only [Option.map_some, map_dict]
    rw [← kvSet_kvm, map_dict, ← kvSet_kvm]

theorem copyTime_none {kvs : KVs α} (h : kvGet kvs "time" = none) : copyTime kvs = some (dissoc ["time"] kvs) := by
  simp only [copyTime, h]

theorem copyTime_some {kvs : KVs α} {t : PVal α} (h : kvGet kvs "time" = some t) :
    copyTime kvs = ((putTime t kvs "attitude").bind (fun k => putTime t k "rates")).map (dissoc ["time"]) := by
  simp only [copyTime, h]
  rfl

theorem copyTime_map (f : α → β) (kvs : KVs α) :
    copyTime (kvs.map (kvm f)) = (copyTime kvs).map (List.map (kvm f)) := by
  cases ht : kvGet kvs "time" with
  | none =>
    rw [copyTime_none ht, copyTime_none (by rw [kvGet_map, ht]; rfl), dissoc_kvm]
    rfl
  | some t =>
    rw [copyTime_some ht, copyTime_some (t := t.map f) (by rw [kvGet_map, ht]; rfl), putTime_map]
    cases putTime t kvs "attitude" with
    | none => simp
    | some k =>
      simp only [Option.map_some, Option.bind_some, putTime_map]
      cases putTime t k "rates" <;> simp [dissoc_kvm]

end Natural2

theorem transformAttitude_natural (f : α → β) (lf : LeafFns2 α) (lf' : LeafFns2 β) (h : Compat2 f lf lf')
    (v : PVal α) :
    transformAttitude lf' (v.map f) = (transformAttitude lf v).map (Grp.map f) := by
  cases v <;> try (simp [transformAttitude]; done)
  rename_i kvs
  simp only [transformAttitude, map_dict, kvGet_map]
  split
  · rfl
  · rcases kvGet kvs "data_points" with _ | dp <;> try (simp; done)
    rcases dp with a | s | i | xs | d | xs <;> try (simp; done)
    rcases xs with _ | ⟨x, rest⟩ <;> try (simp; done)
    rcases x with a | s | i | xs | p0 | ys <;> try (simp; done)
    simp only [Option.map_some, map_list, List.map_cons, map_dict]
    have hn := transformNested_map f (.list (.dict p0 :: rest))
    simp only [map_list, List.map_cons, map_dict] at hn
    rw [hn]
    cases transformNested (.list (.dict p0 :: rest)) <;> try (simp; done)
    rename_i cols
    simp only [map_dict, Option.bind_eq_bind]
    apply bind_mapM_natural (h := kvm f)
    · intro kv _
      obtain ⟨k, w⟩ := kv
      dsimp only
      split
      · simp [transformTime_map h, Option.map_map, Function.comp_def]
      · split
        · simp [transformAttSection_map h]
        · simp
    · intro applied
      rw [← map_dict, prependDim_map]
      obtain ⟨d, hd⟩ := prependDim_dict "points" applied
      rw [hd]
      simp only [map_dict, copyTime_map]
      cases copyTime d with
      | none => simp
      | some copied =>
        simp only [Option.map_some, Option.bind_some, Option.pure_def, Option.some.injEq]
        rw [← asGroup_map, map_dict]
        simp [Function.comp_def]

end Alos2

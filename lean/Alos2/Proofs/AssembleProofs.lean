/-
Tree assembly: no image group is dropped or swapped; roles do not depend on line order.
-/
import Alos2.Model.Assemble

namespace Alos2

/-- setting a key that is not present appends -/
theorem assocSet_of_not_mem {β : Type} (l : List (String × β)) (k : String) (v : β)
    (h : k ∉ l.map Prod.fst) : assocSet l k v = l ++ [(k, v)] := by
  unfold assocSet
  have : l.any (fun kv => decide (kv.1 = k)) = false := by
    rw [List.any_eq_false]
    intro kv hkv
    simp only [decide_eq_true_eq]
    intro hk
    exact h (List.mem_map.mpr ⟨kv, hkv, hk⟩)
  rw [this]
  simp

/-- folding `assocSet` over a list whose keys are fresh and pairwise distinct appends the list -/
theorem foldl_assocSet_of_nodup {β : Type} (l acc : List (String × β))
    (hd : ((acc ++ l).map Prod.fst).Nodup) :
    l.foldl (fun acc kv => assocSet acc kv.1 kv.2) acc = acc ++ l := by
  induction l generalizing acc with
  | nil => simp
  | cons kv l ih =>
    rw [List.foldl_cons]
    have hk : kv.1 ∉ acc.map Prod.fst := by
      intro hmem
      rw [List.map_append, List.nodup_append] at hd
      exact hd.2.2 _ hmem _ (by simp) rfl
    rw [assocSet_of_not_mem acc kv.1 kv.2 hk]
    have hd' : (((acc ++ [(kv.1, kv.2)]) ++ l).map Prod.fst).Nodup := by
      simpa [List.append_assoc] using hd
    rw [ih _ hd']
    simp [List.append_assoc]

/-- if the group names of the image files are pairwise distinct, `/imagery` has exactly one child per image, in
    summary order, each holding its own file -/
theorem imagery_children_exact (files : List String) (named : List (String × String))
    (h : files.mapM (fun f => (groupName f).map (fun g => (g, f))) = .ok named)
    (hd : (named.map Prod.fst).Nodup) : imageryChildren files = .ok named := by
  unfold imageryChildren
  rw [h]
  have := foldl_assocSet_of_nodup named [] (by simpa using hd)
  simp only [List.nil_append] at this
  show Except.ok _ = Except.ok named
  rw [this]

/-- … and if two images share a group name, one of them is silently replaced (why injectivity of the name on
    (polarisation, scan) matters) -/
theorem imagery_children_collision :
    imageryChildren ["IMG-HH-ALOS2290760600-191011-WWDR1.5RUA-F1", "IMG-HH-ALOS2290760600-191011-WWDR1.5RUA-B1"] =
      .ok [("HH_scan1", "IMG-HH-ALOS2290760600-191011-WWDR1.5RUA-B1")] := by
  decide +kernel

/-- with pairwise distinct keys, an entry is determined by its key -/
theorem eq_of_fst_eq_of_nodup {β : Type} (l : List (String × β)) (hd : (l.map Prod.fst).Nodup)
    (a b : String × β) (ha : a ∈ l) (hb : b ∈ l) (hk : a.1 = b.1) : a = b := by
  induction l with
  | nil => cases ha
  | cons x l ih =>
    rw [List.map_cons, List.nodup_cons] at hd
    rcases List.mem_cons.mp ha with rfl | ha'
    · rcases List.mem_cons.mp hb with rfl | hb'
      · rfl
      · exact absurd (hk ▸ List.mem_map.mpr ⟨b, hb', rfl⟩) hd.1
    · rcases List.mem_cons.mp hb with rfl | hb'
      · exact absurd (hk ▸ List.mem_map.mpr ⟨a, ha', rfl⟩) hd.1
      · exact ih hd.2 ha' hb'

/-- sorting by key a filtered section with distinct keys does not depend on the order of the entries -/
theorem mergeSort_filter_perm (p : String × String → Bool) (e₁ e₂ : Section) (hp : e₁.Perm e₂)
    (hd : (e₁.map Prod.fst).Nodup) :
    (e₁.filter p).mergeSort (fun a b => a.1 ≤ b.1) = (e₂.filter p).mergeSort (fun a b => a.1 ≤ b.1) := by
  have trans : ∀ (a b c : String × String), decide (a.1 ≤ b.1) = true → decide (b.1 ≤ c.1) = true →
      decide (a.1 ≤ c.1) = true := by
    intro a b c h₁ h₂
    simp only [decide_eq_true_eq] at *
    exact String.le_trans h₁ h₂
  have total : ∀ (a b : String × String), (decide (a.1 ≤ b.1) || decide (b.1 ≤ a.1)) = true := by
    intro a b
    simp only [Bool.or_eq_true, decide_eq_true_eq]
    exact String.le_total a.1 b.1
  apply List.Perm.eq_of_pairwise (le := fun (a b : String × String) => decide (a.1 ≤ b.1) = true)
  · intro a b ha hb h₁ h₂
    simp only [decide_eq_true_eq] at h₁ h₂
    have ha' : a ∈ e₁ := (List.mem_filter.mp (List.mem_mergeSort.mp ha)).1
    have hb' : b ∈ e₁ := hp.symm.subset (List.mem_filter.mp (List.mem_mergeSort.mp hb)).1
    exact eq_of_fst_eq_of_nodup e₁ hd a b ha' hb' (String.le_antisymm h₁ h₂)
  · exact List.pairwise_mergeSort trans total _
  · exact List.pairwise_mergeSort trans total _
  · exact (List.mergeSort_perm _ _).trans ((hp.filter p).trans (List.mergeSort_perm _ _).symm)

/-- file roles depend only on the set of numbered entries, not on their order in the summary -/
theorem fileRoles_perm (e₁ e₂ : Section) (hp : e₁.Perm e₂) (hd : (e₁.map Prod.fst).Nodup) : fileRoles e₁ = fileRoles e₂ := by
  have key := mergeSort_filter_perm (fun kv => containsSub kv.1 "ProductFileName" && !kv.1.startsWith "Cnt") e₁ e₂ hp hd
  unfold fileRoles
  rw [key]

end Alos2

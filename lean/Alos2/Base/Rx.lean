/-
Regular expressions as CPython's `re` compiles them (`re._parser` AST, printed by the translator) and a
backtracking matcher with CPython's priority (greedy / lazy repeats, ordered alternation, capture groups).
-/
namespace Alos2

inductive Rx where
  | lit (c : Nat)                                        -- LITERAL
  | cls (items : List (Nat × Nat)) (neg : Bool)          -- IN: ranges (a literal is the range (c, c))
  | any                                                  -- ANY: every char except newline
  | seq (rs : List Rx)
  | alt (rs : List Rx)                                   -- BRANCH (ordered)
  | rep (r : Rx) (min : Nat) (max : Option Nat) (greedy : Bool)   -- MAX_REPEAT / MIN_REPEAT
  | group (idx : Nat) (r : Rx)                           -- SUBPATTERN (capturing)
  deriving Repr, Inhabited

abbrev Groups := List (Nat × List Char)

def setGroup (gs : Groups) (i : Nat) (txt : List Char) : Groups :=
  (i, txt) :: gs.filter (fun g => g.1 ≠ i)

def inClass (items : List (Nat × Nat)) (neg : Bool) (c : Char) : Bool :=
  (items.any (fun r => r.1 ≤ c.toNat && c.toNat ≤ r.2)) != neg

mutual
/-- continuation-passing backtracking match of `r` on `s`; `k` receives the rest of the input and the groups.
    Every call spends one unit of `fuel` (structural recursion on it); `Rx.budget` is always enough. -/
def Rx.m : Nat → Rx → List Char → Groups → (List Char → Groups → Option Groups) → Option Groups
  | 0, _, _, _, _ => none
  | _ + 1, .lit c, s, gs, k => match s with
    | x :: rest => if x.toNat = c then k rest gs else none
    | [] => none
  | _ + 1, .cls items neg, s, gs, k => match s with
    | x :: rest => if inClass items neg x then k rest gs else none
    | [] => none
  | _ + 1, .any, s, gs, k => match s with
    | x :: rest => if x ≠ '\n' then k rest gs else none
    | [] => none
  | f + 1, .seq rs, s, gs, k => Rx.mSeq f rs s gs k
  | f + 1, .alt rs, s, gs, k => Rx.mAlt f rs s gs k
  | f + 1, .group i r, s, gs, k =>
    Rx.m f r s gs (fun rest gs' => k rest (setGroup gs' i (s.take (s.length - rest.length))))
  | f + 1, .rep r mn mx greedy, s, gs, k => Rx.mRep f r mn mx greedy 0 s gs k
def Rx.mSeq : Nat → List Rx → List Char → Groups → (List Char → Groups → Option Groups) → Option Groups
  | 0, _, _, _, _ => none
  | _ + 1, [], s, gs, k => k s gs
  | f + 1, r :: rs, s, gs, k => Rx.m f r s gs (fun rest gs' => Rx.mSeq f rs rest gs' k)
def Rx.mAlt : Nat → List Rx → List Char → Groups → (List Char → Groups → Option Groups) → Option Groups
  | 0, _, _, _, _ => none
  | _ + 1, [], _, _, _ => none
  | f + 1, r :: rs, s, gs, k => match Rx.m f r s gs k with
    | some g => some g
    | none => Rx.mAlt f rs s gs k
/-- `count` iterations done so far -/
def Rx.mRep : Nat → Rx → Nat → Option Nat → Bool → Nat → List Char → Groups → (List Char → Groups → Option Groups) → Option Groups
  | 0, _, _, _, _, _, _, _, _ => none
  | f + 1, r, mn, mx, greedy, count, s, gs, k =>
    let canMore : Bool := match mx with
      | some m => decide (count < m)
      | none => true
    let more : Option Groups :=
      if canMore then
        Rx.m f r s gs (fun rest gs' =>
          if rest.length < s.length then Rx.mRep f r mn mx greedy (count + 1) rest gs' k else none)
      else none
    if count < mn then more
    else if greedy then
      match more with
      | some g => some g
      | none => k s gs
    else
      match k s gs with
      | some g => some g
      | none => more
end

mutual
def Rx.size : Rx → Nat
  | .seq rs => 1 + Rx.sizeList rs
  | .alt rs => 1 + Rx.sizeList rs
  | .rep r _ _ _ => 1 + Rx.size r
  | .group _ r => 1 + Rx.size r
  | _ => 1
def Rx.sizeList : List Rx → Nat
  | [] => 1
  | r :: rs => Rx.size r + Rx.sizeList rs
end

/-- fuel that always suffices: each input position can be visited by each sub-expression -/
def Rx.budget (r : Rx) (s : List Char) : Nat := (r.size + 2) * (s.length + 2) * 2

/-- `pattern.fullmatch(s)`: groups by index, or none -/
def Rx.fullmatch (r : Rx) (s : List Char) : Option Groups :=
  Rx.m (r.budget s) r s [] (fun rest gs => if rest.isEmpty then some gs else none)

/-- `pattern.match(s)` (anchored at the start only) -/
def Rx.matchPrefix (r : Rx) (s : List Char) : Option Groups :=
  Rx.m (r.budget s) r s [] (fun _ gs => some gs)

def groupText (gs : Groups) (i : Nat) : Option (List Char) := (gs.find? (fun g => g.1 = i)).map Prod.snd

end Alos2

/-
Base definitions shared by every model: byte strings, Python-style slicing, error classes.
No imports: model files stay core-only so the driver runs with plain `lean --run`.
-/
deriving instance DecidableEq for Except

namespace Alos2

abbrev Bytes := List UInt8

/-- Python `l[a:b]` for non-negative `a`, `b` (clamping at the end of the list included). -/
def slice {α : Type} (l : List α) (a b : Nat) : List α := (l.drop a).take (b - a)

/-- big-endian unsigned integer -/
def beNat (bs : Bytes) : Nat := bs.foldl (fun acc b => acc * 256 + b.toNat) 0

/-- The exception classes the properties distinguish. -/
inductive Err where
  | value      -- ValueError (incl. dateutil ParserError, ExceptionGroup of ValueErrors is `group`)
  | index      -- IndexError
  | stream     -- construct.StreamError
  | strerr     -- construct.StringError (non-ASCII byte)
  | key        -- KeyError
  | attr       -- AttributeError
  | caching    -- CachingError (a FileNotFoundError)
  | json       -- json.JSONDecodeError
  | fnf        -- FileNotFoundError
  | os         -- other OSError
  | group      -- ExceptionGroup
  | other
  deriving DecidableEq, Repr, Inhabited

def Err.name : Err → String
  | .value => "ValueError" | .index => "IndexError" | .stream => "StreamError"
  | .strerr => "StringError" | .key => "KeyError" | .attr => "AttributeError"
  | .caching => "CachingError" | .json => "JSONDecodeError" | .fnf => "FileNotFoundError"
  | .os => "OSError" | .group => "ExceptionGroup" | .other => "Other"

/-- split a list into pieces of `k` (Python `partition_all`); `fuel` bounds the recursion -/
def chunksOfAux {α : Type} (k : Nat) : Nat → List α → List (List α)
  | 0, _ => []
  | _, [] => []
  | fuel + 1, l => l.take k :: chunksOfAux k fuel (l.drop k)

def chunksOf {α : Type} (k : Nat) (l : List α) : List (List α) := chunksOfAux k l.length l

end Alos2

/-
C18 — Fail-stop: truncated or missing files raise, never yield a wrong tree.

* `truncated_image` — whatever the bytes are: if an image file is shorter than the 720-byte descriptor plus
  the `n` records of `L` bytes it declares, the metadata pass either raises or returns strictly fewer than
  `n` line records.  (In the second case the row coordinates are shorter than the declared image shape and
  the `xarray.Dataset` constructor rejects the group — third-party contract, exercised end-to-end.)
* `complete_image` — conversely a complete well-formed file yields exactly `n` records (no false alarm).
* `truncated_record`/`complete_record` (layout level, see `Proofs/Layout.lean`): a record layout read from
  fewer bytes than it consumes raises `StreamError`.
-/
import Alos2.Proofs.ImageIO
import Alos2.Proofs.ProductOpen
import Alos2.Proofs.FailStop

namespace Alos2.C18

theorem truncated_image (t : RecordTypes) (file : Bytes) (n L rpc : Nat) (hL : 0 < L)
    (hhdr : headerSize ≤ file.length) (hcut : file.length < headerSize + n * L)
    (rs : List (Nat × Nat × Nat)) (h : (readMetadata t file n L rpc).1 = .ok rs) : rs.length < n := by
  have hc := readMetadata_count t file n L rpc rs h
  have : rs.length * L < n * L := by omega
  exact Nat.lt_of_mul_lt_mul_right this

theorem complete_image (t : RecordTypes) (file : Bytes) (n L P code rpc : Nat)
    (hw : WellFormedImage t file n L P code) (hrpc : 0 < rpc) :
    ∃ rs, (readMetadata t file n L rpc).1 = .ok rs ∧ rs.length = n := by
  refine ⟨_, by rw [readMetadata_wf t file n L P code rpc hw hrpc], by simp⟩

/-- non-vacuity: a 720-byte file declaring one 200-byte record is "truncated" in the sense of the theorem -/
example : headerSize ≤ 720 ∧ 720 < headerSize + 1 * 200 := by decide

/-- a product without `summary.txt` is reported as an OSError (whole-product model; the other missing files map to
    FileNotFoundError: error classes compared on damaged products by the whole-product correspondence) -/
theorem missing_summary (fs : Files) (rpc : Nat) (h : fs.get "summary.txt" = none) : openProduct fs rpc = .error .os :=
  openProduct_missing_summary fs rpc h

/-- fail-stop on the LAYOUT-based reader: the records a successful metadata pass returns all lie inside the file, never more
    than the header declares, and fewer than declared only when the file ends exactly after the last one returned -/
theorem records_within_file (file : Bytes) (rpc : Nat) (header : Val) (recs : List Val)
    (h : readImageRecords file rpc = .ok (header, recs))
    (n L : Nat) (hL : 0 < L)
    (hdrn : intAt header ["number_of_sar_data_records"] = .ok (n : Int))
    (hdrL : intAt header ["sar_data_record_length"] = .ok (L : Int))
    (t : Nat)
    (hrl : ∀ r ∈ recs, intAt r ["preamble", "record_length"] = .ok (L : Int))
    (hty : ∀ r ∈ recs, intAt r ["preamble", "record_type"] = .ok (t : Int)) :
    recs.length ≤ n ∧
    (0 < recs.length → 720 + recs.length * L ≤ file.length) ∧
    (recs.length < n → file.length = 720 + recs.length * L) :=
  readImageRecords_within_file file rpc header recs h n L hL hdrn hdrL t hrl hty

/-- … so an image file cut short can never yield its declared number of line records (whatever `records_per_chunk`): the
    image group then has fewer per-line entries than the declared shape, which is what xarray's dimension check rejects -/
theorem cut_file_never_complete (file : Bytes) (rpc : Nat) (header : Val) (recs : List Val)
    (h : readImageRecords file rpc = .ok (header, recs))
    (n L : Nat) (hL : 0 < L) (hn : 0 < n)
    (hdrn : intAt header ["number_of_sar_data_records"] = .ok (n : Int))
    (hdrL : intAt header ["sar_data_record_length"] = .ok (L : Int))
    (t : Nat)
    (hrl : ∀ r ∈ recs, intAt r ["preamble", "record_length"] = .ok (L : Int))
    (hty : ∀ r ∈ recs, intAt r ["preamble", "record_type"] = .ok (t : Int))
    (hshort : file.length < 720 + n * L) : recs.length < n :=
  truncated_never_complete file rpc header recs h n L hL hn hdrn hdrL t hrl hty hshort

end Alos2.C18

/-
C18 — Fail-stop: truncated or missing files raise, never yield a wrong tree.

* `truncated_image` — whatever the bytes are: if an image file is shorter than the 720-byte descriptor plus
  the `n` records of `L` bytes it declares, the metadata pass either raises or returns strictly fewer than
  `n` line records.  (In the second case the row coordinates are shorter than the declared image shape and
  the `xarray.Dataset` constructor rejects the group — third-party contract, exercised end-to-end.)
* `complete_image` — conversely a complete well-formed file yields exactly `n` records (no false alarm).
* `missing_files` — whole-product model: a failing summary step is the product's error, then the volume directory, the leader and
  the image files are consulted in this order and the first missing one is a FileNotFoundError; `trailer_never_read` — the
  result does not depend on the file with the trailer role at all.
* `truncated_record`/`complete_record` (layout level, see `Proofs/Layout.lean`): a record layout read from
  fewer bytes than it consumes raises `StreamError`.
-/
import Alos2.Proofs.ImageIO
import Alos2.Proofs.ProductOpen
import Alos2.Proofs.FailStop
import Alos2.Proofs.MissingFiles
import Alos2.Proofs.ProductCached

namespace Alos2.C18

theorem truncated_image (t : RecordTypes) (file : Bytes) (n L rpc : Nat) (hL : 0 < L)
    (hhdr : headerSize ≤ file.length) (hcut : file.length < headerSize + n * L)
    (rs : List (Nat × Nat × Nat)) (h : (readMetadata t file n L rpc).1 = .ok rs) : rs.length < n := by
  have hc := readMetadata_count t file n L rpc rs h
  have : rs.length * L < n * L := by omega
  exact Nat.lt_of_mul_lt_mul_right this

theorem complete_image (t : RecordTypes) (file : Bytes) (n L P code rpc : Nat)
    (hw : WellFormedImage t file n L P code) (hrpc : 0 < rpc) :
    ∃ rs, (readMetadata t file n L rpc).1 = .ok rs ∧ rs.length = n := by
  refine ⟨_, by rw [readMetadata_wf t file n L P code rpc hw hrpc], by simp⟩

/-- non-vacuity: a 720-byte file declaring one 200-byte record is "truncated" in the sense of the theorem -/
example : headerSize ≤ 720 ∧ 720 < headerSize + 1 * 200 := by decide

/-- a product without `summary.txt` is reported as an OSError (whole-product model; the other missing files map to
    FileNotFoundError: error classes compared on damaged products by the whole-product correspondence) -/
theorem missing_summary (fs : Files) (rpc : Nat) (h : fs.get "summary.txt" = none) : openProduct fs rpc = .error .os :=
  openProduct_missing_summary fs rpc h

/-- fail-stop on the LAYOUT-based reader: the records a successful metadata pass returns all lie inside the file, never more
    than the header declares, and fewer than declared only when the file ends exactly after the last one returned -/
theorem records_within_file (file : Bytes) (rpc : Nat) (header : Val) (recs : List Val)
    (h : readImageRecords file rpc = .ok (header, recs))
    (n L : Nat) (hL : 0 < L)
    (hdrn : intAt header ["number_of_sar_data_records"] = .ok (n : Int))
    (hdrL : intAt header ["sar_data_record_length"] = .ok (L : Int))
    (t : Nat)
    (hrl : ∀ r ∈ recs, intAt r ["preamble", "record_length"] = .ok (L : Int))
    (hty : ∀ r ∈ recs, intAt r ["preamble", "record_type"] = .ok (t : Int)) :
    recs.length ≤ n ∧
    (0 < recs.length → 720 + recs.length * L ≤ file.length) ∧
    (recs.length < n → file.length = 720 + recs.length * L) :=
  readImageRecords_within_file file rpc header recs h n L hL hdrn hdrL t hrl hty

/-- … so an image file cut short can never yield its declared number of line records (whatever `records_per_chunk`): the
    image group then has fewer per-line entries than the declared shape, which is what xarray's dimension check rejects -/
theorem cut_file_never_complete (file : Bytes) (rpc : Nat) (header : Val) (recs : List Val)
    (h : readImageRecords file rpc = .ok (header, recs))
    (n L : Nat) (hL : 0 < L) (hn : 0 < n)
    (hdrn : intAt header ["number_of_sar_data_records"] = .ok (n : Int))
    (hdrL : intAt header ["sar_data_record_length"] = .ok (L : Int))
    (t : Nat)
    (hrl : ∀ r ∈ recs, intAt r ["preamble", "record_length"] = .ok (L : Int))
    (hty : ∀ r ∈ recs, intAt r ["preamble", "record_type"] = .ok (t : Int))
    (hshort : file.length < 720 + n * L) : recs.length < n :=
  truncated_never_complete file rpc header recs h n L hL hn hdrn hdrL t hrl hty hshort

/-- EVERY MISSING FILE THE READER USES (whole-product model; `summaryRoles` = the summary steps of `io.open`): a failing summary
    step is the product's error; after it the volume directory, the leader and the image files are consulted in this order, and
    the first one that is missing turns into FileNotFoundError -/
theorem missing_files (fs : Files) (rpc : Nat) :
    (∀ e, summaryRoles fs = .error e → openProduct fs rpc = .error e) ∧
    (∀ sm vol led trl imgs, summaryRoles fs = .ok (sm, (vol, led, imgs, trl)) →
      (fs.get vol = none → openProduct fs rpc = .error .fnf) ∧
      (∀ vb vrec va, fs.get vol = some vb → parseRecord Gen.volumeDirectoryRecord vb = .ok vrec →
        transformVolumeRecord realLeafFns vrec.toPVal = some va →
        (fs.get led = none → openProduct fs rpc = .error .fnf) ∧
        (∀ lb lrec md, fs.get led = some lb → parseRecord Gen.sarLeaderRecord lb = .ok lrec →
          transformLeaderMetadata realLeafFns3 lrec.toPVal = some md →
          ∀ before name after, imgs = before ++ name :: after →
            (∀ n ∈ before, ∃ b g, fs.get n = some b ∧ openImageFile b n rpc = .ok g) →
            fs.get name = none → openProduct fs rpc = .error .fnf))) :=
  ⟨fun e h => openProduct_summary_error fs rpc e h,
   fun sm vol led trl imgs h =>
    ⟨fun hm => openProduct_missing_volume fs rpc sm vol led trl imgs h hm,
     fun vb vrec va hv hvp hva =>
      ⟨fun hm => openProduct_missing_leader fs rpc sm vol led trl imgs h vb hv vrec hvp va hva hm,
       fun lb lrec md hl hlp hmd before name after himgs hb hm =>
        openProduct_missing_image fs rpc sm vol led trl imgs h vb hv vrec hvp va hva lb hl lrec hlp md hmd before name after
          himgs hb hm⟩⟩⟩

/-- "the trailer is never read": two product directories that agree on every file except the one the summary gives the trailer
    role open to the same result — whether that file is present, absent, truncated or garbage -/
theorem trailer_never_read (fs fs' : Files) (rpc : Nat) (sm : List (String × SGroup)) (vol led trl : String) (imgs : List String)
    (h : summaryRoles fs = .ok (sm, (vol, led, imgs, trl)))
    (hsame : ∀ n, n ≠ trl → fs.get n = fs'.get n)
    (hdistinct : trl ≠ "summary.txt" ∧ trl ≠ vol ∧ trl ≠ led ∧ trl ∉ imgs) :
    openProduct fs' rpc = openProduct fs rpc :=
  openProduct_trailer_never_read fs fs' rpc sm vol led trl imgs h hsame hdistinct

/-- with index files in play (`Model/ProductCached.lean`): a product whose summary / volume directory / leader step fails, fails
    with the SAME error whatever index files exist and whatever the cache options — no index file can make such a product open —
    and no index file is touched -/
theorem head_error_with_caches (fr : FloatRepr) (loads : List Char → Except Err PyVal) (root : String) (fs : Files)
    (e : Err) (hh : openProductHead fs = .error e) (c : Caches) (use create : Bool) (rpc : Nat) :
    openProductCached fr loads root fs c use create rpc = (.error e, c) :=
  openProductCached_head_error fr loads root fs e hh c use create rpc

end Alos2.C18

/-
C20 — Blank fields mean 'missing' and padding never influences the result.

* `blank_int` / `blank_float` / `blank_text` — a blank field (Python whitespace, then NUL padding) reads `-1` / `nan` / `""`:
  never an exception, never a fabricated value.
* `no_derived_attribute` — in the documented trees every leaf is a field path under the identity or one of the two named leaf
  functions (`bool`, `normalize_datetime`); the only value tests (blank ⇒ attribute dropped) are the five optional header
  attributes (C03 `header_attrs`) — so a blank nullable field surfaces as its missing value and nothing is derived from it.
* `padding_inert` — two dataset-summary records that parse and agree on the bytes of every LIVE field give the same group,
  whatever their spare / blank areas contain (`leaf_window` locality + provenance); `padding_inert_leader_records` — the same
  for the radiometric, facility-5, platform-position and map-projection records.  `live_fields_only`: every leaf of the
  documented static trees names a live, context-free field of its layout — the outputs cannot depend on anything else.
* `field_locality` — for each of the 13 fixed-size record layouts, the value at a field depends only on that field's bytes.

`padding_inert_counted_records` (attitude: only the count and the n points; data quality: the fixed fields and the first n
entries of the two tables — unused slots, trailing blanks, preamble are inert) and `padding_inert_volume_directory` (the
file-pointer records are inert).  `padding_inert_line_records` — ANY number of line records (either kind) that pairwise agree
on the bytes of their live fields give the same per-line group and the same byte ranges (the µs stamp of the signal-data record
is read relative to the ms stamp's date: both live); `padding_inert_image_file` — two image files that open, hold the same
number of line records and agree on the live fields of the descriptor and of every line record give the same group name, image
group and lazy-array description, for every `records_per_chunk` (the same-number hypothesis is necessary: a file cut after a whole
record still opens — counterexample in `Proofs/PaddingLines.lean`).  `bool(-1) = True` for blank flag columns is exempt by the
property's own wording.
-/
import Alos2.Proofs.Typing
import Alos2.Proofs.Typing2
import Alos2.Proofs.Padding2
import Alos2.Proofs.PaddingLines
import Alos2.Props.C03

namespace Alos2.C20

theorem blank_int (raw : Bytes) (h : IsBlank raw) : parseAInt raw = .ok (.int (-1)) := blank_aint raw h
theorem blank_float (raw : Bytes) (h : IsBlank raw) : parseAFloat raw = .ok "nan" := blank_afloat raw h
theorem blank_text (raw : Bytes) (h : IsBlank raw) :
    (decodeAscii raw).map (fun s => String.ofList (pyStrip s)) = .ok "" := blank_pstr raw h

theorem padding_inert (ctx ctx' : Ctx) (bs bs' : Bytes) (pos : Nat) (v v' : Val) (e e' : Nat)
    (h : parse Gen.datasetSummaryRecord ctx bs pos = .ok (v, e)) (h' : parse Gen.datasetSummaryRecord ctx' bs' pos = .ok (v', e'))
    (hlive : ∀ tbl endp, Con.leafTable Gen.datasetSummaryRecord [] pos = some (tbl, endp) →
      ∀ ent ∈ tbl, livePath ent.1 = true → slice bs ent.2.1 (ent.2.1 + ent.2.2.1) = slice bs' ent.2.1 (ent.2.1 + ent.2.2.1)) :
    transformDatasetSummary realLeafFns v.toPVal = transformDatasetSummary realLeafFns v'.toPVal :=
  dataset_summary_padding_inert ctx ctx' bs bs' pos v v' e e' h h' hlive

/-- the same for the radiometric, facility-5 (transformations), platform-position and map-projection records (the
    map-projection tree depends on the designator, which is a live field) -/
theorem padding_inert_leader_records (ctx ctx' : Ctx) (bs bs' : Bytes) (pos : Nat) (v v' : Val) (e e' : Nat) :
    (parse Gen.radiometricDataRecord ctx bs pos = .ok (v, e) → parse Gen.radiometricDataRecord ctx' bs' pos = .ok (v', e') →
      (∀ tbl endp, Con.leafTable Gen.radiometricDataRecord [] pos = some (tbl, endp) →
        ∀ ent ∈ tbl, livePath ent.1 = true → slice bs ent.2.1 (ent.2.1 + ent.2.2.1) = slice bs' ent.2.1 (ent.2.1 + ent.2.2.1)) →
      transformRadiometricData v.toPVal = transformRadiometricData v'.toPVal) ∧
    (parse Gen.facilityRelatedData5Record ctx bs pos = .ok (v, e) → parse Gen.facilityRelatedData5Record ctx' bs' pos = .ok (v', e') →
      (∀ tbl endp, Con.leafTable Gen.facilityRelatedData5Record [] pos = some (tbl, endp) →
        ∀ ent ∈ tbl, livePath ent.1 = true → slice bs ent.2.1 (ent.2.1 + ent.2.2.1) = slice bs' ent.2.1 (ent.2.1 + ent.2.2.1)) →
      transformRecord5 realLeafFns v.toPVal = transformRecord5 realLeafFns v'.toPVal) ∧
    (parse Gen.platformPositionRecord ctx bs pos = .ok (v, e) → parse Gen.platformPositionRecord ctx' bs' pos = .ok (v', e') →
      (∀ tbl endp, Con.leafTable Gen.platformPositionRecord [] pos = some (tbl, endp) →
        ∀ ent ∈ tbl, livePath ent.1 = true → slice bs ent.2.1 (ent.2.1 + ent.2.2.1) = slice bs' ent.2.1 (ent.2.1 + ent.2.2.1)) →
      transformPlatformPosition realLeafFns2 v.toPVal = transformPlatformPosition realLeafFns2 v'.toPVal) ∧
    (parse Gen.mapProjectionRecord ctx bs pos = .ok (v, e) → parse Gen.mapProjectionRecord ctx' bs' pos = .ok (v', e') →
      (∀ tbl endp, Con.leafTable Gen.mapProjectionRecord [] pos = some (tbl, endp) →
        ∀ ent ∈ tbl, livePath ent.1 = true → slice bs ent.2.1 (ent.2.1 + ent.2.2.1) = slice bs' ent.2.1 (ent.2.1 + ent.2.2.1)) →
      transformMapProjection realLeafFns2 v.toPVal = transformMapProjection realLeafFns2 v'.toPVal) :=
  ⟨fun h h' hl => radiometric_padding_inert ctx ctx' bs bs' pos v v' e e' h h' hl,
   fun h h' hl => record5_padding_inert ctx ctx' bs bs' pos v v' e e' h h' hl,
   fun h h' hl => platform_position_padding_inert ctx ctx' bs bs' pos v v' e e' h h' hl,
   fun h h' hl => map_projection_padding_inert ctx ctx' bs bs' pos v v' e e' h h' hl⟩

/-- records whose layout depends on a count declared in the file: only the count field and the entries actually present
    matter — the trailing blanks (of whatever declared length), the unused table slots and the preamble do not -/
theorem padding_inert_counted_records (ctx ctx' : Ctx) (bs bs' : Bytes) (pos : Nat) (v v' : Val) (e e' : Nat) (n : Nat) :
    (parse Gen.attitudeRecord ctx bs pos = .ok (v, e) → parse Gen.attitudeRecord ctx' bs' pos = .ok (v', e') →
      v.getPath ["number_of_points"] = some (.leaf (.int n)) →
      slice bs (pos + 12) (pos + 16 + 120 * n) = slice bs' (pos + 12) (pos + 16 + 120 * n) →
      transformAttitude realLeafFns2 v.toPVal = transformAttitude realLeafFns2 v'.toPVal) ∧
    (parse Gen.dataQualitySummaryRecord ctx bs pos = .ok (v, e) → parse Gen.dataQualitySummaryRecord ctx' bs' pos = .ok (v', e') →
      v.getPath ["number_of_channels"] = some (.leaf (.int n)) →
      slice bs (pos + 12) (pos + 222 + 32 * n) = slice bs' (pos + 12) (pos + 222 + 32 * n) →
      slice bs (pos + 734) (pos + 830 + 32 * n) = slice bs' (pos + 734) (pos + 830 + 32 * n) →
      transformDataQualitySummary v.toPVal = transformDataQualitySummary v'.toPVal) :=
  ⟨fun h h' hn hw => attitude_padding_inert ctx ctx' bs bs' pos v v' e e' n h h' hn hw,
   fun h h' hn hw1 hw2 => data_quality_padding_inert ctx ctx' bs bs' pos v v' e e' n h h' hn hw1 hw2⟩

/-- volume directory: the root attributes depend only on the volume descriptor and the text record; the k file-pointer
    records in between are inert -/
theorem padding_inert_volume_directory (ctx ctx' : Ctx) (bs bs' : Bytes) (pos : Nat) (v v' : Val) (e e' : Nat) (k : Nat)
    (h : parse Gen.volumeDirectoryRecord ctx bs pos = .ok (v, e)) (h' : parse Gen.volumeDirectoryRecord ctx' bs' pos = .ok (v', e'))
    (hk : v.getPath ["volume_descriptor", "number_of_file_pointer_records"] = some (.leaf (.int k)))
    (hw1 : slice bs pos (pos + 360) = slice bs' pos (pos + 360))
    (hw2 : slice bs (pos + 360 * (k + 1)) (pos + 360 * (k + 2)) = slice bs' (pos + 360 * (k + 1)) (pos + 360 * (k + 2))) :
    transformVolumeRecord realLeafFns v.toPVal = transformVolumeRecord realLeafFns v'.toPVal :=
  volume_directory_padding_inert ctx ctx' bs bs' pos v v' e e' k h h' hk hw1 hw2

/-- line records, any number of them: twin lists (each pair parsed at the same position from byte strings that agree on
    every live field, rebased by the same offset) give the same per-line group and the same pixel byte ranges -/
theorem padding_inert_line_records (c : Con) (hc : c = Gen.processedDataRecord ∨ c = Gen.signalDataRecord)
    (recs recs' : List Val) (hn : 0 < recs.length) (h : ImgOpen.All2 (PaddingTwin c) recs recs') :
    (transformLineMetadata (Val.toPVal.toPVals recs)).sortKeys = (transformLineMetadata (Val.toPVal.toPVals recs')).sortKeys ∧
    recs.mapM (fun r => do
      let a ← intAt r ["data", "start"]
      let b ← intAt r ["data", "stop"]
      pure (a, b)) =
    recs'.mapM (fun r => do
      let a ← intAt r ["data", "start"]
      let b ← intAt r ["data", "stop"]
      pure (a, b)) := by
  refine ⟨?_, byte_ranges_padding_inert c hc recs recs' h⟩
  rcases hc with rfl | rfl
  · exact line_records_padding_inert_15 recs recs' hn h
  · exact line_records_padding_inert_11 recs recs' hn h

/-- a whole image file through the reader (`open_image` without caches, any `records_per_chunk`) -/
theorem padding_inert_image_file (file file' : Bytes) (name : String) (rpc : Nat)
    (n1 n2 : String) (g1 g2 : ImageGroup)
    (h1 : openImageFile file name rpc = .ok (n1, g1)) (h2 : openImageFile file' name rpc = .ok (n2, g2))
    (hd1 hd2 : Val) (recs1 recs2 : List Val)
    (hr1 : readImageRecords file rpc = .ok (hd1, recs1)) (hr2 : readImageRecords file' rpc = .ok (hd2, recs2))
    (hn : 0 < recs1.length) (hlen : recs2.length = recs1.length)
    (hhdr : LiveAgree Gen.imageFileDescriptor 0 (file.take 720) (file'.take 720))
    (L : Nat) (hL : 0 < L) (hdrL : intAt hd1 ["sar_data_record_length"] = .ok (L : Int))
    (t : Nat) (ht : t = 10 ∨ t = 11)
    (hrl1 : ∀ r ∈ recs1, intAt r ["preamble", "record_length"] = .ok (L : Int))
    (hty1 : ∀ r ∈ recs1, intAt r ["preamble", "record_type"] = .ok (t : Int))
    (hrl2 : ∀ r ∈ recs2, intAt r ["preamble", "record_length"] = .ok (L : Int))
    (hty2 : ∀ r ∈ recs2, intAt r ["preamble", "record_type"] = .ok (t : Int))
    (hrec : ∀ i, i < recs1.length →
      LiveAgree (if t = 10 then Gen.signalDataRecord else Gen.processedDataRecord) (720 + i * L) file file') :
    n1 = n2 ∧ g1.group.sortKeys = g2.group.sortKeys ∧ g1.array = g2.array :=
  openImageFile_padding_inert file file' name rpc n1 n2 g1 g2 h1 h2 hd1 hd2 recs1 recs2 hr1 hr2 hn hlen hhdr L hL hdrL t ht
    hrl1 hty1 hrl2 hty2 hrec

/-- why `padding_inert_image_file` needs "the same number of line records": the two-record witness image of C03 and its prefix
    cut after the first record both open at `records_per_chunk = 2` (a short read returns what is left), agree on the
    descriptor and on the first record byte for byte — and yield one resp. two byte ranges (kernel-evaluated) -/
example :
    ((openImageFile (C03.witnessImage.take 914) "IMG-HH-ALOS2290760600-191011-WWDR1.5RUA" 2).toOption.map (fun r => r.2.array.byteRanges),
     (openImageFile C03.witnessImage "IMG-HH-ALOS2290760600-191011-WWDR1.5RUA" 2).toOption.map (fun r => r.2.array.byteRanges)) =
    (some [(912, 914)], some [(912, 914), (1106, 1108)]) := by decide +kernel

theorem live_fields_only2 :
    pathsCovered (Spec.platformPosition.leaves.flatMap Sym.paths) Gen.platformPositionRecord = true ∧
    pathsCovered (Spec.mapProjectionUTM.leaves.flatMap Sym.paths) Gen.mapProjectionRecord = true ∧
    pathsCovered (Spec.mapProjectionUPS.leaves.flatMap Sym.paths) Gen.mapProjectionRecord = true ∧
    pathsCovered (Spec.mapProjectionNAT.leaves.flatMap Sym.paths) Gen.mapProjectionRecord = true ∧
    pathsCovered (Spec.mapProjectionOther.leaves.flatMap Sym.paths) Gen.mapProjectionRecord = true := spec_paths_live2

theorem live_fields_only :
    pathsCovered (Spec.datasetSummary.leaves.flatMap Sym.paths) Gen.datasetSummaryRecord = true ∧
    pathsCovered (Spec.radiometricData.leaves.flatMap Sym.paths) Gen.radiometricDataRecord = true ∧
    pathsCovered (Spec.transformations.leaves.flatMap Sym.paths) Gen.facilityRelatedData5Record = true := spec_paths_live

theorem field_locality (c : Con) (hc : c ∈ fixedRecords) (pos : Nat) (tbl : List LeafEntry) (endp : Nat)
    (hs : Con.leafTable c [] pos = some (tbl, endp))
    (q : List String) (off w : Nat) (sub : Con) (hmem : (q, off, w, sub) ∈ tbl) (hctx : sub.usesContext = false)
    (ctx ctx' : Ctx) (bs bs' : Bytes) (v v' : Val) (e e' : Nat)
    (h : parse c ctx bs pos = .ok (v, e)) (h' : parse c ctx' bs' pos = .ok (v', e'))
    (hwin : slice bs off (off + w) = slice bs' off (off + w)) :
    v.subAt q = v'.subAt q :=
  leaf_window_fixedRecords c hc pos tbl endp hs q off w sub hmem hctx ctx ctx' bs bs' v v' e e' h h' hwin

/-- the leaf functions the documented trees use: nothing but `bool` and `normalize_datetime` -/
def leafFnsUsed (g : Grp Sym) : List String :=
  (g.leaves.filterMap (fun s => match s with | .app fn _ => some fn | _ => none)).eraseDups

theorem no_derived_attribute :
    leafFnsUsed Spec.datasetSummary = ["normalize_datetime"] ∧ leafFnsUsed Spec.radiometricData = [] ∧
    leafFnsUsed Spec.transformations = ["bool"] := by decide +kernel

/-- non-vacuity: eight spaces, and four spaces followed by NULs, are blank -/
example : IsBlank [32, 32, 32, 32, 32, 32, 32, 32] := ⟨[32, 32, 32, 32, 32, 32, 32, 32], [], by simp, by decide, by simp⟩
example : parseAInt [32, 32, 0, 0] = .ok (.int (-1)) := by decide

end Alos2.C20

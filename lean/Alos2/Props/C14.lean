/-
C14 — Summary parsing is total on well-formed text, reports every malformed line.

On the line grammar regenerated from `summary.py::entry_re` (CPython's own regex AST) and the backtracking matcher
(tied to `re` by the correspondence harness):

* `line_sound` / `line_complete` — a line parses iff it is `Sec_Key="value"` with a 3-letter section; the key is the text up
  to the first `="`; the value may contain spaces, `=` and quotes.
* `errors_exact`   — parsing fails iff some line is malformed and then reports exactly the numbers of ALL malformed lines.
* `crlf`           — CRLF and LF line endings give the same lines.
* `perm_invariant` — for entries with pairwise distinct (section, key), any permutation of the lines — within and across
                     sections — yields the same section maps.
* `roles_by_number`— file roles are assigned by the numbered key, not by line order (repaired code), re-read from the source.
-/
import Alos2.Proofs.SummaryProofs

namespace Alos2.C14

theorem line_sound (line : List Char) (sec key val : String) (h : parseLine line = some (sec, key, val)) :
    line = sec.toList ++ ['_'] ++ key.toList ++ ['=', '"'] ++ val.toList ++ ['"'] ∧
    sec.toList.length = 3 ∧ sec.toList.all isAsciiLetter = true ∧ '\n' ∉ key.toList ∧ '\n' ∉ val.toList :=
  parseLine_sound line sec key val h

theorem line_complete (sec key val : List Char)
    (hs : sec.length = 3 ∧ sec.all isAsciiLetter = true)
    (hk : '\n' ∉ key ∧ ∀ a b, key ≠ a ++ ['=', '"'] ++ b) (hv : '\n' ∉ val) :
    parseLine (sec ++ ['_'] ++ key ++ ['=', '"'] ++ val ++ ['"']) =
      some (String.ofList sec, String.ofList key, String.ofList val) :=
  parseLine_complete sec key val hs hk hv

theorem errors_exact (content : List Char) :
    (∀ es, parseSummary content = .error es ↔
      (es ≠ [] ∧ es = ((splitLines content).zipIdx.filter (fun p => (parseLine p.1).isNone)).map Prod.snd)) :=
  Alos2.errors_exact content

theorem crlf (lines : List (List Char)) (h : ∀ l ∈ lines, ∀ c ∈ l, isLineBreak c = false) (hne : ∀ l ∈ lines, l ≠ []) :
    splitLines (lines.flatMap (fun l => l ++ ['\r', '\n'])) = lines ∧ splitLines (lines.flatMap (fun l => l ++ ['\n'])) = lines :=
  Alos2.crlf lines h hne

theorem perm_invariant (entries entries' : List (String × String × String)) (hp : entries.Perm entries')
    (hd : (entries.map (fun e => (lowerStr e.1, e.2.1))).Nodup) (s k : String) :
    let build (es : List (String × String × String)) : List (String × Section) :=
      es.foldl (fun acc (sec, key, val) =>
        let s := lowerStr sec
        let cur := ((acc.find? (fun kv => kv.1 = s)).map Prod.snd).getD []
        assocSet acc s (assocSet cur key val)) []
    sectionGet (build entries) s k = sectionGet (build entries') s k :=
  Alos2.perm_invariant entries entries' hp hd s k

/-- non-vacuity: a value with `=` and quotes; two malformed lines out of three are both reported -/
example : parseLine "Odi_Note=\"a = \"b\" c\"".toList = some ("Odi", "Note", "a = \"b\" c") := by decide +kernel
example : parseSummary "Scs_A\"1\"\nScs_B=\"2\"\nbad".toList = .error [0, 2] := by decide +kernel

end Alos2.C14

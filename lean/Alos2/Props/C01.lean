/-
C01 — Pixel fidelity: loaded image values are exactly the samples in the file.

Model-level statements (models tied to /repo by the correspondence harness, constants and record
layouts regenerated from /repo by the translator):

* `wf_ranges`      — on every well-formed image file the metadata pass finds, for every positive
                     `records_per_chunk`, exactly the byte ranges `[720 + i·L + P, 720 + (i+1)·L)`.
* `pixel_fidelity` — loading the whole image through the chunked reader returns, at line `i`, pixel `j`,
                     exactly the `bpp` bytes stored at `720 + i·L + P + j·bpp` of the file — for every
                     geometry (any `n ≥ 1`, `m`, prefix length, sample size) and every positive
                     `records_per_chunk` (smaller than, equal to or larger than the line count).
* `prefix_lengths` — the two record layouts of the source have prefix lengths 544 and 192 and are the
                     ones registered under record type codes 10 and 11 (recomputed from `Gen.Layouts`).
* `sample_sizes`   — 8 bytes per C*8 sample, 2 per IU2 sample, in both dtype tables of the source.

Samples stay bit patterns in the model: that NumPy reinterprets 2 big-endian bytes as `>u2` and 4+4
big-endian bytes as the real and imaginary `>f4` of a complex64 without changing a bit is a contract,
exercised end-to-end on all special bit patterns (NaN payloads, ±inf, −0.0, denormals, 0, 65535).
-/
import Alos2.Model.Array
import Alos2.Model.ImageIO
import Alos2.Gen.Consts
import Alos2.Gen.Layouts
import Alos2.Proofs.Array
import Alos2.Proofs.ImageIO
import Alos2.Proofs.Geometry
import Alos2.Proofs.LineAddr
import Alos2.Proofs.ReaderPixels
import Alos2.Props.C03

namespace Alos2.C01

open Alos2

theorem wf_ranges (g : Geometry) (file : Bytes)
    (hw : WellFormedImage ⟨Gen.recordTypes⟩ file g.n g.L g.P g.code) (rpc : Nat) (hrpc : 0 < rpc) :
    (readMetadata ⟨Gen.recordTypes⟩ file g.n g.L rpc).1 =
      .ok ((List.range g.n).map (fun i => (headerSize + i * g.L, (g.range i).1, (g.range i).2))) :=
  Geometry.wf_ranges g file ⟨Gen.recordTypes⟩ hw rpc hrpc

theorem pixel_fidelity (g : Geometry) (file : Bytes) (hn : 0 < g.n) (hb : 0 < g.bpp)
    (hsize : headerSize + g.n * g.L ≤ file.length) (rpc : Nat) (hrpc : 0 < rpc) :
    ∃ rows : List (List Bytes),
      (getitem (g.image file rpc) (.slice none none none) (.slice none none none)).1 = .ok (.d2 g.m rows) ∧
      rows.length = g.n ∧
      ∀ i, i < g.n → ∀ j, j < g.m →
        (rows.getD i []).getD j [] =
          slice file (headerSize + i * g.L + g.P + j * g.bpp) (headerSize + i * g.L + g.P + (j + 1) * g.bpp) :=
  Geometry.pixel_fidelity g file hn hb hsize rpc hrpc

/-- the record layouts registered for record types 10 / 11 have prefix lengths 544 / 192 -/
theorem prefix_lengths :
    Gen.recordTypes = [(10, 544), (11, 192)] ∧
    Con.prefixSize Gen.signalDataRecord = some 544 ∧ Con.prefixSize Gen.processedDataRecord = some 192 := by
  decide +kernel

theorem sample_sizes :
    Gen.rawDtypes = [("C*8", 8), ("IU2", 2)] ∧ Gen.dtypes = [("C*8", "complex64", 8), ("IU2", "uint16", 2)] := by
  decide

theorem header_size : Gen.headerSize = headerSize := by decide

/-- non-vacuity: a 2×2 IU2-like geometry (prefix 12): 752 bytes suffice, and positive sizes hold -/
example : let g : Geometry := { n := 2, m := 2, bpp := 2, P := 12, code := 11 }
    0 < g.n ∧ 0 < g.bpp ∧ headerSize + g.n * g.L ≤ 752 := by decide

/-- the mechanism itself, on the record layouts regenerated from the source (`Tell` / static prefix / `Tell` / `Seek(record_start
    + record_length)`): EVERY successful parse of a line record at stream position `pos` yields `record_start = pos`,
    `data.start = pos + P` (192 resp. 544), `data.stop = pos + record_length`, and the next record starts at `data.stop` -/
theorem record_addresses (ctx : Ctx) (bs : Bytes) (pos : Nat) (v : Val) (pos' : Nat) :
    (parse Gen.processedDataRecord ctx bs pos = .ok (v, pos') →
      ∃ rl : Nat, v.getPath ["preamble", "record_length"] = some (.leaf (.int rl)) ∧
        v.getPath ["record_start"] = some (.leaf (.int pos)) ∧ v.getPath ["data", "start"] = some (.leaf (.int (pos + 192))) ∧
        v.getPath ["data", "stop"] = some (.leaf (.int (pos + rl))) ∧ pos' = pos + rl) ∧
    (parse Gen.signalDataRecord ctx bs pos = .ok (v, pos') →
      ∃ rl : Nat, v.getPath ["preamble", "record_length"] = some (.leaf (.int rl)) ∧
        v.getPath ["record_start"] = some (.leaf (.int pos)) ∧ v.getPath ["data", "start"] = some (.leaf (.int (pos + 544))) ∧
        v.getPath ["data", "stop"] = some (.leaf (.int (pos + rl))) ∧ pos' = pos + rl) :=
  ⟨processed_record_addresses ctx bs pos v pos', signal_record_addresses ctx bs pos v pos'⟩

/-- … and through the chunk loop of `read_metadata` (layout interpreter, offsets rebased per chunk): in a well-framed image
    (every preamble declares the header's record length L and the same type t) record i gets the byte range
    [720 + i·L + P_t, 720 + (i+1)·L), for EVERY positive `records_per_chunk`, short reads included -/
theorem layout_ranges (file : Bytes) (rpc : Nat) (header : Val) (recs : List Val)
    (h : readImageRecords file rpc = .ok (header, recs)) (L : Nat) (hL : 0 < L)
    (hdrL : intAt header ["sar_data_record_length"] = .ok (L : Int))
    (hrl : ∀ r ∈ recs, intAt r ["preamble", "record_length"] = .ok (L : Int))
    (t : Nat) (ht : t = 10 ∨ t = 11) (hty : ∀ r ∈ recs, intAt r ["preamble", "record_type"] = .ok (t : Int)) :
    ∀ i : Nat, ∀ r, recs[i]? = some r →
      intAt r ["record_start"] = .ok ((720 + i * L : Nat) : Int) ∧
      intAt r ["data", "start"] = .ok ((720 + i * L + prefixOf t : Nat) : Int) ∧
      intAt r ["data", "stop"] = .ok ((720 + (i + 1) * L : Nat) : Int) :=
  readImageRecords_ranges file rpc header recs h L hL hdrL hrl t ht hty

/-- END TO END, from the bytes of an image FILE to the samples: whenever the layout-based reader (`open_image` without a cache)
    opens a file whose line records are well framed and whose header is self-consistent (declared shape = (number of line
    records, m), record length = prefix + m·bpp for the declared type code), the lazy array built from what the reader returns
    loads one row per line record, m samples each, sample (i, j) being bytes [720 + i·L + P + j·bpp, … + bpp) of the file —
    for every positive `records_per_chunk` -/
theorem reader_pixel_fidelity (file : Bytes) (name : String) (rpc : Nat) (gname : String) (g : ImageGroup)
    (h : openImageFile file name rpc = .ok (gname, g))
    (header : Val) (recs : List Val) (hr : readImageRecords file rpc = .ok (header, recs))
    (hrpc : 0 < rpc) (hn : 0 < recs.length)
    (L : Nat) (hL : 0 < L) (hdrL : intAt header ["sar_data_record_length"] = .ok (L : Int))
    (hrl : ∀ r ∈ recs, intAt r ["preamble", "record_length"] = .ok (L : Int))
    (t : Nat) (ht : t = 10 ∨ t = 11) (hty : ∀ r ∈ recs, intAt r ["preamble", "record_type"] = .ok (t : Int))
    (m bpp : Nat) (dt : String)
    (hbpp : Gen.dtypes.find? (fun d => d.1 = g.array.typeCode) = some (g.array.typeCode, dt, bpp))
    (hshape : g.array.shape = (((recs.length : Nat) : Int), ((m : Nat) : Int)))
    (hLm : L = prefixOf t + m * bpp) :
    ∃ rows : List (List Bytes),
      (getitem (imageOfMeta file g.array bpp) (.slice none none none) (.slice none none none)).1 = .ok (.d2 m rows) ∧
      rows.length = recs.length ∧
      ∀ i, i < recs.length → ∀ j, j < m →
        (rows.getD i []).getD j [] =
          slice file (720 + i * L + prefixOf t + j * bpp) (720 + i * L + prefixOf t + (j + 1) * bpp) :=
  Alos2.reader_pixel_fidelity file name rpc gname g h header recs hr hrpc hn L hL hdrL hrl t ht hty m bpp dt hbpp hshape hLm

/-- non-vacuity of `reader_pixel_fidelity` (and of the reader-level theorems of C02 / C06 / C11, which share its hypotheses): the
    two-record witness image of C03 (IU2, one pixel per line, L = 194 = 192 + 1·2) opens, its records are well framed (every
    preamble declares length 194 and type 11), the declared shape is (2, 1) and the type code is in the dtype table with 2 bytes
    per sample — kernel-evaluated -/
example :
    (match readImageRecords C03.witnessImage 1, openImageFile C03.witnessImage "IMG-HH-ALOS2290760600-191011-WWDR1.5RUA" 1 with
     | .ok (header, recs), .ok (_, g) =>
       decide (recs.length = 2) && decide (intAt header ["sar_data_record_length"] = .ok 194) &&
       recs.all (fun r => decide (intAt r ["preamble", "record_length"] = .ok 194) && decide (intAt r ["preamble", "record_type"] = .ok 11)) &&
       decide (g.array.shape = (2, 1)) &&
       decide (Gen.dtypes.find? (fun d => d.1 = g.array.typeCode) = some (g.array.typeCode, "uint16", 2)) &&
       decide (194 = prefixOf 11 + 1 * 2)
     | _, _ => false) = true := by decide +kernel

end Alos2.C01

/-
C09 — A crash or concurrent writer during cache creation never poisons later opens.

* `prefix_not_json`  — no proper non-empty prefix of a dumped JSON container is balanced (it ends inside a
                       string or with an unclosed bracket): whatever prefix of the index document is on disk, a
                       parser satisfying the bracket contract rejects it — for every document and every cut.
* `open_after_crash` — in every state whose index files are arbitrary prefixes (0..len, both locations) of
                       documents written for this image, an open with any options returns the uncached group.
* `repair`           — after a torn index in the user cache dir, an open with `create_cache=True` leaves the
                       complete document there.

That an interrupted `write_text` leaves a *prefix* of the document (and what two concurrent writers leave) is
operating-system behaviour: the model covers arbitrary prefixes, the thorough tier samples real SIGKILLs.
-/
import Alos2.Proofs.Flow
import Alos2.Proofs.BridgeTotal
import Alos2.Proofs.ProductCached

namespace Alos2.C09

theorem prefix_not_json (v : PyVal) (hv : v.WF = true) (hc : v.isContainer = true)
    (p : List Char) (hp : p <+: dump v) (hne : p ≠ dump v) (hnil : p ≠ []) : ¬ Balanced p :=
  prefix_not_balanced v hv hc p hp hne hnil

theorem open_after_crash (E : Env) (h : EnvOK E) (s : CState) (hs : Inv E s) (use create : Bool) (r : Nat) :
    (openImage E s use create r).result = .ok (E.U r) :=
  (openImage_correct E h s hs use create r).1

theorem repair (E : Env) (h : EnvOK E) (s : CState) (rw k r : Nat) (hk : k < (docText (E.U rw)).length)
    (hloc : s.loc = some ((docText (E.U rw)).take k)) :
    (openImage E s true true r).state.loc = some (docText (E.U r)) :=
  openImage_repairs E h s rw k r hk hloc

/-- the same for the CONCRETE environment of an image file (no assumption about the groups left — C07
    `cache_transparent_for_every_image`): for every image file that opens with at least one line record, all of one kind, and
    instants inside 1970 … 2262, whatever prefixes of index documents (written for any chunk sizes, cut anywhere) lie at the two
    cache locations, every open returns the uncached group at its chunk size -/
theorem concrete_open_after_crash (fr : FloatRepr) (hfr : fr.OK) (loads : List Char → Except Err PyVal)
    (hJ1 : ∀ d : PyVal, d.TupleFree = true → d.WF = true → loads (dump d) = .ok d)
    (hJ2 : ∀ t : List Char, (¬ Balanced t ∨ t = []) → ∃ e, loads t = .error e)
    (root : String) (file : Bytes) (name : String) (gname : String) (g : ImageGroup)
    (h : openImageFile file name 1 = .ok (gname, g))
    (header : Val) (recs : List Val) (hr : readImageRecords file 1 = .ok (header, recs)) (hn : 0 < recs.length)
    (hk : (∀ r ∈ recs, IsLineRecord Gen.processedDataRecord r) ∨ (∀ r ∈ recs, IsLineRecord Gen.signalDataRecord r))
    (hd : DatesInRange g = true) :
    ∃ cg, bridge fr root name gname g = some cg ∧
      ∀ (s : CState), Inv { U := fun r => cg.withRpc r, loads := loads } s → ∀ (use create : Bool) (r : Nat),
        (openImage { U := fun r => cg.withRpc r, loads := loads } s use create r).result = .ok (cg.withRpc r) := by
  obtain ⟨cg, hb⟩ := bridge_total fr root file name 1 gname g h header recs hr hn hk hd
  have hE := concrete_env_ok fr hfr loads hJ1 hJ2 root file name gname g cg h hb header recs hr hn hk (datesInRange_datesOK g hd)
  exact ⟨cg, hb, fun s hs use create r => open_after_crash _ hE s hs use create r⟩

/-- non-vacuity: `{"a": [1, "x]"]}` cut inside the string is not balanced; the whole text is -/
example : ¬ Balanced ("{\"a\": [1, \"x]".toList) := by unfold Balanced; decide
example : Balanced (dump (.dict [("a", .list [.int 1, .str "x]"])])) := by unfold Balanced; decide

/-- THE WHOLE PRODUCT: cache writes interrupted anywhere, for any of the images, at either location, any number of times, mixed
    with anything else — every later open of the product returns the tree of an uncached open (a torn index is never an
    error and never a wrong tree); the case "only crashes, then opens" of C10 `product_history_independent` stated on its own -/
theorem product_open_after_crashes (fr : FloatRepr) (loads : List Char → Except Err PyVal) (root : String) (fs : Files)
    (G : String → CGroup) (ra : KVs Leaf) (su : List (String × SGroup)) (me : Grp Leaf) (imgs : List String)
    (hh : openProductHead fs = .ok (ra, su, me, imgs))
    (hok : ∀ name ∈ imgs, ImgOK fr loads root fs name (G name))
    (crashes : List POp)
    (hcr : ∀ op ∈ crashes, (∃ n r k, op = .crashLocal n r k) ∨ (∃ n r k, op = .crashAdjacent n r k))
    (use create : Bool) (rpc : Nat) (hr : 0 < rpc) :
    ∀ o ∈ (prun fr loads root fs [] (crashes ++ [.open_ use create rpc])).1, o.2 = openProductC fr root fs o.1 := by
  apply prun_correct fr loads root fs G ra su me imgs hh hok [] (PInv_empty loads G imgs)
  intro u cr r hm
  rcases List.mem_append.mp hm with hm | hm
  · rcases hcr _ hm with ⟨n, r', k, he⟩ | ⟨n, r', k, he⟩ <;> cases he
  · simp at hm
    omega

end Alos2.C09

/-
C17 — All timestamps follow one calendar convention and keep their stored resolution.

`instantNs y doy ns` is THE convention: day-of-year 1 is 1 January (integer nanoseconds, proleptic Gregorian).

* `line_time`, `line_time_us` — the ms and µs line stamps denote `instant(y, doy, ·)` exactly (all years 2014–2049, every
  day 1..366, every ms / µs of the day; leap years, 29 February and day 366 included).
* `civil_dates` — for all those years the civil date `(y, month, day)` of the texts (scene centre, creation, first orbit point)
  is day `doyOf y month day` of the year, every day of the year is such a date, and `text_instant`: the normalised text denotes
  that civil instant to the microsecond — so all text-borne times denote `instant(y, doy, time of day)` too.
* `attitude_one_day_late` — the attitude clause of the property is FALSE for the code as it is: the attitude time equals
  `instant(y, doy, ms)` PLUS ONE DAY, for every input (negation witness; known finding, see DESIGN.md) — which is why the
  full `one_calendar` statement is replaced by this `…_partial` family.
-/
import Alos2.Proofs.Calendar

namespace Alos2.C17

theorem line_time (y doy ms : Nat) (hy : 2014 ≤ y ∧ y ≤ 2049) (hd : 1 ≤ doy ∧ doy ≤ 366) (hm : ms < 86400000) :
    lineTimeNs y doy ms = .ok (instantNs y doy (ms * 1000000)) := lineTime_eq y doy ms hy hd hm

theorem line_time_us (y doy ms us : Nat) (hy : 2014 ≤ y ∧ y ≤ 2049) (hd : 1 ≤ doy ∧ doy ≤ 366) (hm : ms < 86400000)
    (hu : us < 86400000000) :
    lineTimeUsNs y doy ms us = .ok (instantNs y doy (us * 1000)) := lineTimeUs_eq y doy ms us hy hd hm hu

theorem civil_dates (y mo d : Nat) (hy : 2014 ≤ y ∧ y ≤ 2049) (hm : 1 ≤ mo ∧ mo ≤ 12) (hd : 1 ≤ d ∧ d ≤ daysInMonth y mo) :
    daysFromCivil y mo d = daysFromCivil y 1 1 + ((doyOf y mo d : Nat) : Int) - 1 ∧ 1 ≤ doyOf y mo d ∧ doyOf y mo d ≤ yearLen y :=
  civil_eq_doy y mo d hy hm hd

theorem every_day_is_a_date (y doy : Nat) (hy : 2014 ≤ y ∧ y ≤ 2049) (hd : 1 ≤ doy ∧ doy ≤ yearLen y) :
    ∃ mo d, 1 ≤ mo ∧ mo ≤ 12 ∧ 1 ≤ d ∧ d ≤ daysInMonth y mo ∧ doyOf y mo d = doy := doy_surjective y doy hy hd

theorem text_instant (y mo d hh mm ss us : Nat) (hy : 1000 ≤ y ∧ y ≤ 9999) (hm : 1 ≤ mo ∧ mo ≤ 12)
    (hd : 1 ≤ d ∧ d ≤ daysInMonth y mo) (hh' : hh ≤ 23) (hmm : mm ≤ 59) (hss : ss ≤ 59) (hus : us ≤ 999999) :
    let pad (n w : Nat) : String := String.ofList (List.replicate (w - (toString n).length) '0') ++ toString n
    let digits := pad y 4 ++ pad mo 2 ++ pad d 2 ++ pad hh 2 ++ pad mm 2 ++ pad ss 2 ++ pad us 6
    digitsTextNs digits =
      some (daysFromCivil y mo d * nsPerDay + ((hh * 3600 + mm * 60 + ss : Nat) : Int) * 1000000000 + (us : Int) * 1000) :=
  isoText_eq y mo d hh mm ss us hy hm hd hh' hmm hss hus

theorem attitude_one_day_late (y doy ms : Nat) :
    attitudeNs y doy ms = instantNs y doy (ms * 1000000) + nsPerDay := Alos2.attitude_one_day_late y doy ms

/-- non-vacuity and the probe of DESIGN.md: day 241 of 2014 at 12:34:56.5 is 2014-08-29 for the line time, 2014-08-30 for the attitude -/
example : lineTimeNs 2014 241 45296500 = .ok 1409315696500000000 ∧ attitudeNs 2014 241 45296500 = 1409402096500000000 := by
  decide +kernel

end Alos2.C17

/-
C02 — Indexing equivalence: any lazy selection equals NumPy on the full image.

Property theorems only (helper lemmas live in `Alos2/Proofs`).  The model of `Array.__getitem__`
(`getitem`, validated against the real code by the correspondence harness) is proved equal to
NumPy basic indexing (`npIndex`) applied to the fully loaded image, for EVERY image (any number of
lines/pixels, any byte ranges), every positive `records_per_chunk`, and every basic key
(`int | slice(start, stop, step)` on both axes, any signs, `None`s, zero step → ValueError,
out-of-range integer → IndexError).  xarray only ever hands such keys to the backend because the
wrapper declares `IndexingSupport.BASIC` (`Gen.indexingSupport`, regenerated from the source).
-/
import Alos2.Model.Array
import Alos2.Gen.Consts
import Alos2.Proofs.Array
import Alos2.Proofs.ReaderPixels

namespace Alos2.C02

/-- The fully loaded image exists (every row decodes) and is rectangular. -/
structure Loaded (img : Image) (full : List (List Bytes)) : Prop where
  load : loadAll img = .ok full
  rect : ∀ row ∈ full, row.length = img.ncols

/-- **C02** (model level): the lazily indexed image equals NumPy indexing of the loaded image —
    same shape (integer keys drop their axis, empty selections are `0 × k`), same values, same errors. -/
theorem getitem_eq_np (img : Image) (full : List (List Bytes)) (h : Loaded img full)
    (hrpc : 0 < img.rpc) (k0 k1 : Idx) :
    (getitem img k0 k1).1 = npIndex full img.ncols k0 k1 :=
  Alos2.getitem_eq_npIndex img full h.load h.rect hrpc k0 k1

/-- THE SAME FOR THE ARRAY THE READER BUILDS from an image file (layout-based reader, `Model/Product.lean`): for a well-framed,
    self-consistent file the loaded image `full` consists of the file's own samples (C01 `reader_pixel_fidelity`) and EVERY basic
    selection on the lazy array equals NumPy indexing of `full` — for every positive `records_per_chunk` -/
theorem reader_getitem_eq_np (file : Bytes) (name : String) (rpc : Nat) (gname : String) (g : ImageGroup)
    (h : openImageFile file name rpc = .ok (gname, g))
    (header : Val) (recs : List Val) (hr : readImageRecords file rpc = .ok (header, recs))
    (hrpc : 0 < rpc) (hn : 0 < recs.length)
    (L : Nat) (hL : 0 < L) (hdrL : intAt header ["sar_data_record_length"] = .ok (L : Int))
    (hrl : ∀ r ∈ recs, intAt r ["preamble", "record_length"] = .ok (L : Int))
    (t : Nat) (ht : t = 10 ∨ t = 11) (hty : ∀ r ∈ recs, intAt r ["preamble", "record_type"] = .ok (t : Int))
    (m bpp : Nat) (dt : String)
    (hbpp : Gen.dtypes.find? (fun d => d.1 = g.array.typeCode) = some (g.array.typeCode, dt, bpp))
    (hshape : g.array.shape = (((recs.length : Nat) : Int), ((m : Nat) : Int)))
    (hLm : L = prefixOf t + m * bpp) :
    ∃ full : List (List Bytes), full.length = recs.length ∧
      (∀ i, i < recs.length → ∀ j, j < m →
        (full.getD i []).getD j [] = slice file (720 + i * L + prefixOf t + j * bpp) (720 + i * L + prefixOf t + (j + 1) * bpp)) ∧
      ∀ k0 k1 : Idx, (getitem (imageOfMeta file g.array bpp) k0 k1).1 = npIndex full m k0 k1 := by
  obtain ⟨himg, hb, hsize⟩ := reader_image_is_regular file name rpc gname g h header recs hr hrpc hn L hL hdrL hrl t ht hty m bpp dt
    hbpp hshape hLm
  let g' : Geometry := { n := recs.length, m := m, bpp := bpp, P := prefixOf t, code := t }
  have hgL : g'.L = L := hLm.symm
  obtain ⟨full, hload, hlen, hrect, hpix⟩ := Geometry.loadAll_regular g' file hb (by rw [hgL]; exact hsize) rpc
  refine ⟨full, hlen, ?_, ?_⟩
  · intro i hi j hj
    have := hpix i hi j hj
    rw [hgL] at this
    exact this
  · intro k0 k1
    rw [himg]
    exact getitem_eq_np (g'.image file rpc) full ⟨hload, hrect⟩ (normalizeChunksize_pos rpc g'.n hrpc hn) k0 k1

/-- xarray decomposes every outer / vectorised / boolean indexer into a key of this class plus NumPy
    post-indexing *because* the wrapper declares BASIC support (re-read from the source on every run). -/
theorem basic_only : Gen.indexingSupport = "BASIC" := by decide

/-- non-vacuity: a concrete 3×2 image (rows stored with gaps, two chunks) meets the hypotheses, and the
    theorem's two sides compute to the same reversed, strided selection. -/
def demoImg : Image :=
  { file := [9,9, 0,1,0,2, 9, 0,3,0,4, 9,9,9, 0,5,0,6], ranges := [(2,6),(7,11),(14,18)], ncols := 2, bpp := 2, rpc := 2 }
def demoFull : List (List Bytes) := [[[0,1],[0,2]], [[0,3],[0,4]], [[0,5],[0,6]]]

example : Loaded demoImg demoFull := ⟨by decide, by decide⟩
example : (getitem demoImg (.slice none none (some (-2))) (.int (-1))).1 = .ok (.d1 [[0,6],[0,2]]) := by decide

end Alos2.C02

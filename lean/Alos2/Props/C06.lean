/-
C06 — `records_per_chunk` never changes what is read, only how.

* `metadata_rpc_independent` — on a well-formed image file the metadata pass (byte ranges, record starts)
  is the same for any two positive `records_per_chunk`.
* `data_rpc_independent`     — for any image and key, the selected data are the same for any two positive
  chunk sizes (both equal NumPy indexing of the loaded image, C02).
* `preferred_chunksize`      — the only permitted difference: the advertised chunk size is `min rpc n`.
-/
import Alos2.Proofs.Geometry
import Alos2.Props.C02

namespace Alos2.C06

theorem metadata_rpc_independent (t : RecordTypes) (file : Bytes) (n L P code : Nat)
    (hw : WellFormedImage t file n L P code) (r₁ r₂ : Nat) (h₁ : 0 < r₁) (h₂ : 0 < r₂) :
    (readMetadata t file n L r₁).1 = (readMetadata t file n L r₂).1 := by
  rw [readMetadata_wf t file n L P code r₁ hw h₁, readMetadata_wf t file n L P code r₂ hw h₂]

theorem data_rpc_independent (img : Image) (full : List (List Bytes)) (h : C02.Loaded img full)
    (r₁ r₂ : Nat) (h₁ : 0 < r₁) (h₂ : 0 < r₂) (k0 k1 : Idx) :
    (getitem { img with rpc := r₁ } k0 k1).1 = (getitem { img with rpc := r₂ } k0 k1).1 := by
  have e₁ := C02.getitem_eq_np { img with rpc := r₁ } full ⟨h.load, h.rect⟩ h₁ k0 k1
  have e₂ := C02.getitem_eq_np { img with rpc := r₂ } full ⟨h.load, h.rect⟩ h₂ k0 k1
  rw [e₁, e₂]

theorem preferred_chunksize (rpc n : Nat) : normalizeChunksize rpc n = min rpc n :=
  normalizeChunksize_eq_min rpc n

/-- non-vacuity: the demo image of C02 is loaded, and two chunk sizes give the same selection -/
example : (getitem { C02.demoImg with rpc := 1 } (.int 1) (.slice none none none)).1
        = (getitem { C02.demoImg with rpc := 7 } (.int 1) (.slice none none none)).1 := by decide

end Alos2.C06

/-
C06 — `records_per_chunk` never changes what is read, only how.

* `metadata_rpc_independent` — on a well-formed image file the metadata pass (byte ranges, record starts)
  is the same for any two positive `records_per_chunk`.
* `data_rpc_independent`     — for any image and key, the selected data are the same for any two positive
  chunk sizes (both equal NumPy indexing of the loaded image, C02).
* `image_rpc_independent`    — the same on the LAYOUT-based model of the reader (`Model/Product.lean`: the record layouts
  regenerated from the source interpreted chunk by chunk): for a well-framed image two successful opens with any two chunk
  sizes return the same header, the same line records (values and rebased addresses), the same image group and the same array
  metadata except the chunk size itself; rests on `record_window` — a line record, once its addresses are rebased to zero,
  depends only on the bytes of its own prefix window (translation invariance of the layout interpreter on these layouts).
* `preferred_chunksize`      — the only permitted difference: the advertised chunk size is `min rpc n`.
-/
import Alos2.Proofs.Geometry
import Alos2.Props.C02
import Alos2.Proofs.RpcIndep
import Alos2.Proofs.ProductRpc
import Alos2.Proofs.ReaderPixels

namespace Alos2.C06

theorem metadata_rpc_independent (t : RecordTypes) (file : Bytes) (n L P code : Nat)
    (hw : WellFormedImage t file n L P code) (r₁ r₂ : Nat) (h₁ : 0 < r₁) (h₂ : 0 < r₂) :
    (readMetadata t file n L r₁).1 = (readMetadata t file n L r₂).1 := by
  rw [readMetadata_wf t file n L P code r₁ hw h₁, readMetadata_wf t file n L P code r₂ hw h₂]

theorem data_rpc_independent (img : Image) (full : List (List Bytes)) (h : C02.Loaded img full)
    (r₁ r₂ : Nat) (h₁ : 0 < r₁) (h₂ : 0 < r₂) (k0 k1 : Idx) :
    (getitem { img with rpc := r₁ } k0 k1).1 = (getitem { img with rpc := r₂ } k0 k1).1 := by
  have e₁ := C02.getitem_eq_np { img with rpc := r₁ } full ⟨h.load, h.rect⟩ h₁ k0 k1
  have e₂ := C02.getitem_eq_np { img with rpc := r₂ } full ⟨h.load, h.rect⟩ h₂ k0 k1
  rw [e₁, e₂]

theorem record_window (ctx ctx' : Ctx) (bs bs' : Bytes) (pos pos' : Nat) (v v' : Val) (e e' : Nat) :
    (parse Gen.signalDataRecord ctx bs pos = .ok (v, e) → parse Gen.signalDataRecord ctx' bs' pos' = .ok (v', e') →
      slice bs pos (pos + 544) = slice bs' pos' (pos' + 544) → adjustOffset (-(pos : Int)) v = adjustOffset (-(pos' : Int)) v') ∧
    (parse Gen.processedDataRecord ctx bs pos = .ok (v, e) → parse Gen.processedDataRecord ctx' bs' pos' = .ok (v', e') →
      slice bs pos (pos + 192) = slice bs' pos' (pos' + 192) → adjustOffset (-(pos : Int)) v = adjustOffset (-(pos' : Int)) v') :=
  ⟨signal_record_window ctx ctx' bs bs' pos pos' v v' e e', processed_record_window ctx ctx' bs bs' pos pos' v v' e e'⟩

theorem image_rpc_independent (file : Bytes) (name : String) (rpc1 rpc2 : Nat)
    (n1 n2 : String) (g1 g2 : ImageGroup)
    (h1 : openImageFile file name rpc1 = .ok (n1, g1)) (h2 : openImageFile file name rpc2 = .ok (n2, g2))
    (hd1 hd2 : Val) (recs1 recs2 : List Val)
    (hr1 : readImageRecords file rpc1 = .ok (hd1, recs1)) (hr2 : readImageRecords file rpc2 = .ok (hd2, recs2))
    (L : Nat) (hL : 0 < L) (hdrL : intAt hd1 ["sar_data_record_length"] = .ok (L : Int))
    (t : Nat) (ht : t = 10 ∨ t = 11)
    (hrl1 : ∀ r ∈ recs1, intAt r ["preamble", "record_length"] = .ok (L : Int))
    (hty1 : ∀ r ∈ recs1, intAt r ["preamble", "record_type"] = .ok (t : Int))
    (hrl2 : ∀ r ∈ recs2, intAt r ["preamble", "record_length"] = .ok (L : Int))
    (hty2 : ∀ r ∈ recs2, intAt r ["preamble", "record_type"] = .ok (t : Int)) :
    hd1 = hd2 ∧ recs1 = recs2 ∧ n1 = n2 ∧ g1.group = g2.group ∧ g1.array = { g2.array with rpc := rpc1 } := by
  obtain ⟨a, b⟩ := readImageRecords_rpc_independent file rpc1 rpc2 hd1 hd2 recs1 recs2 hr1 hr2 L hL hdrL t ht hrl1 hty1 hrl2 hty2
  obtain ⟨c, d, e⟩ := openImageFile_rpc_independent file name rpc1 rpc2 n1 n2 g1 g2 h1 h2 hd1 hd2 recs1 recs2 hr1 hr2 L hL hdrL t ht hrl1 hty1 hrl2 hty2
  exact ⟨a, b, c, d, e⟩

/-- the whole product: two successful opens with two chunk sizes agree on the root attributes, the summary, `/metadata` and
    on which image groups exist, in which order (each image group: `image_rpc_independent`) -/
theorem product_rpc_independent (fs : Files) (rpc1 rpc2 : Nat) (p1 p2 : Product)
    (h1 : openProduct fs rpc1 = .ok p1) (h2 : openProduct fs rpc2 = .ok p2) :
    p1.rootAttrs = p2.rootAttrs ∧ p1.summary = p2.summary ∧ p1.metadata = p2.metadata ∧
    p1.imagery.map Prod.fst = p2.imagery.map Prod.fst :=
  openProduct_rpc_independent fs rpc1 rpc2 p1 p2 h1 h2

/-- END TO END on the models: the same image file opened by the layout-based reader with two positive chunk sizes — every basic
    selection on the two lazy arrays built from what the reader returned gives the same result (values, shape, errors) -/
theorem reader_data_rpc_independent (file : Bytes) (name : String) (rpc1 rpc2 : Nat)
    (n1 n2 : String) (g1 g2 : ImageGroup)
    (h1 : openImageFile file name rpc1 = .ok (n1, g1)) (h2 : openImageFile file name rpc2 = .ok (n2, g2))
    (hd1 hd2 : Val) (recs1 recs2 : List Val)
    (hr1 : readImageRecords file rpc1 = .ok (hd1, recs1)) (hr2 : readImageRecords file rpc2 = .ok (hd2, recs2))
    (hp1 : 0 < rpc1) (hp2 : 0 < rpc2) (hn : 0 < recs1.length)
    (L : Nat) (hL : 0 < L) (hdrL : intAt hd1 ["sar_data_record_length"] = .ok (L : Int))
    (t : Nat) (ht : t = 10 ∨ t = 11)
    (hrl1 : ∀ r ∈ recs1, intAt r ["preamble", "record_length"] = .ok (L : Int))
    (hty1 : ∀ r ∈ recs1, intAt r ["preamble", "record_type"] = .ok (t : Int))
    (hrl2 : ∀ r ∈ recs2, intAt r ["preamble", "record_length"] = .ok (L : Int))
    (hty2 : ∀ r ∈ recs2, intAt r ["preamble", "record_type"] = .ok (t : Int))
    (m bpp : Nat) (dt : String)
    (hbpp : Gen.dtypes.find? (fun d => d.1 = g1.array.typeCode) = some (g1.array.typeCode, dt, bpp))
    (hshape : g1.array.shape = (((recs1.length : Nat) : Int), ((m : Nat) : Int)))
    (hLm : L = prefixOf t + m * bpp) (k0 k1 : Idx) :
    (getitem (imageOfMeta file g1.array bpp) k0 k1).1 = (getitem (imageOfMeta file g2.array bpp) k0 k1).1 := by
  obtain ⟨hhd, hrecs⟩ := readImageRecords_rpc_independent file rpc1 rpc2 hd1 hd2 recs1 recs2 hr1 hr2 L hL hdrL t ht hrl1 hty1 hrl2 hty2
  obtain ⟨_, _, harr⟩ := openImageFile_rpc_independent file name rpc1 rpc2 n1 n2 g1 g2 h1 h2 hd1 hd2 recs1 recs2 hr1 hr2 L hL hdrL t ht
    hrl1 hty1 hrl2 hty2
  subst hhd; subst hrecs
  have htc : g2.array.typeCode = g1.array.typeCode := by rw [harr]
  have hsh : g2.array.shape = g1.array.shape := by rw [harr]
  obtain ⟨e1, hb, hsize⟩ := reader_image_is_regular file name rpc1 n1 g1 h1 hd1 recs1 hr1 hp1 hn L hL hdrL hrl1 t ht hty1 m bpp dt hbpp
    hshape hLm
  obtain ⟨e2, _, _⟩ := reader_image_is_regular file name rpc2 n2 g2 h2 hd1 recs1 hr2 hp2 hn L hL hdrL hrl2 t ht hty2 m bpp dt
    (by rw [htc]; exact hbpp) (by rw [hsh]; exact hshape) hLm
  let g' : Geometry := { n := recs1.length, m := m, bpp := bpp, P := prefixOf t, code := t }
  have hgL : g'.L = L := hLm.symm
  obtain ⟨full, hload, _, hrect, _⟩ := Geometry.loadAll_regular g' file hb (by rw [hgL]; exact hsize) rpc1
  rw [e1, e2]
  have a := C02.getitem_eq_np (g'.image file rpc1) full ⟨hload, hrect⟩ (normalizeChunksize_pos rpc1 g'.n hp1 hn) k0 k1
  obtain ⟨full2, hload2, _, hrect2, _⟩ := Geometry.loadAll_regular g' file hb (by rw [hgL]; exact hsize) rpc2
  have b := C02.getitem_eq_np (g'.image file rpc2) full2 ⟨hload2, hrect2⟩ (normalizeChunksize_pos rpc2 g'.n hp2 hn) k0 k1
  have hfull : full2 = full := by
    have l1 : loadAll (g'.image file rpc2) = loadAll (g'.image file rpc1) := rfl
    rw [l1, hload] at hload2
    exact (Except.ok.inj hload2).symm
  rw [a, b, hfull]
  rfl

theorem preferred_chunksize (rpc n : Nat) : normalizeChunksize rpc n = min rpc n :=
  normalizeChunksize_eq_min rpc n

/-- non-vacuity: the demo image of C02 is loaded, and two chunk sizes give the same selection -/
example : (getitem { C02.demoImg with rpc := 1 } (.int 1) (.slice none none none)).1
        = (getitem { C02.demoImg with rpc := 7 } (.int 1) (.slice none none none)).1 := by decide

end Alos2.C06

/-
C16 — Volume-directory fields surface unchanged as root attributes.

* `root_attrs` — for EVERY volume directory file that parses (any field contents, any number `k` of file-pointer
  records in between), the root attributes contributed by the volume directory are exactly the frozen documented
  list `Spec.rootAttrs` (name ↦ field path, `creation_datetime` through the ISO-8601 normaliser), each evaluated on
  the parsed record — the documented names, no others.
* `field_positions` — the volume descriptor, file-pointer and text records of the source place every live field at
  the documented offset with the documented width and conversion (golden tables), and
* `framing` — the text record starts at `360·(k+1)`: the whole file consumes `360·(k+2)` bytes.
* `padded_text` — a text field is its bytes stripped of trailing NULs and surrounding whitespace; a blank field is `""`.
-/
import Alos2.Proofs.Provenance
import Alos2.Proofs.Fields

namespace Alos2.C16

theorem root_attrs (ctx : Ctx) (bs : Bytes) (pos : Nat) (v : Val) (pos' : Nat)
    (h : parse Gen.volumeDirectoryRecord ctx bs pos = .ok (v, pos')) :
    (transformVolumeRecord realLeafFns v.toPVal).map sortByKey = some (PVal.mapKvs (Sym.eval v) Spec.rootAttrs) :=
  root_attrs_provenance ctx bs pos v pos' h

theorem field_positions :
    Con.fieldTable Gen.volumeDescriptor = some Spec.volumeDescriptorFields ∧
    Con.fieldTable Gen.filePointerRecord = some Spec.filePointerRecordFields ∧
    Con.fieldTable Gen.textRecord = some Spec.textRecordFields :=
  ⟨field_tables.2.2.2.2.2.2.2.2.2.2.1, field_tables.2.2.2.2.2.2.2.2.2.2.2.1, field_tables.2.2.2.2.2.2.2.2.2.2.2.2⟩

theorem framing (ctx : Ctx) (bs : Bytes) (pos : Nat) (v : Val) (pos' : Nat)
    (h : parse Gen.volumeDirectoryRecord ctx bs pos = .ok (v, pos')) :
    ∃ k : Nat, v.getPath ["volume_descriptor", "number_of_file_pointer_records"] = some (.leaf (.int k)) ∧
      pos' = pos + 360 * (k + 2) :=
  volume_consumes ctx bs pos v pos' h

theorem padded_text (raw : Bytes) (h : IsBlank raw) :
    (decodeAscii raw).map (fun s => String.ofList (pyStrip s)) = .ok "" :=
  blank_pstr raw h

/-- the pipeline the theorem is about is the one in the source: step order and step arguments, re-read on every run -/
theorem pipeline_shape :
    Gen.Config.volume_directory__transform_record.steps =
      ["curry(dissoc, ignored)", "curry(apply_to_items, transformers)", "curry(remove_nesting_layer)"] ∧
    Gen.Config.volume_directory__transform_volume_descriptor.steps =
      ["curry(dissoc, ignored)", "curry(rename, translations=translations)", "curry(apply_to_items, postprocessors)"] ∧
    Gen.Config.volume_directory__transform_text.steps =
      ["curry(dissoc, ignored)", "curry(rename, translations=translations)"] := by decide

/-- non-vacuity: the frozen list names 15 attributes -/
example : Spec.rootAttrs.length = 15 := by decide

end Alos2.C16

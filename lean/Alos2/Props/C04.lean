/-
C04 — SAR leader metadata equals the field values stored in the leader file.

Chain (all on the layouts / configuration regenerated from /repo on every run):
  bytes ──parse──▶ record value ──transform_*──▶ group
* `field_positions`   — every live field of the fixed-size leader records sits at the documented offset with the
                        documented width and conversion (scale factor `Factor`, unit attributes, code tables): the golden tables.
* `dataset_summary` / `radiometric_data` / `transformations` — for EVERY file content that parses, the group built for
                        the record is the frozen documented tree (`Spec.*`: group path, variable name, dims, unit attributes,
                        source field path, leaf function) evaluated on the parsed record: each output leaf IS the documented
                        field, and there are no other leaves.
* `metadata`          — the whole `/metadata` subtree at once: `transform_metadata` on ANY leader file that parses gives the
                        documented tree (which records become groups, under which names; map projection present exactly
                        when the file holds such a record; attitude times fixed up with the year of the first orbit point).
* `framing`           — the records start where the file declares (C05), for any attitude / facility lengths.
* `numeric_text`      — the ASCII adapters accept exactly Python's `int()` / `float()` grammars after stripping; the value is
                        the token read as written (`float(token)` is CPython's contract, checked exactly by the harness).

* `platform_position` / `map_projection` / `attitude` / `data_quality_summary` — the same statement for the remaining four
                        records: the 28 state vectors regrouped per component, the first-point time as the composite of
                        date text and seconds of day; the map-projection tree per designator class (UTM / UPS / LCC|MER /
                        outside the table / no '-' ⇒ error), corner points and conversion coefficients regrouped; the
                        attitude group for EVERY number n ≥ 1 of points (n = 0 ⇒ error) and the data-quality group for
                        every number of channels 1 ≤ n ≤ 16 (the layout forces n ≤ 16), one entry per point / channel
                        in file order.

Partial: text → binary64, `x * 1e24`, `strptime` / `timedelta(seconds=float)` of the first-point time and numpy's
timedelta arithmetic are IEEE / CPython / numpy contracts (checked exactly by the harness, C17 models the instants).
-/
import Alos2.Proofs.Provenance
import Alos2.Proofs.Provenance2
import Alos2.Proofs.Provenance3
import Alos2.Proofs.Metadata
import Alos2.Proofs.Fields

namespace Alos2.C04

theorem field_positions :
    Con.fieldTable Gen.leaderFileDescriptor = some Spec.leaderFileDescriptorFields ∧
    Con.fieldTable Gen.datasetSummaryRecord = some Spec.datasetSummaryRecordFields ∧
    Con.fieldTable Gen.mapProjectionRecord = some Spec.mapProjectionRecordFields ∧
    Con.fieldTable Gen.platformPositionRecord = some Spec.platformPositionRecordFields ∧
    Con.fieldTable Gen.radiometricDataRecord = some Spec.radiometricDataRecordFields ∧
    Con.fieldTable Gen.facilityRelatedData5Record = some Spec.facilityRelatedData5RecordFields :=
  ⟨field_tables.2.2.2.2.1, field_tables.2.2.2.2.2.1, field_tables.2.2.2.2.2.2.1, field_tables.2.2.2.2.2.2.2.1,
   field_tables.2.2.2.2.2.2.2.2.1, field_tables.2.2.2.2.2.2.2.2.2.1⟩

theorem dataset_summary (ctx : Ctx) (bs : Bytes) (pos : Nat) (v : Val) (pos' : Nat)
    (h : parse Gen.datasetSummaryRecord ctx bs pos = .ok (v, pos')) :
    (transformDatasetSummary realLeafFns v.toPVal).map Grp.sortKeys = some (Spec.datasetSummary.map (Sym.eval v)) :=
  dataset_summary_provenance ctx bs pos v pos' h

theorem radiometric_data (ctx : Ctx) (bs : Bytes) (pos : Nat) (v : Val) (pos' : Nat)
    (h : parse Gen.radiometricDataRecord ctx bs pos = .ok (v, pos')) :
    (transformRadiometricData v.toPVal).map Grp.sortKeys = some (Spec.radiometricData.map (Sym.eval v)) :=
  radiometric_provenance ctx bs pos v pos' h

theorem transformations (ctx : Ctx) (bs : Bytes) (pos : Nat) (v : Val) (pos' : Nat)
    (h : parse Gen.facilityRelatedData5Record ctx bs pos = .ok (v, pos')) :
    (transformRecord5 realLeafFns v.toPVal).map Grp.sortKeys = some (Spec.transformations.map (Sym.eval v)) :=
  record5_provenance ctx bs pos v pos' h

theorem platform_position (ctx : Ctx) (bs : Bytes) (pos : Nat) (v : Val) (pos' : Nat)
    (h : parse Gen.platformPositionRecord ctx bs pos = .ok (v, pos')) :
    (transformPlatformPosition realLeafFns2 v.toPVal).map Grp.sortKeys = some (Spec.platformPosition.map (Sym.eval v)) :=
  platform_position_provenance ctx bs pos v pos' h

/-- the tree depends on the content only through the class of the designator text -/
theorem map_projection (ctx : Ctx) (bs : Bytes) (pos : Nat) (v : Val) (pos' : Nat)
    (h : parse Gen.mapProjectionRecord ctx bs pos = .ok (v, pos')) :
    (transformMapProjection realLeafFns2 v.toPVal).map Grp.sortKeys =
      (Spec.mapProjection (realLeafFns2.desig ((v.leafAt ["map_projection_designator"]).getD default))).map
        (Grp.map (Sym.eval v)) :=
  map_projection_provenance ctx bs pos v pos' h

theorem attitude (ctx : Ctx) (bs : Bytes) (pos : Nat) (v : Val) (pos' : Nat)
    (h : parse Gen.attitudeRecord ctx bs pos = .ok (v, pos')) :
    ∃ n : Nat, v.getPath ["number_of_points"] = some (.leaf (.int n)) ∧
      (0 < n → (transformAttitude realLeafFns2 v.toPVal).map Grp.sortKeys = some ((Spec.attitude n).map (Sym.eval v))) ∧
      (n = 0 → transformAttitude realLeafFns2 v.toPVal = none) :=
  attitude_provenance ctx bs pos v pos' h

theorem data_quality_summary (ctx : Ctx) (bs : Bytes) (pos : Nat) (v : Val) (pos' : Nat)
    (h : parse Gen.dataQualitySummaryRecord ctx bs pos = .ok (v, pos')) :
    ∃ n : Nat, v.getPath ["number_of_channels"] = some (.leaf (.int n)) ∧ n ≤ 16 ∧
      (0 < n → (transformDataQualitySummary v.toPVal).map Grp.sortKeys =
        some ((Spec.dataQualitySummary n).map (Sym.eval v))) :=
  data_quality_provenance ctx bs pos v pos' h

/-- THE WHOLE `/metadata` SUBTREE: for every leader file that parses (any number k of map-projection records, any
    attitude / facility record lengths, na ≥ 1 attitude points, nc ≥ 1 channels), `transform_metadata` — record selection,
    the seven record pipelines, renames, the attitude time fix-up — yields the documented tree `Spec.metadata`: every
    value under `/metadata` is the documented leader field (path from the leader record root) under the documented name,
    dimension, unit attributes and group path, and there is nothing else. -/
theorem metadata (bs : Bytes) (v : Val) (pos' : Nat)
    (h : parse Gen.sarLeaderRecord [] bs 0 = .ok (v, pos')) :
    ∃ k na nc : Nat,
      v.getPath ["file_descriptor", "map_projection", "number_of_records"] = some (.leaf (.int k)) ∧
      v.getPath ["attitude", "number_of_points"] = some (.leaf (.int na)) ∧
      v.getPath ["data_quality_summary", "number_of_channels"] = some (.leaf (.int nc)) ∧
      (0 < na → 0 < nc →
        (transformLeaderMetadata realLeafFns3 v.toPVal).map Grp.sortKeys =
          (Spec.metadata (decide (0 < k))
            (realLeafFns2.desig ((v.leafAt ["map_projection", "[0]", "map_projection_designator"]).getD default))
            na nc).map (Grp.map (Sym.eval v))) :=
  metadata_provenance bs v pos' h

/-- the designator classes: text before the first '-' (any letter case) looked up in the table -/
theorem designator_classes :
    desigOfString "UTM-PROJECTION" = .utm ∧ desigOfString "ups-x" = .ups ∧ desigOfString "LCC-PROJECTION" = .nat ∧
    desigOfString "Mer-CATOR" = .nat ∧ desigOfString "XYZ-1" = .other ∧ desigOfString "-" = .other ∧
    desigOfString "UTM" = .bad ∧ desigOfString "" = .bad ∧ desigOfString "lcc-a-b" = .nat := by decide +kernel

theorem framing (bs : Bytes) (v : Val) (pos' : Nat)
    (h : parse Gen.sarLeaderRecord [] bs 0 = .ok (v, pos')) :
    ∃ k La L1 L2 L3 L4 : Nat,
      v.getPath ["file_descriptor", "map_projection", "number_of_records"] = some (.leaf (.int k)) ∧
      v.getPath ["attitude", "preamble", "record_length"] = some (.leaf (.int La)) ∧
      v.getPath ["facility_related_data_1", "preamble", "record_length"] = some (.leaf (.int L1)) ∧
      v.getPath ["facility_related_data_2", "preamble", "record_length"] = some (.leaf (.int L2)) ∧
      v.getPath ["facility_related_data_3", "preamble", "record_length"] = some (.leaf (.int L3)) ∧
      v.getPath ["facility_related_data_4", "preamble", "record_length"] = some (.leaf (.int L4)) ∧
      pos' = 720 + 4096 + k * 1620 + 4680 + La + 9860 + 1620 + L1 + L2 + L3 + L4 + 5000 :=
  leader_consumes bs v pos' h

/-- numeric text is read as written: e.g. left/right padding, sign, exponent forms, `.5`, `5.`; Fortran `D` exponents,
    inner blanks and thousands separators are rejected (as by Python) -/
theorem numeric_text :
    parseAInt "  +12 ".toUTF8.toList = .ok (.int 12) ∧ parseAInt "1_000".toUTF8.toList = .ok (.int 1000) ∧
    parseAInt "1 2".toUTF8.toList = .error .value ∧ parseAInt "1e3".toUTF8.toList = .error .value ∧
    parseAFloat " -1.5E+03".toUTF8.toList = .ok "-1.5E+03" ∧ parseAFloat ".5".toUTF8.toList = .ok ".5" ∧
    parseAFloat "5.".toUTF8.toList = .ok "5." ∧ parseAFloat "1D5".toUTF8.toList = .error .value ∧
    parseAFloat "1,5".toUTF8.toList = .error .value ∧ parseAFloat "nan".toUTF8.toList = .ok "nan" := by
  decide +kernel

theorem pipeline_shape :
    Gen.Config.dataset_summary__transform_dataset_summary.steps =
      ["curry(remove_spares)", "curry(dissoc, ignored)", "curry(apply_to_items, transformers)",
       "curry(rename, translations=translations)", "curry(as_group)"] ∧
    Gen.Config.radiometric_data__transform_radiometric_data.steps =
      ["curry(dissoc, ignored)", "curry(remove_spares)", "curry(apply_to_items, transformers)", "curry(as_group)"] ∧
    Gen.Config.facility_related_data__transform_record5.steps =
      ["curry(remove_spares)", "curry(dissoc, ignored)", "curry(apply_to_items, transformers)",
       "curry(rename, translations=translations)", "curry(as_group)"] ∧
    Gen.Config.platform_position__transform_platform_position.steps = expectedPlatformSteps ∧
    Gen.Config.map_projection__transform_map_projection.steps = expectedMapProjectionSteps ∧
    Gen.Config.attitude__transform_attitude.steps = expectedAttitudeSteps ∧
    Gen.Config.data_quality_summary__transform_data_quality_summary.steps =
      ["curry(remove_spares)", "curry(dissoc, ignored)", "curry(apply_to_items, transformers)", "curry(as_group)"] ∧
    Gen.Config.sar_leader__transform_metadata.steps = expectedLeaderSteps := by decide

/-- non-vacuity: the documented attitude group for 3 points has two sections of 7 variables with 3 entries each, the
    platform-position group holds 28-entry state-vector components, the UTM tree has a projection section and the
    "other" tree has none -/
example : (match Spec.attitude 3 with | .mk _ gs _ => gs.map (fun g => match g.2 with | .mk vs _ _ => vs.length)) = [7, 7] ∧
    (match Spec.mapProjectionUTM with | .mk _ gs _ => gs.map Prod.fst) =
      ["conversion_coefficients", "corner_points", "ellipsoid_parameters", "general_information", "projection"] ∧
    (match Spec.mapProjectionOther with | .mk _ gs _ => gs.map Prod.fst) =
      ["conversion_coefficients", "corner_points", "ellipsoid_parameters", "general_information"] := by decide

/-- non-vacuity of `attitude`: a 136-byte attitude record with one point (written by the independent synthesiser) parses, and the
    pipeline yields the two sections with seven one-entry variables each -/
def witnessAttitude : Bytes := [245, 53, 16, 113, 79, 93, 180, 125, 0, 0, 0, 136, 32, 32, 32, 49, 32, 49, 55, 48, 50, 51, 50, 50, 56, 51, 50, 55, 49, 32, 32, 32, 32, 32, 32, 48, 49, 32, 32, 32, 32, 32, 32, 32, 32, 32, 50, 49, 48, 50, 50, 46, 52, 51, 32, 32, 32, 32, 32, 32, 45, 48, 46, 48, 51, 53, 55, 57, 32, 32, 45, 53, 46, 52, 69, 45, 50, 52, 32, 32, 32, 32, 32, 32, 32, 48, 49, 32, 32, 32, 32, 32, 32, 49, 32, 32, 32, 32, 32, 32, 32, 32, 32, 49, 69, 43, 48, 50, 45, 48, 46, 51, 51, 51, 32, 32, 32, 32, 32, 32, 32, 32, 32, 32, 32, 32, 32, 32, 32, 32, 45, 52, 101, 45, 51, 49]

set_option maxRecDepth 100000 in
example : ((parseRecord Gen.attitudeRecord witnessAttitude).toOption.bind (fun v => (transformAttitude realLeafFns2 v.toPVal).map
    (fun g => match g with | .mk _ gs _ => gs.map (fun sg => (sg.1, match sg.2 with | .mk vs _ _ => vs.length))))) =
    some [("attitude", 7), ("rates", 7)] := by decide +kernel

end Alos2.C04

/-
C04 — SAR leader metadata equals the field values stored in the leader file.

Chain (all on the layouts / configuration regenerated from /repo on every run):
  bytes ──parse──▶ record value ──transform_*──▶ group
* `field_positions`   — every live field of the fixed-size leader records sits at the documented offset with the
                        documented width and conversion (scale factor `Factor`, unit attributes, code tables): the golden tables.
* `dataset_summary` / `radiometric_data` / `transformations` — for EVERY file content that parses, the group built for
                        the record is the frozen documented tree (`Spec.*`: group path, variable name, dims, unit attributes,
                        source field path, leaf function) evaluated on the parsed record: each output leaf IS the documented
                        field, and there are no other leaves.
* `framing`           — the records start where the file declares (C05), for any attitude / facility lengths.
* `numeric_text`      — the ASCII adapters accept exactly Python's `int()` / `float()` grammars after stripping; the value is
                        the token read as written (`float(token)` is CPython's contract, checked exactly by the harness).

Partial: the attitude, data-quality (dynamic counts), platform-position and map-projection pipelines are covered by the
layout theorems, the transformer correspondence and the end-to-end oracle, not yet by a provenance theorem;
text → binary64 and `x * 1e24` are IEEE/CPython contracts.
-/
import Alos2.Proofs.Provenance
import Alos2.Proofs.Fields

namespace Alos2.C04

theorem field_positions :
    Con.fieldTable Gen.leaderFileDescriptor = some Spec.leaderFileDescriptorFields ∧
    Con.fieldTable Gen.datasetSummaryRecord = some Spec.datasetSummaryRecordFields ∧
    Con.fieldTable Gen.mapProjectionRecord = some Spec.mapProjectionRecordFields ∧
    Con.fieldTable Gen.platformPositionRecord = some Spec.platformPositionRecordFields ∧
    Con.fieldTable Gen.radiometricDataRecord = some Spec.radiometricDataRecordFields ∧
    Con.fieldTable Gen.facilityRelatedData5Record = some Spec.facilityRelatedData5RecordFields :=
  ⟨field_tables.2.2.2.2.1, field_tables.2.2.2.2.2.1, field_tables.2.2.2.2.2.2.1, field_tables.2.2.2.2.2.2.2.1,
   field_tables.2.2.2.2.2.2.2.2.1, field_tables.2.2.2.2.2.2.2.2.2.1⟩

theorem dataset_summary (ctx : Ctx) (bs : Bytes) (pos : Nat) (v : Val) (pos' : Nat)
    (h : parse Gen.datasetSummaryRecord ctx bs pos = .ok (v, pos')) :
    (transformDatasetSummary realLeafFns v.toPVal).map Grp.sortKeys = some (Spec.datasetSummary.map (Sym.eval v)) :=
  dataset_summary_provenance ctx bs pos v pos' h

theorem radiometric_data (ctx : Ctx) (bs : Bytes) (pos : Nat) (v : Val) (pos' : Nat)
    (h : parse Gen.radiometricDataRecord ctx bs pos = .ok (v, pos')) :
    (transformRadiometricData v.toPVal).map Grp.sortKeys = some (Spec.radiometricData.map (Sym.eval v)) :=
  radiometric_provenance ctx bs pos v pos' h

theorem transformations (ctx : Ctx) (bs : Bytes) (pos : Nat) (v : Val) (pos' : Nat)
    (h : parse Gen.facilityRelatedData5Record ctx bs pos = .ok (v, pos')) :
    (transformRecord5 realLeafFns v.toPVal).map Grp.sortKeys = some (Spec.transformations.map (Sym.eval v)) :=
  record5_provenance ctx bs pos v pos' h

theorem framing (bs : Bytes) (v : Val) (pos' : Nat)
    (h : parse Gen.sarLeaderRecord [] bs 0 = .ok (v, pos')) :
    ∃ k La L1 L2 L3 L4 : Nat,
      v.getPath ["file_descriptor", "map_projection", "number_of_records"] = some (.leaf (.int k)) ∧
      v.getPath ["attitude", "preamble", "record_length"] = some (.leaf (.int La)) ∧
      v.getPath ["facility_related_data_1", "preamble", "record_length"] = some (.leaf (.int L1)) ∧
      v.getPath ["facility_related_data_2", "preamble", "record_length"] = some (.leaf (.int L2)) ∧
      v.getPath ["facility_related_data_3", "preamble", "record_length"] = some (.leaf (.int L3)) ∧
      v.getPath ["facility_related_data_4", "preamble", "record_length"] = some (.leaf (.int L4)) ∧
      pos' = 720 + 4096 + k * 1620 + 4680 + La + 9860 + 1620 + L1 + L2 + L3 + L4 + 5000 :=
  leader_consumes bs v pos' h

/-- numeric text is read as written: e.g. left/right padding, sign, exponent forms, `.5`, `5.`; Fortran `D` exponents,
    inner blanks and thousands separators are rejected (as by Python) -/
theorem numeric_text :
    parseAInt "  +12 ".toUTF8.toList = .ok (.int 12) ∧ parseAInt "1_000".toUTF8.toList = .ok (.int 1000) ∧
    parseAInt "1 2".toUTF8.toList = .error .value ∧ parseAInt "1e3".toUTF8.toList = .error .value ∧
    parseAFloat " -1.5E+03".toUTF8.toList = .ok "-1.5E+03" ∧ parseAFloat ".5".toUTF8.toList = .ok ".5" ∧
    parseAFloat "5.".toUTF8.toList = .ok "5." ∧ parseAFloat "1D5".toUTF8.toList = .error .value ∧
    parseAFloat "1,5".toUTF8.toList = .error .value ∧ parseAFloat "nan".toUTF8.toList = .ok "nan" := by
  decide +kernel

theorem pipeline_shape :
    Gen.Config.dataset_summary__transform_dataset_summary.steps =
      ["curry(remove_spares)", "curry(dissoc, ignored)", "curry(apply_to_items, transformers)",
       "curry(rename, translations=translations)", "curry(as_group)"] ∧
    Gen.Config.radiometric_data__transform_radiometric_data.steps =
      ["curry(dissoc, ignored)", "curry(remove_spares)", "curry(apply_to_items, transformers)", "curry(as_group)"] ∧
    Gen.Config.facility_related_data__transform_record5.steps =
      ["curry(remove_spares)", "curry(dissoc, ignored)", "curry(apply_to_items, transformers)",
       "curry(rename, translations=translations)", "curry(as_group)"] := by decide

end Alos2.C04

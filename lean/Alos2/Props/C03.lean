/-
C03 — Per-line and header image metadata equal what each file record encodes.

* `line_metadata_15` / `line_metadata_11` — for ANY number `n ≥ 1` of line records (parsed by `Array(n, record)`), for EVERY
  file content: the image group built by `transform_line_metadata` is the frozen documented group — every per-line
  coordinate has exactly `n` entries, in file order, entry `i` being that line's field (with the documented unit
  attribute), the per-file constants come from the first record, and nothing else appears.  (Induction over `n`.)
* `header_attrs`   — the header-derived attributes (interleaving, valid range `[0, max]`, burst counts, overlap lines) are
  present exactly when the header field is non-blank, with its value — all 32 blank/filled combinations.
* `field_positions`— the image descriptor and both line-record layouts place every live field at the documented offset with
  the documented width, scale factor (1e-6 / 1e-3), unit attribute and code table (golden tables).
* `line_times`     — the ms and µs line stamps are exact instants with day-of-year 1 = 1 January (C17).
-/
import Alos2.Proofs.Lines
import Alos2.Proofs.Fields
import Alos2.Proofs.Calendar

namespace Alos2.C03

theorem line_metadata_15 (n : Nat) (hn : 0 < n) (ctx : Ctx) (bs : Bytes) (pos : Nat) (v : Val) (pos' : Nat)
    (h : parse (.array (.const n) Gen.processedDataRecord) ctx bs pos = .ok (v, pos')) :
    ∃ recs, v = .list recs ∧ recs.length = n ∧
      (transformLineMetadata (Val.toPVal.toPVals recs)).sortKeys =
        (Spec.lineTree Spec.lineVars15 Spec.lineAttrs15 n).map (Sym.eval v) :=
  line_metadata_provenance_15 n hn ctx bs pos v pos' h

theorem line_metadata_11 (n : Nat) (hn : 0 < n) (ctx : Ctx) (bs : Bytes) (pos : Nat) (v : Val) (pos' : Nat)
    (h : parse (.array (.const n) Gen.signalDataRecord) ctx bs pos = .ok (v, pos')) :
    ∃ recs, v = .list recs ∧ recs.length = n ∧
      (transformLineMetadata (Val.toPVal.toPVals recs)).sortKeys =
        (Spec.lineTree Spec.lineVars11 Spec.lineAttrs11 n).map (Sym.eval v) :=
  line_metadata_provenance_11 n hn ctx bs pos v pos' h

theorem header_attrs (ctx : Ctx) (bs : Bytes) (pos : Nat) (v : Val) (pos' : Nat)
    (h : parse Gen.imageFileDescriptor ctx bs pos = .ok (v, pos')) :
    (extractAttrs realLeafFns v.toPVal).map sortByKey =
      some ((PVal.mapKvs (Sym.eval v) Spec.headerAttrs).filter (fun kv => headerAttrPresent v kv.1)) :=
  header_attrs_provenance ctx bs pos v pos' h

theorem field_positions :
    Con.fieldTable Gen.imageFileDescriptor = some Spec.imageFileDescriptorFields ∧
    Con.fieldTable Gen.signalDataRecord = some Spec.signalDataRecordFields ∧
    Con.fieldTable Gen.processedDataRecord = some Spec.processedDataRecordFields :=
  ⟨field_tables.2.1, field_tables.2.2.1, field_tables.2.2.2.1⟩

theorem line_times (y doy ms us : Nat) (hy : 2014 ≤ y ∧ y ≤ 2049) (hd : 1 ≤ doy ∧ doy ≤ 366) (hm : ms < 86400000)
    (hu : us < 86400000000) :
    lineTimeNs y doy ms = .ok (instantNs y doy (ms * 1000000)) ∧ lineTimeUsNs y doy ms us = .ok (instantNs y doy (us * 1000)) :=
  ⟨lineTime_eq y doy ms hy hd hm, lineTimeUs_eq y doy ms us hy hd hm hu⟩

theorem pipeline_shape :
    Gen.Config.sar_image__transform_line_metadata.steps =
      ["curry(starcall, curry(merge_with, list))", "curry(remove_spares)", "curry(dissoc, ignored)", "curry(flatten_nested)",
       "curry(valmap, compose_left(separate_attrs, curry(cons, 'rows'), tuple))", "curry(deduplicate_attrs, known_attrs)",
       "curry(apply_overrides, dtype_overrides)", "curry(rename, translations=translations)", "curry(as_group)"] := by decide

/-- non-vacuity: the documented level-1.5 group has 25 per-line coordinates and 8 per-file constants (level 1.1: 39 and 10) -/
example : Spec.lineVars15.length = 25 ∧ Spec.lineAttrs15.length = 8 ∧ Spec.lineVars11.length = 39 ∧ Spec.lineAttrs11.length = 10 := by decide

end Alos2.C03

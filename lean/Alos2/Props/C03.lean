/-
C03 — Per-line and header image metadata equal what each file record encodes.

* `line_metadata_15` / `line_metadata_11` — for ANY number `n ≥ 1` of line records (parsed by `Array(n, record)`), for EVERY
  file content: the image group built by `transform_line_metadata` is the frozen documented group — every per-line
  coordinate has exactly `n` entries, in file order, entry `i` being that line's field (with the documented unit
  attribute), the per-file constants come from the first record, and nothing else appears.  (Induction over `n`.)
* `header_attrs`   — the header-derived attributes (interleaving, valid range `[0, max]`, burst counts, overlap lines) are
  present exactly when the header field is non-blank, with its value — all 32 blank/filled combinations.
* `field_positions`— the image descriptor and both line-record layouts place every live field at the documented offset with
  the documented width, scale factor (1e-6 / 1e-3), unit attribute and code table (golden tables).
* `line_times`     — the ms and µs line stamps are exact instants with day-of-year 1 = 1 January (C17).
-/
import Alos2.Proofs.Lines
import Alos2.Proofs.Fields
import Alos2.Proofs.Calendar
import Alos2.Proofs.ImageOpen

namespace Alos2.C03

theorem line_metadata_15 (n : Nat) (hn : 0 < n) (ctx : Ctx) (bs : Bytes) (pos : Nat) (v : Val) (pos' : Nat)
    (h : parse (.array (.const n) Gen.processedDataRecord) ctx bs pos = .ok (v, pos')) :
    ∃ recs, v = .list recs ∧ recs.length = n ∧
      (transformLineMetadata (Val.toPVal.toPVals recs)).sortKeys =
        (Spec.lineTree Spec.lineVars15 Spec.lineAttrs15 n).map (Sym.eval v) :=
  line_metadata_provenance_15 n hn ctx bs pos v pos' h

theorem line_metadata_11 (n : Nat) (hn : 0 < n) (ctx : Ctx) (bs : Bytes) (pos : Nat) (v : Val) (pos' : Nat)
    (h : parse (.array (.const n) Gen.signalDataRecord) ctx bs pos = .ok (v, pos')) :
    ∃ recs, v = .list recs ∧ recs.length = n ∧
      (transformLineMetadata (Val.toPVal.toPVals recs)).sortKeys =
        (Spec.lineTree Spec.lineVars11 Spec.lineAttrs11 n).map (Sym.eval v) :=
  line_metadata_provenance_11 n hn ctx bs pos v pos' h

theorem header_attrs (ctx : Ctx) (bs : Bytes) (pos : Nat) (v : Val) (pos' : Nat)
    (h : parse Gen.imageFileDescriptor ctx bs pos = .ok (v, pos')) :
    (extractAttrs realLeafFns v.toPVal).map sortByKey =
      some ((PVal.mapKvs (Sym.eval v) Spec.headerAttrs).filter (fun kv => headerAttrPresent v kv.1)) :=
  header_attrs_provenance ctx bs pos v pos' h

theorem field_positions :
    Con.fieldTable Gen.imageFileDescriptor = some Spec.imageFileDescriptorFields ∧
    Con.fieldTable Gen.signalDataRecord = some Spec.signalDataRecordFields ∧
    Con.fieldTable Gen.processedDataRecord = some Spec.processedDataRecordFields :=
  ⟨field_tables.2.1, field_tables.2.2.1, field_tables.2.2.2.1⟩

theorem line_times (y doy ms us : Nat) (hy : 2014 ≤ y ∧ y ≤ 2049) (hd : 1 ≤ doy ∧ doy ≤ 366) (hm : ms < 86400000)
    (hu : us < 86400000000) :
    lineTimeNs y doy ms = .ok (instantNs y doy (ms * 1000000)) ∧ lineTimeUsNs y doy ms us = .ok (instantNs y doy (us * 1000)) :=
  ⟨lineTime_eq y doy ms hy hd hm, lineTimeUs_eq y doy ms us hy hd hm hu⟩

theorem pipeline_shape :
    Gen.Config.sar_image__transform_line_metadata.steps =
      ["curry(starcall, curry(merge_with, list))", "curry(remove_spares)", "curry(dissoc, ignored)", "curry(flatten_nested)",
       "curry(valmap, compose_left(separate_attrs, curry(cons, 'rows'), tuple))", "curry(deduplicate_attrs, known_attrs)",
       "curry(apply_overrides, dtype_overrides)", "curry(rename, translations=translations)", "curry(as_group)"] := by decide

/-- non-vacuity: the documented level-1.5 group has 25 per-line coordinates and 8 per-file constants (level 1.1: 39 and 10) -/
example : Spec.lineVars15.length = 25 ∧ Spec.lineAttrs15.length = 8 ∧ Spec.lineVars11.length = 39 ∧ Spec.lineAttrs11.length = 10 := by decide

/-- THE IMAGE GROUP AS THE READER BUILDS IT (`open_image` without caches: descriptor, line records chunk by chunk through the
    layout interpreter, offsets rebased, `transform_metadata`): whenever the open succeeds on a file whose n ≥ 1 line records
    are of the processed-data kind (level 1.5 / 3.1; resp. the signal-data kind, level 1.1), the group's per-line variables hold
    one entry per record in file order and the per-file constants come from the first record (`Spec.lineTree`), the optional
    header attributes are present exactly when their header field is non-blank, `coordinates` lists the variables — for every
    file content and every `records_per_chunk` -/
theorem image_group (file : Bytes) (name : String) (rpc : Nat) (gname : String) (g : ImageGroup)
    (h : openImageFile file name rpc = .ok (gname, g)) (header : Val) (recs : List Val)
    (hr : readImageRecords file rpc = .ok (header, recs)) (hn : 0 < recs.length) :
    ((∀ r ∈ recs, IsLineRecord Gen.processedDataRecord r) →
      ∃ (vars : List (String × GVar Leaf)) (attrs : KVs Leaf) (hattrs : KVs Leaf),
        g.group = .mk vars [] (kvUnion attrs (kvUnion hattrs [("coordinates", .list (vars.map (fun kv => .cstr kv.1)))])) ∧
        (Grp.mk vars [] attrs).sortKeys =
          (Spec.lineTree Spec.lineVars15 Spec.lineAttrs15 recs.length).map (Sym.eval (.list recs)) ∧
        sortByKey hattrs = (PVal.mapKvs (Sym.eval header) Spec.headerAttrs).filter (fun kv => headerAttrPresent header kv.1)) ∧
    ((∀ r ∈ recs, IsLineRecord Gen.signalDataRecord r) →
      ∃ (vars : List (String × GVar Leaf)) (attrs : KVs Leaf) (hattrs : KVs Leaf),
        g.group = .mk vars [] (kvUnion attrs (kvUnion hattrs [("coordinates", .list (vars.map (fun kv => .cstr kv.1)))])) ∧
        (Grp.mk vars [] attrs).sortKeys =
          (Spec.lineTree Spec.lineVars11 Spec.lineAttrs11 recs.length).map (Sym.eval (.list recs)) ∧
        sortByKey hattrs = (PVal.mapKvs (Sym.eval header) Spec.headerAttrs).filter (fun kv => headerAttrPresent header kv.1)) :=
  ⟨openImageFile_group_15 file name rpc gname g h header recs hr hn, openImageFile_group_11 file name rpc gname g h header recs hr hn⟩

/-- every record the reader returns is a parse of one of the two line layouts (addresses rebased), and what the lazy array
    receives (byte ranges, shape, type code, dtype) is read off those records and the header -/
theorem image_array (file : Bytes) (name : String) (rpc : Nat) (gname : String) (g : ImageGroup)
    (h : openImageFile file name rpc = .ok (gname, g)) :
    ∃ (header : Val) (recs : List Val),
      parseRecord Gen.imageFileDescriptor (file.take 720) = .ok header ∧
      readImageRecords file rpc = .ok (header, recs) ∧
      groupName name = .ok gname ∧
      g.array.rpc = rpc ∧
      header.getPath ["prefix_suffix_data_locators", "sar_data_format_type_code"] = some (.leaf (.str g.array.typeCode)) ∧
      intAt header ["sar_related_data_in_the_record", "number_of_lines_per_dataset"] = .ok g.array.shape.1 ∧
      intAt header ["sar_related_data_in_the_record", "number_of_data_groups_per_line"] = .ok g.array.shape.2 ∧
      (Gen.dtypes.find? (fun d => d.1 = g.array.typeCode)).map (fun d => d.2.1) = some g.array.dtype ∧
      recs.mapM (fun r => do
        let a ← intAt r ["data", "start"]
        let b ← intAt r ["data", "stop"]
        pure (a, b)) = .ok g.array.byteRanges ∧
      (∀ r ∈ recs, IsLineRecord Gen.signalDataRecord r ∨ IsLineRecord Gen.processedDataRecord r) :=
  openImageFile_array file name rpc gname g h

end Alos2.C03

/-
C03 — Per-line and header image metadata equal what each file record encodes.

* `line_metadata_15` / `line_metadata_11` — for ANY number `n ≥ 1` of line records (parsed by `Array(n, record)`), for EVERY
  file content: the image group built by `transform_line_metadata` is the frozen documented group — every per-line
  coordinate has exactly `n` entries, in file order, entry `i` being that line's field (with the documented unit
  attribute), the per-file constants come from the first record, and nothing else appears.  (Induction over `n`.)
* `header_attrs`   — the header-derived attributes (interleaving, valid range `[0, max]`, burst counts, overlap lines) are
  present exactly when the header field is non-blank, with its value — all 32 blank/filled combinations.
* `field_positions`— the image descriptor and both line-record layouts place every live field at the documented offset with
  the documented width, scale factor (1e-6 / 1e-3), unit attribute and code table (golden tables).
* `line_times`     — the ms and µs line stamps are exact instants with day-of-year 1 = 1 January (C17).
-/
import Alos2.Proofs.Lines
import Alos2.Proofs.Fields
import Alos2.Proofs.Calendar
import Alos2.Proofs.ImageOpen

namespace Alos2.C03

theorem line_metadata_15 (n : Nat) (hn : 0 < n) (ctx : Ctx) (bs : Bytes) (pos : Nat) (v : Val) (pos' : Nat)
    (h : parse (.array (.const n) Gen.processedDataRecord) ctx bs pos = .ok (v, pos')) :
    ∃ recs, v = .list recs ∧ recs.length = n ∧
      (transformLineMetadata (Val.toPVal.toPVals recs)).sortKeys =
        (Spec.lineTree Spec.lineVars15 Spec.lineAttrs15 n).map (Sym.eval v) :=
  line_metadata_provenance_15 n hn ctx bs pos v pos' h

theorem line_metadata_11 (n : Nat) (hn : 0 < n) (ctx : Ctx) (bs : Bytes) (pos : Nat) (v : Val) (pos' : Nat)
    (h : parse (.array (.const n) Gen.signalDataRecord) ctx bs pos = .ok (v, pos')) :
    ∃ recs, v = .list recs ∧ recs.length = n ∧
      (transformLineMetadata (Val.toPVal.toPVals recs)).sortKeys =
        (Spec.lineTree Spec.lineVars11 Spec.lineAttrs11 n).map (Sym.eval v) :=
  line_metadata_provenance_11 n hn ctx bs pos v pos' h

theorem header_attrs (ctx : Ctx) (bs : Bytes) (pos : Nat) (v : Val) (pos' : Nat)
    (h : parse Gen.imageFileDescriptor ctx bs pos = .ok (v, pos')) :
    (extractAttrs realLeafFns v.toPVal).map sortByKey =
      some ((PVal.mapKvs (Sym.eval v) Spec.headerAttrs).filter (fun kv => headerAttrPresent v kv.1)) :=
  header_attrs_provenance ctx bs pos v pos' h

theorem field_positions :
    Con.fieldTable Gen.imageFileDescriptor = some Spec.imageFileDescriptorFields ∧
    Con.fieldTable Gen.signalDataRecord = some Spec.signalDataRecordFields ∧
    Con.fieldTable Gen.processedDataRecord = some Spec.processedDataRecordFields :=
  ⟨field_tables.2.1, field_tables.2.2.1, field_tables.2.2.2.1⟩

theorem line_times (y doy ms us : Nat) (hy : 2014 ≤ y ∧ y ≤ 2049) (hd : 1 ≤ doy ∧ doy ≤ 366) (hm : ms < 86400000)
    (hu : us < 86400000000) :
    lineTimeNs y doy ms = .ok (instantNs y doy (ms * 1000000)) ∧ lineTimeUsNs y doy ms us = .ok (instantNs y doy (us * 1000)) :=
  ⟨lineTime_eq y doy ms hy hd hm, lineTimeUs_eq y doy ms us hy hd hm hu⟩

theorem pipeline_shape :
    Gen.Config.sar_image__transform_line_metadata.steps =
      ["curry(starcall, curry(merge_with, list))", "curry(remove_spares)", "curry(dissoc, ignored)", "curry(flatten_nested)",
       "curry(valmap, compose_left(separate_attrs, curry(cons, 'rows'), tuple))", "curry(deduplicate_attrs, known_attrs)",
       "curry(apply_overrides, dtype_overrides)", "curry(rename, translations=translations)", "curry(as_group)"] := by decide

/-- non-vacuity: the documented level-1.5 group has 25 per-line coordinates and 8 per-file constants (level 1.1: 39 and 10) -/
example : Spec.lineVars15.length = 25 ∧ Spec.lineAttrs15.length = 8 ∧ Spec.lineVars11.length = 39 ∧ Spec.lineAttrs11.length = 10 := by decide

/-- THE IMAGE GROUP AS THE READER BUILDS IT (`open_image` without caches: descriptor, line records chunk by chunk through the
    layout interpreter, offsets rebased, `transform_metadata`): whenever the open succeeds on a file whose n ≥ 1 line records
    are of the processed-data kind (level 1.5 / 3.1; resp. the signal-data kind, level 1.1), the group's per-line variables hold
    one entry per record in file order and the per-file constants come from the first record (`Spec.lineTree`), the optional
    header attributes are present exactly when their header field is non-blank, `coordinates` lists the variables — for every
    file content and every `records_per_chunk` -/
theorem image_group (file : Bytes) (name : String) (rpc : Nat) (gname : String) (g : ImageGroup)
    (h : openImageFile file name rpc = .ok (gname, g)) (header : Val) (recs : List Val)
    (hr : readImageRecords file rpc = .ok (header, recs)) (hn : 0 < recs.length) :
    ((∀ r ∈ recs, IsLineRecord Gen.processedDataRecord r) →
      ∃ (vars : List (String × GVar Leaf)) (attrs : KVs Leaf) (hattrs : KVs Leaf),
        g.group = .mk vars [] (kvUnion attrs (kvUnion hattrs [("coordinates", .list (vars.map (fun kv => .cstr kv.1)))])) ∧
        (Grp.mk vars [] attrs).sortKeys =
          (Spec.lineTree Spec.lineVars15 Spec.lineAttrs15 recs.length).map (Sym.eval (.list recs)) ∧
        sortByKey hattrs = (PVal.mapKvs (Sym.eval header) Spec.headerAttrs).filter (fun kv => headerAttrPresent header kv.1)) ∧
    ((∀ r ∈ recs, IsLineRecord Gen.signalDataRecord r) →
      ∃ (vars : List (String × GVar Leaf)) (attrs : KVs Leaf) (hattrs : KVs Leaf),
        g.group = .mk vars [] (kvUnion attrs (kvUnion hattrs [("coordinates", .list (vars.map (fun kv => .cstr kv.1)))])) ∧
        (Grp.mk vars [] attrs).sortKeys =
          (Spec.lineTree Spec.lineVars11 Spec.lineAttrs11 recs.length).map (Sym.eval (.list recs)) ∧
        sortByKey hattrs = (PVal.mapKvs (Sym.eval header) Spec.headerAttrs).filter (fun kv => headerAttrPresent header kv.1)) :=
  ⟨openImageFile_group_15 file name rpc gname g h header recs hr hn, openImageFile_group_11 file name rpc gname g h header recs hr hn⟩

/-- every record the reader returns is a parse of one of the two line layouts (addresses rebased), and what the lazy array
    receives (byte ranges, shape, type code, dtype) is read off those records and the header -/
theorem image_array (file : Bytes) (name : String) (rpc : Nat) (gname : String) (g : ImageGroup)
    (h : openImageFile file name rpc = .ok (gname, g)) :
    ∃ (header : Val) (recs : List Val),
      parseRecord Gen.imageFileDescriptor (file.take 720) = .ok header ∧
      readImageRecords file rpc = .ok (header, recs) ∧
      groupName name = .ok gname ∧
      g.array.rpc = rpc ∧
      header.getPath ["prefix_suffix_data_locators", "sar_data_format_type_code"] = some (.leaf (.str g.array.typeCode)) ∧
      intAt header ["sar_related_data_in_the_record", "number_of_lines_per_dataset"] = .ok g.array.shape.1 ∧
      intAt header ["sar_related_data_in_the_record", "number_of_data_groups_per_line"] = .ok g.array.shape.2 ∧
      (Gen.dtypes.find? (fun d => d.1 = g.array.typeCode)).map (fun d => d.2.1) = some g.array.dtype ∧
      recs.mapM (fun r => do
        let a ← intAt r ["data", "start"]
        let b ← intAt r ["data", "stop"]
        pure (a, b)) = .ok g.array.byteRanges ∧
      (∀ r ∈ recs, IsLineRecord Gen.signalDataRecord r ∨ IsLineRecord Gen.processedDataRecord r) :=
  openImageFile_array file name rpc gname g h

/-- non-vacuity of `image_group` / `image_array` (and of C01 `layout_ranges`): a complete two-line level-1.5 image file (720-byte
    descriptor + two 194-byte processed-data records, written by the independent synthesiser) opens in the model, with the byte
    ranges of the two one-pixel lines at [912, 914) and [1106, 1108) -/
def witnessImage : Bytes := [38, 158, 13, 55, 37, 48, 29, 109, 0, 0, 2, 208, 86, 41, 40, 105, 113, 107, 40, 106, 107, 83, 39, 61, 38, 104, 50, 32, 106, 32, 46, 32, 124, 41, 105, 40, 112, 59, 96, 120, 101, 32, 32, 32, 53, 57, 50, 52, 122, 64, 43, 106, 71, 100, 32, 32, 32, 32, 32, 32, 32, 32, 32, 32, 69, 110, 42, 48, 53, 54, 53, 57, 57, 51, 57, 53, 48, 32, 32, 32, 109, 96, 107, 32, 32, 32, 32, 32, 32, 32, 32, 48, 52, 54, 54, 50, 32, 35, 92, 78, 52, 55, 48, 57, 32, 32, 32, 32, 32, 32, 53, 55, 123, 62, 62, 66, 32, 32, 32, 32, 32, 32, 32, 32, 32, 32, 101, 80, 111, 105, 73, 49, 121, 98, 112, 116, 119, 32, 39, 91, 120, 104, 83, 83, 84, 83, 46, 94, 114, 84, 40, 57, 41, 59, 89, 53, 47, 76, 109, 39, 46, 33, 105, 52, 101, 45, 79, 111, 36, 42, 59, 111, 81, 52, 114, 65, 77, 110, 79, 93, 32, 32, 32, 32, 32, 50, 32, 32, 32, 49, 57, 52, 32, 32, 32, 32, 32, 32, 32, 32, 92, 94, 94, 72, 43, 51, 46, 32, 76, 32, 66, 94, 121, 53, 99, 35, 48, 48, 56, 56, 32, 53, 51, 48, 32, 54, 53, 49, 62, 58, 99, 32, 43, 48, 32, 32, 32, 32, 32, 32, 32, 32, 32, 50, 57, 57, 57, 57, 32, 32, 32, 32, 32, 32, 32, 49, 32, 57, 55, 55, 57, 57, 57, 56, 32, 32, 32, 49, 88, 114, 32, 32, 53, 57, 32, 48, 32, 55, 56, 32, 32, 32, 32, 32, 32, 32, 32, 48, 51, 49, 57, 49, 32, 32, 70, 97, 66, 102, 86, 49, 40, 32, 32, 32, 97, 49, 101, 52, 100, 98, 35, 32, 32, 32, 32, 32, 32, 32, 32, 52, 104, 40, 32, 32, 32, 32, 32, 32, 46, 104, 40, 64, 57, 68, 38, 45, 89, 32, 32, 32, 32, 32, 32, 32, 32, 32, 32, 32, 32, 32, 32, 110, 98, 58, 121, 68, 90, 98, 101, 94, 97, 64, 122, 99, 66, 104, 58, 90, 32, 89, 73, 42, 118, 63, 87, 42, 32, 32, 32, 32, 32, 52, 124, 32, 50, 92, 61, 32, 45, 32, 32, 32, 32, 32, 32, 118, 61, 53, 32, 32, 76, 86, 58, 78, 73, 44, 125, 79, 35, 76, 103, 91, 89, 32, 32, 32, 32, 32, 32, 32, 32, 32, 32, 32, 32, 32, 32, 32, 73, 85, 50, 32, 32, 53, 50, 52, 45, 57, 57, 57, 57, 57, 57, 57, 57, 57, 57, 57, 32, 52, 49, 53, 43, 48, 32, 32, 48, 32, 32, 32, 32, 32, 32, 32, 32, 32, 32, 32, 32, 32, 32, 32, 32, 32, 32, 32, 32, 32, 32, 32, 32, 32, 32, 32, 32, 32, 32, 32, 32, 32, 32, 32, 32, 32, 32, 32, 32, 32, 32, 32, 32, 32, 32, 32, 32, 32, 32, 32, 32, 32, 32, 32, 32, 32, 32, 32, 32, 32, 32, 32, 32, 32, 32, 32, 32, 32, 32, 32, 32, 32, 32, 32, 32, 32, 32, 32, 32, 32, 32, 32, 32, 32, 32, 32, 32, 32, 32, 32, 32, 32, 32, 32, 32, 32, 32, 32, 32, 32, 32, 32, 32, 32, 32, 32, 32, 32, 32, 32, 32, 32, 32, 32, 32, 32, 32, 32, 32, 32, 32, 32, 32, 32, 32, 32, 32, 32, 32, 32, 32, 32, 32, 32, 32, 32, 32, 32, 32, 32, 32, 32, 32, 32, 32, 32, 32, 32, 41, 66, 48, 91, 34, 76, 103, 86, 67, 112, 49, 38, 100, 123, 63, 47, 53, 66, 39, 56, 58, 72, 113, 72, 100, 59, 70, 90, 97, 119, 55, 67, 77, 35, 65, 37, 34, 35, 126, 97, 103, 57, 98, 93, 64, 90, 46, 117, 116, 88, 117, 96, 102, 83, 97, 72, 121, 60, 62, 76, 58, 123, 126, 114, 50, 84, 77, 39, 49, 34, 42, 113, 32, 65, 88, 53, 40, 43, 118, 81, 97, 118, 69, 109, 64, 121, 70, 38, 91, 56, 53, 67, 90, 33, 66, 79, 75, 103, 74, 64, 37, 72, 60, 78, 56, 33, 75, 81, 43, 93, 68, 97, 116, 58, 59, 153, 104, 112, 79, 11, 199, 253, 0, 0, 0, 194, 255, 255, 255, 255, 1, 68, 112, 43, 164, 170, 7, 180, 0, 0, 0, 0, 160, 152, 214, 145, 22, 250, 20, 33, 0, 0, 7, 254, 0, 0, 1, 109, 4, 8, 243, 176, 0, 1, 0, 4, 0, 0, 0, 0, 255, 255, 255, 255, 10, 170, 175, 129, 26, 219, 206, 93, 142, 251, 164, 66, 174, 64, 1, 227, 0, 217, 53, 52, 137, 2, 218, 252, 188, 158, 40, 234, 67, 251, 159, 188, 52, 137, 34, 215, 249, 201, 198, 121, 97, 239, 123, 209, 175, 6, 188, 247, 196, 11, 157, 161, 164, 50, 19, 153, 37, 84, 65, 166, 190, 177, 77, 159, 145, 34, 3, 123, 5, 194, 45, 63, 0, 0, 0, 0, 172, 8, 75, 165, 172, 251, 45, 94, 132, 59, 174, 233, 51, 2, 12, 205, 239, 174, 93, 78, 0, 0, 0, 0, 117, 19, 209, 129, 68, 198, 184, 149, 53, 241, 3, 0, 148, 23, 36, 191, 243, 230, 202, 115, 255, 255, 255, 255, 209, 161, 130, 71, 227, 28, 180, 93, 1, 0, 40, 184, 128, 115, 230, 11, 72, 192, 0, 0, 0, 194, 215, 25, 97, 137, 1, 68, 112, 43, 0, 0, 0, 0, 214, 207, 247, 24, 255, 255, 255, 255, 22, 250, 20, 33, 0, 0, 7, 234, 0, 0, 0, 7, 5, 38, 91, 255, 0, 1, 0, 4, 0, 0, 0, 0, 100, 149, 13, 194, 10, 170, 175, 129, 150, 212, 72, 15, 12, 91, 76, 89, 255, 255, 255, 255, 239, 130, 209, 163, 68, 6, 192, 83, 244, 199, 63, 43, 161, 130, 99, 39, 140, 154, 55, 81, 187, 123, 115, 142, 192, 174, 217, 197, 73, 68, 242, 206, 12, 233, 237, 140, 32, 43, 120, 106, 87, 72, 76, 65, 189, 189, 249, 167, 66, 103, 167, 61, 5, 194, 45, 63, 100, 245, 73, 105, 255, 255, 255, 255, 255, 255, 255, 255, 56, 83, 147, 61, 115, 48, 155, 149, 255, 255, 255, 255, 255, 255, 255, 255, 23, 44, 87, 142, 0, 0, 0, 0, 145, 210, 119, 242, 227, 5, 191, 222, 134, 47, 226, 49, 15, 227, 33, 236, 71, 147, 247, 92, 32, 175, 128, 135, 220, 228]

set_option maxRecDepth 100000 in
example : (openImageFile witnessImage "IMG-HH-ALOS2290760600-191011-WWDR1.5RUA" 1).toOption.map
    (fun r => (r.1, r.2.array.byteRanges, r.2.array.shape, r.2.array.typeCode)) =
    some ("HH", [(912, 914), (1106, 1108)], (2, 1), "IU2") := by decide +kernel

end Alos2.C03

/-
C12 — Well-typed tree: declared shape/dtype match loaded data, no opaque objects.

* `documented_trees_well_typed` — in the documented trees (which the real outputs are instances of, for every file content:
  C03 / C04 / C16 provenance theorems) every variable holds a leaf or a (nested) list of leaves — never a dict, never an
  internal `(value, attrs)` pair — and every attribute is a scalar / string / nested list or tuple of those;
  `image_group_well_typed` — the same for the image group with ANY number of lines; `metadata_well_typed` /
  `leader_trees_well_typed` — the same for the whole `/metadata` tree (any counts, any designator class); `typing_is_shape_only` — the predicate
  depends only on the shape, so it transfers from the symbolic tree to every concrete output.
* `declared_shape` — the lazily wrapped image advertises `(n, m)`: loading everything returns exactly `n` rows of `m` samples
  (C01 `pixel_fidelity`), and every basic selection has NumPy's shape (C02).
* `real_dtypes`    — the dtype tables of the source name real NumPy dtypes of the right item size, and the wrapper converts
  whatever the array carries with `np.dtype(...)` (re-read from the source: the pinned tree advertised a `str`).
-/
import Alos2.Proofs.Typing
import Alos2.Proofs.Typing2
import Alos2.Proofs.Geometry
import Alos2.Gen.Consts

namespace Alos2.C12

theorem documented_trees_well_typed :
    Spec.datasetSummary.wellTyped = true ∧ Spec.radiometricData.wellTyped = true ∧ Spec.transformations.wellTyped = true ∧
    Spec.rootAttrs.all (fun kv => kv.2.plainAttr) = true ∧ Spec.headerAttrs.all (fun kv => kv.2.plainAttr) = true :=
  spec_trees_wellTyped

/-- the whole documented `/metadata` tree (which the real `/metadata` is an instance of for every leader file: C04 `metadata`)
    is well typed — for every number of attitude points and channels, every designator class, map projection present or not -/
theorem metadata_well_typed (hasMap : Bool) (d : Desig) (na nc : Nat) (G : Grp Sym)
    (h : Spec.metadata hasMap d na nc = some G) : G.wellTyped = true := metadata_wellTyped hasMap d na nc G h

theorem leader_trees_well_typed (n : Nat) :
    Spec.platformPosition.wellTyped = true ∧ Spec.mapProjectionUTM.wellTyped = true ∧ Spec.mapProjectionUPS.wellTyped = true ∧
    Spec.mapProjectionNAT.wellTyped = true ∧ Spec.mapProjectionOther.wellTyped = true ∧
    (Spec.attitude n).wellTyped = true ∧ (Spec.dataQualitySummary n).wellTyped = true :=
  ⟨spec_trees_wellTyped2.1, spec_trees_wellTyped2.2.1, spec_trees_wellTyped2.2.2.1, spec_trees_wellTyped2.2.2.2.1,
   spec_trees_wellTyped2.2.2.2.2, attitude_wellTyped n, dataQualitySummary_wellTyped n⟩

theorem image_group_well_typed (n : Nat) :
    (Spec.lineTree Spec.lineVars15 Spec.lineAttrs15 n).wellTyped = true ∧
    (Spec.lineTree Spec.lineVars11 Spec.lineAttrs11 n).wellTyped = true := lineTree_wellTyped n

theorem typing_is_shape_only {α β : Type} (f : α → β) (g : Grp α) :
    (g.map f).wellTyped = g.wellTyped ∧ g.sortKeys.wellTyped = g.wellTyped :=
  ⟨wellTyped_map f g, wellTyped_sortKeys g⟩

theorem declared_shape (g : Geometry) (file : Bytes) (hn : 0 < g.n) (hb : 0 < g.bpp)
    (hsize : headerSize + g.n * g.L ≤ file.length) (rpc : Nat) (hrpc : 0 < rpc) :
    ∃ rows : List (List Bytes),
      (getitem (g.image file rpc) (.slice none none none) (.slice none none none)).1 = .ok (.d2 g.m rows) ∧ rows.length = g.n := by
  obtain ⟨rows, h1, h2, _⟩ := Geometry.pixel_fidelity g file hn hb hsize rpc hrpc
  exact ⟨rows, h1, h2⟩

theorem real_dtypes :
    Gen.dtypes = [("C*8", "complex64", 8), ("IU2", "uint16", 2)] ∧ Gen.wrapperDtype = ["np.dtype(array.dtype)"] := by decide

end Alos2.C12

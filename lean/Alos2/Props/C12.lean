/-
C12 — Well-typed tree: declared shape/dtype match loaded data, no opaque objects.

* `documented_trees_well_typed` — in the documented trees (which the real outputs are instances of, for every file content:
  C03 / C04 / C16 provenance theorems) every variable holds a leaf or a (nested) list of leaves — never a dict, never an
  internal `(value, attrs)` pair — and every attribute is a scalar / string / nested list or tuple of those;
  `image_group_well_typed` — the same for the image group with ANY number of lines; `metadata_well_typed` /
  `leader_trees_well_typed` — the same for the whole `/metadata` tree (any counts, any designator class); `typing_is_shape_only` — the predicate
  depends only on the shape, so it transfers from the symbolic tree to every concrete output.
* `image_group_numpy_typed` — for EVERY image file that opens: each member of the image group is a variable holding the lazy pixel
  array or a 1-d non-empty NumPy array of a real dtype whose declared shape is its element count (through the bridge to the
  codec's / NumPy's view of the group, `Model/Bridge.lean`).
* `declared_shape` — the lazily wrapped image advertises `(n, m)`: loading everything returns exactly `n` rows of `m` samples
  (C01 `pixel_fidelity`), and every basic selection has NumPy's shape (C02).
* `real_dtypes`    — the dtype tables of the source name real NumPy dtypes of the right item size, and the wrapper converts
  whatever the array carries with `np.dtype(...)` (re-read from the source: the pinned tree advertised a `str`).
-/
import Alos2.Proofs.Typing
import Alos2.Proofs.Typing2
import Alos2.Proofs.Geometry
import Alos2.Gen.Consts
import Alos2.Proofs.BridgeTyped

namespace Alos2.C12

theorem documented_trees_well_typed :
    Spec.datasetSummary.wellTyped = true ∧ Spec.radiometricData.wellTyped = true ∧ Spec.transformations.wellTyped = true ∧
    Spec.rootAttrs.all (fun kv => kv.2.plainAttr) = true ∧ Spec.headerAttrs.all (fun kv => kv.2.plainAttr) = true :=
  spec_trees_wellTyped

/-- the whole documented `/metadata` tree (which the real `/metadata` is an instance of for every leader file: C04 `metadata`)
    is well typed — for every number of attitude points and channels, every designator class, map projection present or not -/
theorem metadata_well_typed (hasMap : Bool) (d : Desig) (na nc : Nat) (G : Grp Sym)
    (h : Spec.metadata hasMap d na nc = some G) : G.wellTyped = true := metadata_wellTyped hasMap d na nc G h

theorem leader_trees_well_typed (n : Nat) :
    Spec.platformPosition.wellTyped = true ∧ Spec.mapProjectionUTM.wellTyped = true ∧ Spec.mapProjectionUPS.wellTyped = true ∧
    Spec.mapProjectionNAT.wellTyped = true ∧ Spec.mapProjectionOther.wellTyped = true ∧
    (Spec.attitude n).wellTyped = true ∧ (Spec.dataQualitySummary n).wellTyped = true :=
  ⟨spec_trees_wellTyped2.1, spec_trees_wellTyped2.2.1, spec_trees_wellTyped2.2.2.1, spec_trees_wellTyped2.2.2.2.1,
   spec_trees_wellTyped2.2.2.2.2, attitude_wellTyped n, dataQualitySummary_wellTyped n⟩

theorem image_group_well_typed (n : Nat) :
    (Spec.lineTree Spec.lineVars15 Spec.lineAttrs15 n).wellTyped = true ∧
    (Spec.lineTree Spec.lineVars11 Spec.lineAttrs11 n).wellTyped = true := lineTree_wellTyped n

theorem typing_is_shape_only {α β : Type} (f : α → β) (g : Grp α) :
    (g.map f).wellTyped = g.wellTyped ∧ g.sortKeys.wellTyped = g.wellTyped :=
  ⟨wellTyped_map f g, wellTyped_sortKeys g⟩

theorem declared_shape (g : Geometry) (file : Bytes) (hn : 0 < g.n) (hb : 0 < g.bpp)
    (hsize : headerSize + g.n * g.L ≤ file.length) (rpc : Nat) (hrpc : 0 < rpc) :
    ∃ rows : List (List Bytes),
      (getitem (g.image file rpc) (.slice none none none) (.slice none none none)).1 = .ok (.d2 g.m rows) ∧ rows.length = g.n := by
  obtain ⟨rows, h1, h2, _⟩ := Geometry.pixel_fidelity g file hn hb hsize rpc hrpc
  exact ⟨rows, h1, h2⟩

/-- THE IMAGE GROUPS, for every image file: whenever the (layout-based) reader opens a file with at least one line record, all of
    one kind, and instants inside 1970 … 2262, the group as NumPy / the cache codec see it exists (`bridge_total`) and every
    member is a variable whose data is the lazy pixel array (`data` only) or a one-dimensional, non-empty NumPy array of a REAL
    dtype (`int64`, `float64`, `bool`, `datetime64[ns]`, `<U…`) whose declared shape is its number of elements — no object arrays,
    no `(value, attrs)` pairs, no dicts as data (NumPy's dtype inference for the per-line lists is modelled by `columnArray`,
    tied to the real `np.asarray` by H11) -/
theorem image_group_numpy_typed (fr : FloatRepr) (root : String) (file : Bytes) (name : String) (rpc : Nat)
    (gname : String) (g : ImageGroup)
    (h : openImageFile file name rpc = .ok (gname, g))
    (header : Val) (recs : List Val) (hr : readImageRecords file rpc = .ok (header, recs)) (hn : 0 < recs.length)
    (hk : (∀ r ∈ recs, IsLineRecord Gen.processedDataRecord r) ∨ (∀ r ∈ recs, IsLineRecord Gen.signalDataRecord r))
    (hd : DatesInRange g = true) :
    ∃ path url members attrs, bridge fr root name gname g = some (.mk path url members attrs) ∧
      ∀ k n, (k, n) ∈ members → ∃ v, n = .var v ∧
        ((k = "data" ∧ ∃ b, v.data = .backend b) ∨
         (∃ a, v.data = .nd a ∧ a.shape = [a.flat.length] ∧ 0 < a.flat.length ∧ realDtype a.dtype = true)) := by
  obtain ⟨cg, hb⟩ := bridge_total fr root file name rpc gname g h header recs hr hn hk hd
  cases cg with
  | mk path url members attrs =>
    exact ⟨path, url, members, attrs, hb, bridged_members_typed fr root name gname g path url members attrs hb⟩

theorem real_dtypes :
    Gen.dtypes = [("C*8", "complex64", 8), ("IU2", "uint16", 2)] ∧ Gen.wrapperDtype = ["np.dtype(array.dtype)"] := by decide

end Alos2.C12

/-
C11 — Reads are bounded and grouped: one request per touched chunk, none outside.

* `one_read_per_touched_chunk` — the I/O trace of any selection is `open`, then exactly one `seek`+`read`
  for each group of `records_per_chunk` lines that contains a selected line (no duplicates, none for
  untouched groups), then `close`; a failing key evaluation touches no file.
* `read_confined` — the bytes requested for a group start at the first sample byte of one of *its* lines and
  end at the end of one of *its* lines (so never reach into another group).
* `regular_read_bounds` — for a regular image geometry: group `c` is read as
  `[720 + c·rpc·L + P, 720 + min((c+1)·rpc, n)·L)`, which lies inside the file.
* `open_reads` — opening an image issues, after the 720-byte descriptor, a prefix of the planned sequential
  requests `chunkSizes n rpc` (in records): at most `⌈n / rpc⌉` of them, together covering exactly `n` records.
-/
import Alos2.Proofs.Geometry
import Alos2.Proofs.ReaderPixels

namespace Alos2.C11

theorem one_read_per_touched_chunk (img : Image) (k0 k1 : Idx) (rows : List Nat) (d : Bool)
    (h : selectAxis img.ranges.length k0 = .ok (rows, d)) :
    ∃ touched : List Nat, touched.Nodup ∧ (∀ c, c ∈ touched ↔ ∃ i ∈ rows, i / img.rpc = c) ∧
      (getitem img k0 k1).2 =
        [IOEvent.open_] ++ touched.flatMap (fun c =>
          [IOEvent.seek ((chunkRanges img.ranges img.rpc).getD c (0, 0)).1,
           IOEvent.read (((chunkRanges img.ranges img.rpc).getD c (0, 0)).2 - ((chunkRanges img.ranges img.rpc).getD c (0, 0)).1)])
        ++ [IOEvent.close] := by
  refine ⟨dedupKeys (rows.map (· / img.rpc)), dedupKeys_nodup _, ?_, getitem_trace img k0 k1 rows d h⟩
  intro c
  rw [mem_dedupKeys]
  simp [List.mem_map]

theorem no_io_on_bad_key (img : Image) (k0 k1 : Idx) (e : Err)
    (h : selectAxis img.ranges.length k0 = .error e) : (getitem img k0 k1).2 = [] :=
  getitem_trace_error img k0 k1 e h

theorem read_confined (img : Image) (hrpc : 0 < img.rpc) (c : Nat) (hc : c * img.rpc < img.ranges.length) :
    ∃ i j, i / img.rpc = c ∧ j / img.rpc = c ∧ i < img.ranges.length ∧ j < img.ranges.length ∧
      (chunkRanges img.ranges img.rpc).getD c (0, 0) = ((img.ranges.getD i (0, 0)).1, (img.ranges.getD j (0, 0)).2) :=
  chunkRanges_attained img.ranges img.rpc hrpc c hc

theorem regular_read_bounds (g : Geometry) (file : Bytes) (hsize : headerSize + g.n * g.L ≤ file.length)
    (rpc : Nat) (hrpc : 0 < rpc) (c : Nat) (hc : c * rpc < g.n) :
    (chunkRanges ((List.range g.n).map g.range) rpc).getD c (0, 0) =
      (headerSize + (c * rpc) * g.L + g.P, headerSize + (min ((c + 1) * rpc) g.n) * g.L) ∧
    headerSize + (min ((c + 1) * rpc) g.n) * g.L ≤ file.length := by
  refine ⟨Geometry.chunk_span g rpc hrpc c hc, ?_⟩
  have : min ((c + 1) * rpc) g.n * g.L ≤ g.n * g.L := Nat.mul_le_mul_right _ (Nat.min_le_right _ _)
  omega

/-- THE SAME BOUNDS FOR THE ARRAY THE READER BUILDS from an image file (layout-based reader): for a well-framed, self-consistent
    file the request for group c of `records_per_chunk` lines spans exactly the bytes from the first sample of line c·rpc to the
    end of the last line of the group, inside the file — so with `one_read_per_touched_chunk` every load reads one such span per
    touched group and nothing else -/
theorem reader_read_bounds (file : Bytes) (name : String) (rpc : Nat) (gname : String) (g : ImageGroup)
    (h : openImageFile file name rpc = .ok (gname, g))
    (header : Val) (recs : List Val) (hr : readImageRecords file rpc = .ok (header, recs))
    (hrpc : 0 < rpc) (hn : 0 < recs.length)
    (L : Nat) (hL : 0 < L) (hdrL : intAt header ["sar_data_record_length"] = .ok (L : Int))
    (hrl : ∀ r ∈ recs, intAt r ["preamble", "record_length"] = .ok (L : Int))
    (t : Nat) (ht : t = 10 ∨ t = 11) (hty : ∀ r ∈ recs, intAt r ["preamble", "record_type"] = .ok (t : Int))
    (m bpp : Nat) (dt : String)
    (hbpp : Gen.dtypes.find? (fun d => d.1 = g.array.typeCode) = some (g.array.typeCode, dt, bpp))
    (hshape : g.array.shape = (((recs.length : Nat) : Int), ((m : Nat) : Int)))
    (hLm : L = prefixOf t + m * bpp)
    (c : Nat) (hc : c * normalizeChunksize rpc recs.length < recs.length) :
    (imageOfMeta file g.array bpp).rpc = normalizeChunksize rpc recs.length ∧
    (chunkRanges (imageOfMeta file g.array bpp).ranges (imageOfMeta file g.array bpp).rpc).getD c (0, 0) =
      (720 + (c * normalizeChunksize rpc recs.length) * L + prefixOf t,
       720 + (min ((c + 1) * normalizeChunksize rpc recs.length) recs.length) * L) ∧
    720 + (min ((c + 1) * normalizeChunksize rpc recs.length) recs.length) * L ≤ file.length := by
  obtain ⟨himg, _, hsize⟩ := reader_image_is_regular file name rpc gname g h header recs hr hrpc hn L hL hdrL hrl t ht hty m bpp dt
    hbpp hshape hLm
  let g' : Geometry := { n := recs.length, m := m, bpp := bpp, P := prefixOf t, code := t }
  have hgL : g'.L = L := hLm.symm
  have hb := regular_read_bounds g' file (by rw [hgL]; exact hsize) (normalizeChunksize rpc recs.length)
    (normalizeChunksize_pos rpc recs.length hrpc hn) c hc
  rw [hgL] at hb
  rw [himg]
  exact ⟨rfl, hb.1, hb.2⟩

theorem open_reads (t : RecordTypes) (file : Bytes) (n L rpc : Nat) (hrpc : 0 < rpc) :
    (readMetadata t file n L rpc).2 <+: (chunkSizes n rpc).map (· * L) ∧
    (chunkSizes n rpc).length = (n + rpc - 1) / rpc ∧ (chunkSizes n rpc).sum = n :=
  ⟨readMetadata_reads_prefix t file n L rpc hrpc, chunkSizes_length n rpc hrpc, chunkSizes_sum n rpc hrpc⟩

/-- non-vacuity: loading lines 1..2 of the 3-line demo image with 2 lines per chunk touches both chunks -/
example : (getitem ⟨[9,9, 0,1,0,2, 9, 0,3,0,4, 9,9,9, 0,5,0,6], [(2,6),(7,11),(14,18)], 2, 2, 2⟩
            (.slice (some 1) none none) (.slice none none none)).2
          = [.open_, .seek 2, .read 9, .seek 14, .read 4, .close] := by decide

end Alos2.C11

/-
C19 — Concurrent reads are safe: parallel loads equal sequential loads.

Each load is the program `acquire(lock of its variable); open; (seek; read)*; close; release` on a PRIVATE handle over an
immutable file (`Model/Threads.lean`; the I/O part is the trace of `getitem`, tied to the real code by the event-sequence
correspondence of C11).

* `noninterference` — under EVERY interleaving of any number of loads (same variable, different variables, copies), at
  every moment each thread has read exactly what it would have read alone; a finished load returned its solo result.
* `no_deadlock`     — every thread holds at most its own variable's lock and never waits while holding it: in every
  reachable state with an unfinished load some thread can step; `completes`: some schedule finishes all loads.
* `handle_is_private`, `lock_per_variable` — the facts about the source the model rests on, re-read from the AST on every
  run: the only `open` of the array class is the `with self.fs.open(...)` inside `__getitem__`, `__getitem__` assigns nothing
  to `self`, the wrapper's raw access is `with self.lock: return self.array[key]`, and a fresh lock is created per variable.

Real thread schedules, the GIL and the lock implementation are sampled / enumerated at the filesystem yield points by the
harness (deterministic scheduler), not proved.
-/
import Alos2.Proofs.Threads
import Alos2.Gen.Consts

namespace Alos2.C19

theorem noninterference (s₀ : Sys) (hinit : ∀ t ∈ s₀.threads, t.st = {}) (σ : List Nat) :
    ∀ (i : Nat) (t : Thread), (runSched s₀ σ).threads[i]? = some t →
      ∃ t₀ : Thread, s₀.threads[i]? = some t₀ ∧ t.prog = t₀.prog ∧ t.file = t₀.file ∧ t.st.out = prefixOut t.file t.prog t.st.pc :=
  Alos2.noninterference s₀ hinit σ

theorem finished_equals_solo (s₀ : Sys) (hinit : ∀ t ∈ s₀.threads, t.st = {}) (σ : List Nat) (i : Nat) (t : Thread)
    (ht : (runSched s₀ σ).threads[i]? = some t) (hf : t.finished = true) : t.st.out = soloOut t.file t.prog :=
  Alos2.finished_equals_solo s₀ hinit σ i t ht hf

theorem no_deadlock (s₀ : Sys) (hinit : ∀ t ∈ s₀.threads, t.st = {}) (hown : s₀.owner = [])
    (hw : ∀ t ∈ s₀.threads, WellLocked t) (σ : List Nat) :
    (∃ t ∈ (runSched s₀ σ).threads, t.finished = false) → ∃ i, enabled (runSched s₀ σ) i = true :=
  Alos2.no_deadlock s₀ hinit hown hw σ

theorem completes (s₀ : Sys) (hinit : ∀ t ∈ s₀.threads, t.st = {}) (hown : s₀.owner = [])
    (hw : ∀ t ∈ s₀.threads, WellLocked t) :
    ∃ σ, ∀ t ∈ (runSched s₀ σ).threads, t.finished = true :=
  fair_schedule_completes s₀ hinit hown hw

theorem handle_is_private :
    Gen.getitemWithOpens = ["self.fs.open(self.url, mode='rb')"] ∧ Gen.getitemAllOpens = Gen.getitemWithOpens ∧
    Gen.getitemSelfAssigns = [] ∧ Gen.arrayOtherOpens = [] := by decide

theorem lock_per_variable :
    Gen.rawIndexingBody = ["with self.lock:\n    return self.array[key]"] ∧ Gen.lockCreation = ["lock = SerializableLock()"] := by decide

/-- non-vacuity: two loads of the same variable interleaved; the second blocks on the lock until the first releases -/
example :
    let f : Bytes := [1, 2, 3, 4, 5, 6]
    let s₀ : Sys := { threads := [⟨f, loadProgram 0 [.open_, .seek 0, .read 2, .close], {}⟩, ⟨f, loadProgram 0 [.open_, .seek 4, .read 2, .close], {}⟩] }
    ((runSched s₀ [0, 1, 0, 1, 0, 0, 0, 0, 1, 1, 1, 1, 1, 1]).threads.map (fun t => t.st.out)) = [[[1, 2]], [[5, 6]]] := by
  decide

end Alos2.C19

/-
C13 — Tree assembly: one correctly named group per image, none dropped or swapped.

* `imagery_children` — if the group names of the image files are pairwise distinct, `/imagery` has exactly one child per image,
  in summary order, each bound to its own file; `name_collision` shows what happens otherwise (an image is silently
  replaced) — which is why `group_name_injective` (names are injective on (polarisation, scan number)) matters.
* `roles_independent_of_line_order` — the volume-directory / leader / image / trailer roles depend only on the numbered
  `ProductFileNameNN` entries, not on where their lines stand in the summary (repaired code).
* `metadata_children` — for EVERY leader file that parses, `/metadata` has exactly the record groups present in the leader:
  attitude, data_quality_summary, dataset_summary, platform_position, radiometric_data, transformations, plus map_projection
  exactly when the file holds at least one map-projection record (and `C04.metadata` says what each contains).
* `product_tree` — the model of the whole `io.open` (tied to the real one by the whole-product correspondence H9): every
  successful open is assembled from exactly the documented pieces, none dropped or swapped.
* `coordinates_promoted` — the variables listed by the `coordinates` bookkeeping attribute become coordinates, `data` stays
  a data variable, the attribute is removed (name-level model of `to_dataset`, tied by correspondence H10).
* `root_children` — the root has exactly `summary`, `metadata`, `imagery`; root attributes: C16 `root_attrs`.

`DataTree.from_dict`, `Dataset.set_coords` (coordinate promotion) are xarray's: exercised end-to-end, not proved.
-/
import Alos2.Proofs.AssembleProofs
import Alos2.Proofs.Decode
import Alos2.Proofs.MetadataNames
import Alos2.Proofs.ProductOpen
import Alos2.Proofs.ToXarray
import Alos2.Proofs.ProductCached
import Alos2.Proofs.ProductCached2
import Alos2.Proofs.GroupNameChars

namespace Alos2.C13

theorem imagery_children (files : List String) (named : List (String × String))
    (h : files.mapM (fun f => (groupName f).map (fun g => (g, f))) = .ok named)
    (hd : (named.map Prod.fst).Nodup) : imageryChildren files = .ok named :=
  imagery_children_exact files named h hd

theorem name_collision :
    imageryChildren ["IMG-HH-ALOS2290760600-191011-WWDR1.5RUA-F1", "IMG-HH-ALOS2290760600-191011-WWDR1.5RUA-B1"] =
      .ok [("HH_scan1", "IMG-HH-ALOS2290760600-191011-WWDR1.5RUA-B1")] := imagery_children_collision

theorem group_names_injective (p₁ p₂ : String) (n₁ n₂ : Option Char)
    (hp₁ : p₁ ∈ ["HH", "HV", "VH", "VV"]) (hp₂ : p₂ ∈ ["HH", "HV", "VH", "VV"])
    (hn₁ : ∀ c, n₁ = some c → c.isDigit = true) (hn₂ : ∀ c, n₂ = some c → c.isDigit = true)
    (h : String.intercalate "_" ([some p₁, n₁.map (fun c => "scan" ++ String.singleton c)].filterMap id) =
         String.intercalate "_" ([some p₂, n₂.map (fun c => "scan" ++ String.singleton c)].filterMap id)) :
    p₁ = p₂ ∧ n₁ = n₂ := group_name_injective p₁ p₂ n₁ n₂ hp₁ hp₂ hn₁ hn₂ h

theorem roles_independent_of_line_order (e₁ e₂ : Section) (hp : e₁.Perm e₂) (hd : (e₁.map Prod.fst).Nodup) :
    fileRoles e₁ = fileRoles e₂ := fileRoles_perm e₁ e₂ hp hd

theorem metadata_children (bs : Bytes) (v : Val) (pos' : Nat)
    (h : parse Gen.sarLeaderRecord [] bs 0 = .ok (v, pos')) :
    ∃ k na nc : Nat,
      v.getPath ["file_descriptor", "map_projection", "number_of_records"] = some (.leaf (.int k)) ∧
      v.getPath ["attitude", "number_of_points"] = some (.leaf (.int na)) ∧
      v.getPath ["data_quality_summary", "number_of_channels"] = some (.leaf (.int nc)) ∧
      (0 < na → 0 < nc → ∀ g, (transformLeaderMetadata realLeafFns3 v.toPVal).map Grp.sortKeys = some g →
        g.groupNames = ["attitude", "data_quality_summary", "dataset_summary"] ++
          (if 0 < k then ["map_projection"] else []) ++ ["platform_position", "radiometric_data", "transformations"]) := by
  obtain ⟨k, na, nc, h1, h2, h3, hn⟩ := metadata_group_names bs v pos' h
  refine ⟨k, na, nc, h1, h2, h3, fun a b g hg => ?_⟩
  have := hn a b g hg
  simpa [metadataNames] using this

/-- THE WHOLE PRODUCT (`io.open` without caches, Model/Product.lean): whenever the open succeeds, the tree is assembled from
    exactly the documented pieces — summary groups from the parsed summary, file roles from its product-information section,
    root attributes = the documented volume-directory fields + the reference document, `/metadata` = `transform_metadata` of the
    parsed leader (C04 `metadata`: the documented tree), `/imagery` = every image file the summary names, opened by the image
    reader (C03 `image_group`, C01 `layout_ranges`), keyed by group name in summary order; with pairwise distinct group names
    no image is dropped or replaced -/
theorem product_tree (fs : Files) (rpc : Nat) (p : Product) (h : openProduct fs rpc = .ok p) :
    ∃ (sections : List (String × Section)) (pdi : Section) (vol led trl : String) (imgs : List String)
      (vb lb : Bytes) (vrec lrec : Val) (vpos lpos : Nat) (vattrs : KVs Leaf) (groups : List (String × ImageGroup)),
      transformSummary sections = .ok p.summary ∧
      (sections.find? (fun s => s.1 = "pdi")).map Prod.snd = some pdi ∧
      fileRoles pdi = .ok (vol, led, imgs, trl) ∧
      fs.get vol = some vb ∧ parse Gen.volumeDirectoryRecord [] vb 0 = .ok (vrec, vpos) ∧
      p.rootAttrs = kvUnion vattrs [("reference_document", .cstr referenceDocument)] ∧
      sortByKey vattrs = PVal.mapKvs (Sym.eval vrec) Spec.rootAttrs ∧
      fs.get led = some lb ∧ parse Gen.sarLeaderRecord [] lb 0 = .ok (lrec, lpos) ∧
      transformLeaderMetadata realLeafFns3 lrec.toPVal = some p.metadata ∧
      imgs.mapM (openNamed fs rpc) = .ok groups ∧
      p.imagery = groups.foldl (fun acc kv => assocSet acc kv.1 kv.2) [] ∧
      ((groups.map Prod.fst).Nodup → p.imagery = groups) :=
  openProduct_tree fs rpc p h

/-- coordinate promotion (`to_dataset` / `decode_coords` at the level of names; model tied by H10): for the image group as the
    reader builds it — attributes ∪ header attributes ∪ `coordinates` = the per-line variable names — plus the lazily loaded
    `data` variable, every per-line variable becomes a coordinate, `data` stays the only data variable, and the bookkeeping
    attribute is gone -/
theorem coordinates_promoted {α : Type} (vars : List String) (attrs hattrs : KVs α) (hd : "data" ∉ vars) (hnd : vars.Nodup) :
    ∃ rest, toDatasetNames (vars ++ ["data"]) (kvUnion attrs (kvUnion hattrs [("coordinates", .list (vars.map PVal.cstr))])) =
      some { dataVars := ["data"], coords := vars, attrs := rest } ∧ kvGet rest "coordinates" = none :=
  image_dataset_names vars attrs hattrs hd hnd

theorem root_children : rootChildren = ["summary", "metadata", "imagery"] := rfl

/-- non-vacuity: the hypotheses of `imagery_children` hold for two polarisations of one scene -/
example : (["IMG-HH-ALOS2290760600-191011-WWDR1.5RUA", "IMG-HV-ALOS2290760600-191011-WWDR1.5RUA"].mapM
    (fun f => (groupName f).map (fun g => (g, f)))) =
    .ok [("HH", "IMG-HH-ALOS2290760600-191011-WWDR1.5RUA"), ("HV", "IMG-HV-ALOS2290760600-191011-WWDR1.5RUA")] := by decide +kernel

/-- the whole-product model factors through its head (summary, volume directory, leader, image file names — what the cache-first
    model `Model/ProductCached.lean` shares with it) and one uncached open per image file, in the order of the summary -/
theorem product_factors (fs : Files) (rpc : Nat) :
    openProduct fs rpc = (do
      let (ra, su, me, imgs) ← openProductHead fs
      let groups ← imgs.mapM (fun name => match fs.get name with
        | some b => openImageFile b name rpc
        | none => throw Err.fnf)
      pure { rootAttrs := ra, summary := su, metadata := me,
             imagery := groups.foldl (fun acc kv => assocSet acc kv.1 kv.2) [] }) :=
  openProduct_eq_head fs rpc

/-- the image group name `filename_to_groupname` builds never contains '/' (so `Group.name` of a group with that path is the path
    itself, and `/imagery/<name>` has exactly one more level): a fuel induction over the backtracking matcher shows that every
    captured text consists of characters the regex's atoms accept, and no atom of the file-name / scan-info regexes accepts '/' -/
theorem group_name_has_no_slash (s : String) (g : String) (h : groupName s = .ok g) : '/' ∉ g.toList :=
  groupName_noslash s g h

/-- the CODEC-VIEW product (what the cache-first whole-product model `Model/ProductCached.lean` returns, and what C07 / C09 / C10
    `product_*` compare against) IS this product: if the whole-product model opens and every image group can be bridged
    (`bridge_total` for real files) — group names never contain '/' (`group_name_has_no_slash`: capture soundness of the regex
    matcher as far as needed) —, the uncached codec-view open succeeds with the same root
    attributes, summary, `/metadata`, and the same image groups under the same names in the same order -/
theorem codec_view_is_product (fr : FloatRepr) (root : String) (fs : Files) (rpc : Nat) (p : Product)
    (h : openProduct fs rpc = .ok p)
    (ra : KVs Leaf) (su : List (String × SGroup)) (me : Grp Leaf) (imgs : List String)
    (hh : openProductHead fs = .ok (ra, su, me, imgs))
    (hbr : ∀ name ∈ imgs, ∀ b gname g, fs.get name = some b → openImageFile b name rpc = .ok (gname, g) →
      (bridge fr root name gname g).isSome) :
    ∃ pc, openProductC fr root fs rpc = .ok pc ∧ pc.rootAttrs = p.rootAttrs ∧ pc.summary = p.summary ∧ pc.metadata = p.metadata ∧
      pc.imagery.map Prod.fst = p.imagery.map Prod.fst :=
  openProductC_eq_openProduct fr root fs rpc p h ra su me imgs hh hbr
    (fun _ _ gname hg => groupName_noslash _ gname hg)

/-- … and an error of the whole-product model is the error of the codec-view open (given that every image that opens can be
    bridged — otherwise the codec view fails earlier, at that image) -/
theorem codec_view_error (fr : FloatRepr) (root : String) (fs : Files) (rpc : Nat) (e : Err)
    (h : openProduct fs rpc = .error e)
    (hbr : ∀ ra su me imgs, openProductHead fs = .ok (ra, su, me, imgs) →
      ∀ name ∈ imgs, ∀ b gname g, fs.get name = some b → openImageFile b name rpc = .ok (gname, g) →
        (bridge fr root name gname g).isSome) :
    openProductC fr root fs rpc = .error e :=
  openProductC_error fr root fs rpc e h hbr

/-- non-vacuity (kernel-evaluated): the C03 witness image, as the only image file of a product, opens in the codec view at chunk
    sizes 1 and 2, the two groups agree up to the chunk size (the `uncached` clause of `ImgOK`), and its group name "HH" has no '/' -/
theorem codec_view_witness :
    (uncachedC witnessFr "/root" witnessFiles witnessName 1).toOption.isSome = true ∧
    (uncachedC witnessFr "/root" witnessFiles witnessName 2).toOption.isSome = true ∧
    (uncachedC witnessFr "/root" witnessFiles witnessName 1).toOption.map (fun g => docText (g.withRpc 2)) =
      (uncachedC witnessFr "/root" witnessFiles witnessName 2).toOption.map docText ∧
    groupName witnessName = .ok "HH" :=
  ⟨productCached_witness.1, productCached_witness.2.1, productCached_witness.2.2, witness_groupName⟩

end Alos2.C13

/-
C07 — Cache transparency: opening via an index cache equals opening without one.

For one image, with `E.U r` the group an uncached open returns at `records_per_chunk = r`, and the index files as
text (`CState`), under the environment assumptions `EnvOK` (the codec-domain / rpc-stability of the uncached
groups, and the two `json` contracts):

* `read_valid`       — if the consulted location holds the document written for ANY `r_w` (by `create_cache=True`
                       or by the CLI), `open(use_cache=True, r)` returns `E.U r`: the group of an uncached open with
                       the CURRENT call's `records_per_chunk`.
* `cache_is_used`    — … and it comes from the cache (user cache dir first, then next to the image); with no cache
                       present the image is parsed.
* `no_cache_consulted` — with `use_cache=False` the result is the parse and no file content can influence it.

`concrete_read_valid` / `concrete_group_is_uncached_open` — the same for the CONCRETE environment of an image file: `EnvOK` is
discharged for the groups the layout-based reader builds (bridge to the codec's view of a group: `Model/Bridge.lean`, H11).

Known finding (not covered by these theorems, because `E.U` abstracts the filesystem): the stored root of the image
array drops the filesystem protocol, so caches written for products on non-local filesystems (memory://, custom)
decode to arrays on the local disk — see known_findings.json.
-/
import Alos2.Proofs.Flow
import Alos2.Proofs.Bridge
import Alos2.Proofs.BridgeTotal
import Alos2.Proofs.ProductCached

namespace Alos2.C07

theorem read_valid (E : Env) (h : EnvOK E) (s : CState) (rw r : Nat) (create : Bool)
    (hloc : s.loc = some (docText (E.U rw)) ∨ (s.loc = none ∧ s.adj = some (docText (E.U rw)))) :
    (openImage E s true create r).result = .ok (E.U r) := by
  have hb : ∀ x, Benign E (some (docText (E.U x))) := by
    intro x t ht
    refine ⟨x, (docText (E.U x)).length, ?_⟩
    simp at ht
    simp [← ht]
  rcases hloc with hl | ⟨hl, ha⟩
  · -- the adjacent file may be anything benign: we only need an invariant state; build one that agrees on loc
    have := (openImage_uses_cache E h s rw r create).1 hl
    unfold openImage at this ⊢
    simp only [readCache, hl] at this ⊢
    rw [decodeText_complete E h rw r]
    simp
  · have := (openImage_uses_cache E h s rw r create).2.1 hl ha
    unfold openImage at this ⊢
    simp only [readCache, hl, ha] at this ⊢
    rw [decodeText_complete E h rw r]
    simp

theorem cache_is_used (E : Env) (h : EnvOK E) (s : CState) (rw r : Nat) (create : Bool) :
    (s.loc = some (docText (E.U rw)) → (openImage E s true create r).source = some .cacheLocal) ∧
    (s.loc = none → s.adj = some (docText (E.U rw)) → (openImage E s true create r).source = some .cacheAdjacent) ∧
    (s.loc = none → s.adj = none → (openImage E s true create r).source = some .parsed) :=
  openImage_uses_cache E h s rw r create

theorem no_cache_consulted (E : Env) (s : CState) (create : Bool) (r : Nat) :
    (openImage E s false create r).result = .ok (E.U r) ∧ (openImage E s false create r).source = some .parsed :=
  openImage_no_cache E s create r

/-- THE CONCRETE ENVIRONMENT — no assumption left about the groups: for an image file that opens (layout-based reader) into a
    bridgeable group with instants at or after the epoch, the environment "uncached group at chunk size r = that group with
    `records_per_chunk := r`" satisfies `EnvOK` (given the `json` and `repr` contracts); so, whatever chunk size the cache was
    written with, a cached open returns the group of an uncached open at the current chunk size, from the cache -/
theorem concrete_read_valid (fr : FloatRepr) (hfr : fr.OK) (loads : List Char → Except Err PyVal)
    (hJ1 : ∀ d : PyVal, d.TupleFree = true → d.WF = true → loads (dump d) = .ok d)
    (hJ2 : ∀ t : List Char, (¬ Balanced t ∨ t = []) → ∃ e, loads t = .error e)
    (root : String) (file : Bytes) (name : String) (gname : String) (g : ImageGroup) (cg : CGroup)
    (h : openImageFile file name 1 = .ok (gname, g)) (hb : bridge fr root name gname g = some cg)
    (header : Val) (recs : List Val) (hr : readImageRecords file 1 = .ok (header, recs)) (hn : 0 < recs.length)
    (hk : (∀ r ∈ recs, IsLineRecord Gen.processedDataRecord r) ∨ (∀ r ∈ recs, IsLineRecord Gen.signalDataRecord r))
    (hd : DatesOK g = true)
    (s : CState) (rw r : Nat) (create : Bool)
    (hloc : s.loc = some (docText (cg.withRpc rw)) ∨ (s.loc = none ∧ s.adj = some (docText (cg.withRpc rw)))) :
    (openImage { U := fun r => cg.withRpc r, loads := loads } s true create r).result = .ok (cg.withRpc r) :=
  read_valid { U := fun r => cg.withRpc r, loads := loads }
    (concrete_env_ok fr hfr loads hJ1 hJ2 root file name gname g cg h hb header recs hr hn hk hd) s rw r create hloc

/-- the same with NO hypothesis about the bridge (`bridge_total`): for every image file that opens at chunk size 1 with at least
    one line record, all of one kind, and instants inside 1970 … 2262, there IS the codec's view `cg` of its group, and a cached
    open — whatever chunk size the cache was written with, user cache dir or next to the image — returns `cg` at the chunk
    size of the current call -/
theorem cache_transparent_for_every_image (fr : FloatRepr) (hfr : fr.OK) (loads : List Char → Except Err PyVal)
    (hJ1 : ∀ d : PyVal, d.TupleFree = true → d.WF = true → loads (dump d) = .ok d)
    (hJ2 : ∀ t : List Char, (¬ Balanced t ∨ t = []) → ∃ e, loads t = .error e)
    (root : String) (file : Bytes) (name : String) (gname : String) (g : ImageGroup)
    (h : openImageFile file name 1 = .ok (gname, g))
    (header : Val) (recs : List Val) (hr : readImageRecords file 1 = .ok (header, recs)) (hn : 0 < recs.length)
    (hk : (∀ r ∈ recs, IsLineRecord Gen.processedDataRecord r) ∨ (∀ r ∈ recs, IsLineRecord Gen.signalDataRecord r))
    (hd : DatesInRange g = true) :
    ∃ cg, bridge fr root name gname g = some cg ∧
      ∀ (s : CState) (rw r : Nat) (create : Bool),
        (s.loc = some (docText (cg.withRpc rw)) ∨ (s.loc = none ∧ s.adj = some (docText (cg.withRpc rw)))) →
        (openImage { U := fun r => cg.withRpc r, loads := loads } s true create r).result = .ok (cg.withRpc r) := by
  obtain ⟨cg, hb⟩ := bridge_total fr root file name 1 gname g h header recs hr hn hk hd
  exact ⟨cg, hb, fun s rw r create hloc =>
    concrete_read_valid fr hfr loads hJ1 hJ2 root file name gname g cg h hb header recs hr hn hk (datesInRange_datesOK g hd)
      s rw r create hloc⟩

/-- … and that group IS the bridged result of an uncached open at chunk size `r` (for a well-framed file) -/
theorem concrete_group_is_uncached_open (fr : FloatRepr) (root : String) (file : Bytes) (name : String) (rpc1 rpc2 : Nat)
    (n1 n2 : String) (g1 g2 : ImageGroup) (cg1 : CGroup)
    (h1 : openImageFile file name rpc1 = .ok (n1, g1)) (h2 : openImageFile file name rpc2 = .ok (n2, g2))
    (hb : bridge fr root name n1 g1 = some cg1)
    (hd1 hd2 : Val) (recs1 recs2 : List Val)
    (hr1 : readImageRecords file rpc1 = .ok (hd1, recs1)) (hr2 : readImageRecords file rpc2 = .ok (hd2, recs2))
    (L : Nat) (hL : 0 < L) (hdrL : intAt hd1 ["sar_data_record_length"] = .ok (L : Int))
    (t : Nat) (ht : t = 10 ∨ t = 11)
    (hrl1 : ∀ r ∈ recs1, intAt r ["preamble", "record_length"] = .ok (L : Int))
    (hty1 : ∀ r ∈ recs1, intAt r ["preamble", "record_type"] = .ok (t : Int))
    (hrl2 : ∀ r ∈ recs2, intAt r ["preamble", "record_length"] = .ok (L : Int))
    (hty2 : ∀ r ∈ recs2, intAt r ["preamble", "record_type"] = .ok (t : Int)) :
    bridge fr root name n2 g2 = some (cg1.withRpc rpc2) :=
  open_image_bridge_stable fr root file name rpc1 rpc2 n1 n2 g1 g2 cg1 h1 h2 hb hd1 hd2 recs1 recs2 hr1 hr2 L hL hdrL t ht
    hrl1 hty1 hrl2 hty2

/-- THE WHOLE PRODUCT (`Model/ProductCached.lean`: `io.open` with its loop over the image files and one pair of index files per
    image, tied by H12): if the head of the product opens and every image satisfies `ImgOK` (its uncached open is one group up to
    the chunk size — C06 — and `EnvOK`; discharged for well-framed image files by `product_image_ok`), then whatever benign index
    files lie in the user cache directory / next to the images (absent, complete documents written at ANY chunk sizes, prefixes),
    whatever the options, the tree returned IS the tree of an uncached open at the chunk size of this call — and that open succeeds -/
theorem product_cache_transparent (fr : FloatRepr) (loads : List Char → Except Err PyVal) (root : String) (fs : Files)
    (G : String → CGroup) (ra : KVs Leaf) (su : List (String × SGroup)) (me : Grp Leaf) (imgs : List String)
    (hh : openProductHead fs = .ok (ra, su, me, imgs))
    (hok : ∀ name ∈ imgs, ImgOK fr loads root fs name (G name))
    (c : Caches) (hc : PInv loads G imgs c) (use create : Bool) (rpc : Nat) (hr : 0 < rpc) :
    (openProductCached fr loads root fs c use create rpc).1 = openProductC fr root fs rpc ∧
    (∃ p, openProductC fr root fs rpc = .ok p) :=
  ⟨(openProductCached_correct fr loads root fs G ra su me imgs hh hok c hc use create rpc hr).1, (openProductCached_correct fr loads root fs G ra su me imgs hh hok c hc use create rpc hr).2.1⟩

/-- `ImgOK` discharged for a well-framed image file of the product (`concrete_env_ok` + `open_image_bridge_stable`) -/
theorem product_image_ok (fr : FloatRepr) (hfr : fr.OK) (loads : List Char → Except Err PyVal)
    (hJ1 : ∀ d : PyVal, d.TupleFree = true → d.WF = true → loads (dump d) = .ok d)
    (hJ2 : ∀ t : List Char, (¬ Balanced t ∨ t = []) → ∃ e, loads t = .error e)
    (root : String) (fs : Files) (name : String) (file : Bytes) (hget : fs.get name = some file)
    (gname : String) (g : ImageGroup) (cg : CGroup)
    (h : openImageFile file name 1 = .ok (gname, g)) (hb : bridge fr root name gname g = some cg)
    (header : Val) (recs : List Val) (hr : readImageRecords file 1 = .ok (header, recs)) (hn : 0 < recs.length)
    (hk : (∀ r ∈ recs, IsLineRecord Gen.processedDataRecord r) ∨ (∀ r ∈ recs, IsLineRecord Gen.signalDataRecord r))
    (hd : DatesOK g = true)
    (hopen : ∀ r, 0 < r → ∃ n2 g2 hd2 recs2, openImageFile file name r = .ok (n2, g2) ∧ readImageRecords file r = .ok (hd2, recs2) ∧
      ∃ (L : Nat) (t : Nat), 0 < L ∧ intAt header ["sar_data_record_length"] = .ok (L : Int) ∧ (t = 10 ∨ t = 11) ∧
        (∀ x ∈ recs, intAt x ["preamble", "record_length"] = .ok (L : Int)) ∧
        (∀ x ∈ recs, intAt x ["preamble", "record_type"] = .ok (t : Int)) ∧
        (∀ x ∈ recs2, intAt x ["preamble", "record_length"] = .ok (L : Int)) ∧
        (∀ x ∈ recs2, intAt x ["preamble", "record_type"] = .ok (t : Int))) :
    ImgOK fr loads root fs name (cg.withRpc 1) :=
  imgOK_concrete fr hfr loads hJ1 hJ2 root fs name file hget gname g cg h hb header recs hr hn hk hd hopen

end Alos2.C07

/-
C07 — Cache transparency: opening via an index cache equals opening without one.

For one image, with `E.U r` the group an uncached open returns at `records_per_chunk = r`, and the index files as
text (`CState`), under the environment assumptions `EnvOK` (the codec-domain / rpc-stability of the uncached
groups, and the two `json` contracts):

* `read_valid`       — if the consulted location holds the document written for ANY `r_w` (by `create_cache=True`
                       or by the CLI), `open(use_cache=True, r)` returns `E.U r`: the group of an uncached open with
                       the CURRENT call's `records_per_chunk`.
* `cache_is_used`    — … and it comes from the cache (user cache dir first, then next to the image); with no cache
                       present the image is parsed.
* `no_cache_consulted` — with `use_cache=False` the result is the parse and no file content can influence it.

Known finding (not covered by these theorems, because `E.U` abstracts the filesystem): the stored root of the image
array drops the filesystem protocol, so caches written for products on non-local filesystems (memory://, custom)
decode to arrays on the local disk — see known_findings.json.
-/
import Alos2.Proofs.Flow

namespace Alos2.C07

theorem read_valid (E : Env) (h : EnvOK E) (s : CState) (rw r : Nat) (create : Bool)
    (hloc : s.loc = some (docText (E.U rw)) ∨ (s.loc = none ∧ s.adj = some (docText (E.U rw)))) :
    (openImage E s true create r).result = .ok (E.U r) := by
  have hb : ∀ x, Benign E (some (docText (E.U x))) := by
    intro x t ht
    refine ⟨x, (docText (E.U x)).length, ?_⟩
    simp at ht
    simp [← ht]
  rcases hloc with hl | ⟨hl, ha⟩
  · -- the adjacent file may be anything benign: we only need an invariant state; build one that agrees on loc
    have := (openImage_uses_cache E h s rw r create).1 hl
    unfold openImage at this ⊢
    simp only [readCache, hl] at this ⊢
    rw [decodeText_complete E h rw r]
    simp
  · have := (openImage_uses_cache E h s rw r create).2.1 hl ha
    unfold openImage at this ⊢
    simp only [readCache, hl, ha] at this ⊢
    rw [decodeText_complete E h rw r]
    simp

theorem cache_is_used (E : Env) (h : EnvOK E) (s : CState) (rw r : Nat) (create : Bool) :
    (s.loc = some (docText (E.U rw)) → (openImage E s true create r).source = some .cacheLocal) ∧
    (s.loc = none → s.adj = some (docText (E.U rw)) → (openImage E s true create r).source = some .cacheAdjacent) ∧
    (s.loc = none → s.adj = none → (openImage E s true create r).source = some .parsed) :=
  openImage_uses_cache E h s rw r create

theorem no_cache_consulted (E : Env) (s : CState) (create : Bool) (r : Nat) :
    (openImage E s false create r).result = .ok (E.U r) ∧ (openImage E s false create r).source = some .parsed :=
  openImage_no_cache E s create r

end Alos2.C07

/-
C10 — Opening is a pure function of the product, independent of open history.

State machine over the two index files of an image; operations: `open(use_cache, create_cache, rpc)`, CLI cache
creation next to the image, deletion of either cache, and interrupted cache writes at either location.

* `history_independent` — for EVERY operation sequence (no length bound; induction over the history), from the
                          empty state, every open returns the group of a fresh uncached open with that step's
                          `records_per_chunk`.
* `inv_step`            — every operation preserves the invariant (each index file is a prefix of a document
                          written for this image).
* `writes`              — an open never touches the file next to the image, and writes nothing at all unless
                          `create_cache` is set (then only the index in the user cache dir).

"Never mutates the caller's option dictionaries" is aliasing, not expressible in a value model: observed by the
harness only (deep-copy comparison before/after each call).
-/
import Alos2.Proofs.Flow
import Alos2.Proofs.Bridge
import Alos2.Proofs.ProductCached

namespace Alos2.C10

theorem history_independent (E : Env) (h : EnvOK E) (ops : List Op) :
    ∀ o ∈ (run E {} ops).1, o.2 = .ok (E.U o.1) :=
  run_correct E h {} (inv_init E) ops

theorem inv_step (E : Env) (h : EnvOK E) (s : CState) (hs : Inv E s) (op : Op) : Inv E (step E s op).2 :=
  step_inv E h s hs op

theorem writes (E : Env) (s : CState) (use create : Bool) (r : Nat) :
    (openImage E s use create r).state.adj = s.adj ∧
    (create = false → (openImage E s use create r).state = s) :=
  openImage_writes E s use create r

/-- the same for the concrete environment of an image file (no assumption left about the groups, see C07
    `concrete_read_valid`): after ANY history of opens / CLI runs / deletions, every open returned the uncached group at its own
    chunk size -/
theorem concrete_history_independent (fr : FloatRepr) (hfr : fr.OK) (loads : List Char → Except Err PyVal)
    (hJ1 : ∀ d : PyVal, d.TupleFree = true → d.WF = true → loads (dump d) = .ok d)
    (hJ2 : ∀ t : List Char, (¬ Balanced t ∨ t = []) → ∃ e, loads t = .error e)
    (root : String) (file : Bytes) (name : String) (gname : String) (g : ImageGroup) (cg : CGroup)
    (h : openImageFile file name 1 = .ok (gname, g)) (hb : bridge fr root name gname g = some cg)
    (header : Val) (recs : List Val) (hr : readImageRecords file 1 = .ok (header, recs)) (hn : 0 < recs.length)
    (hk : (∀ r ∈ recs, IsLineRecord Gen.processedDataRecord r) ∨ (∀ r ∈ recs, IsLineRecord Gen.signalDataRecord r))
    (hd : DatesOK g = true) (ops : List Op) :
    ∀ o ∈ (run { U := fun r => cg.withRpc r, loads := loads } {} ops).1, o.2 = .ok (cg.withRpc o.1) :=
  history_independent { U := fun r => cg.withRpc r, loads := loads }
    (concrete_env_ok fr hfr loads hJ1 hJ2 root file name gname g cg h hb header recs hr hn hk hd) ops

/-- THE WHOLE PRODUCT, EVERY HISTORY (`Model/ProductCached.lean`, tied by H12): after any sequence of opens of the product
    (any `use_cache` / `create_cache` / positive `records_per_chunk`), CLI runs, deletions and interrupted writes on any of its
    image files, starting from no index files, EVERY open returned the tree of a fresh uncached open at its own chunk size -/
theorem product_history_independent (fr : FloatRepr) (loads : List Char → Except Err PyVal) (root : String) (fs : Files)
    (G : String → CGroup) (ra : KVs Leaf) (su : List (String × SGroup)) (me : Grp Leaf) (imgs : List String)
    (hh : openProductHead fs = .ok (ra, su, me, imgs))
    (hok : ∀ name ∈ imgs, ImgOK fr loads root fs name (G name))
    (ops : List POp) (hpos : ∀ u cr r, POp.open_ u cr r ∈ ops → 0 < r) :
    ∀ o ∈ (prun fr loads root fs [] ops).1, o.2 = openProductC fr root fs o.1 :=
  prun_correct fr loads root fs G ra su me imgs hh hok [] (PInv_empty loads G imgs) ops hpos

/-- … "writes only index files under the user cache directory, and only when asked": one open of the product leaves every
    index file as it was unless `create_cache`, never touches the files next to the images, and keeps the index files benign -/
theorem product_writes (fr : FloatRepr) (loads : List Char → Except Err PyVal) (root : String) (fs : Files)
    (G : String → CGroup) (ra : KVs Leaf) (su : List (String × SGroup)) (me : Grp Leaf) (imgs : List String)
    (hh : openProductHead fs = .ok (ra, su, me, imgs))
    (hok : ∀ name ∈ imgs, ImgOK fr loads root fs name (G name))
    (c : Caches) (hc : PInv loads G imgs c) (use create : Bool) (rpc : Nat) (hr : 0 < rpc) :
    (create = false → ∀ n, (openProductCached fr loads root fs c use create rpc).2.get n = c.get n) ∧
    (∀ n, ((openProductCached fr loads root fs c use create rpc).2.get n).adj = (c.get n).adj) ∧
    PInv loads G imgs (openProductCached fr loads root fs c use create rpc).2 :=
  ⟨(openProductCached_correct fr loads root fs G ra su me imgs hh hok c hc use create rpc hr).2.2.2.1,
   (openProductCached_correct fr loads root fs G ra su me imgs hh hok c hc use create rpc hr).2.2.2.2,
   (openProductCached_correct fr loads root fs G ra su me imgs hh hok c hc use create rpc hr).2.2.1⟩

end Alos2.C10

/-
C10 — Opening is a pure function of the product, independent of open history.

State machine over the two index files of an image; operations: `open(use_cache, create_cache, rpc)`, CLI cache
creation next to the image, deletion of either cache, and interrupted cache writes at either location.

* `history_independent` — for EVERY operation sequence (no length bound; induction over the history), from the
                          empty state, every open returns the group of a fresh uncached open with that step's
                          `records_per_chunk`.
* `inv_step`            — every operation preserves the invariant (each index file is a prefix of a document
                          written for this image).
* `writes`              — an open never touches the file next to the image, and writes nothing at all unless
                          `create_cache` is set (then only the index in the user cache dir).

"Never mutates the caller's option dictionaries" is aliasing, not expressible in a value model: observed by the
harness only (deep-copy comparison before/after each call).
-/
import Alos2.Proofs.Flow

namespace Alos2.C10

theorem history_independent (E : Env) (h : EnvOK E) (ops : List Op) :
    ∀ o ∈ (run E {} ops).1, o.2 = .ok (E.U o.1) :=
  run_correct E h {} (inv_init E) ops

theorem inv_step (E : Env) (h : EnvOK E) (s : CState) (hs : Inv E s) (op : Op) : Inv E (step E s op).2 :=
  step_inv E h s hs op

theorem writes (E : Env) (s : CState) (use create : Bool) (r : Nat) :
    (openImage E s use create r).state.adj = s.adj ∧
    (create = false → (openImage E s use create r).state = s) :=
  openImage_writes E s use create r

end Alos2.C10

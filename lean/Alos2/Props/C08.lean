/-
C08 — Cache codec exactness: every value survives the JSON index.

* `decode_encode` — for every group in the codec domain (`CGroup.InDomain`, a decidable predicate): decoding the
  encoded document reproduces the group — member order, group paths, dims, attributes with nested lists and
  tuples (tuples as tuples), integers exactly, float tokens, strings, datetimes / timedeltas to the unit
  (reference + offsets, NaT preserved), shape and elements of every array, and the image array's root / url /
  shape / dtype / byte ranges / type code — with the image arrays carrying the `records_per_chunk` of the
  decoding call.  By structural induction on the group; no bound on sizes.
* `tuple_tag` — tuple tagging is inverted by the object hook for every value that does not use the reserved tag.
* `document_is_json` — the document is a tuple-free container of plain JSON values: self-contained text.

Domain (each exclusion is necessary, see DESIGN.md and known_findings.json): zero-length axes only for 1-d arrays
(`tolist()` of a `(0, 3)` array is `[]`: its shape is lost — known finding); attributes must not use the
reserved `{"__type__": "tuple"}` tag; datetime units s / ms / us / ns with the reference in years 1970–9999.
That `json.loads(json.dumps(x)) == x` on this value domain (shortest-repr floats, exact ints, NaN / Infinity
tokens) and that `ndarray.tolist()` / `np.array(list, dtype)` are inverse are third-party contracts: tested.
-/
import Alos2.Proofs.Codec

namespace Alos2.C08

theorem decode_encode (g : CGroup) (hg : g.InDomain domainFuel = true) (rpc : Nat) :
    decodeDoc rpc (encodeDoc g) = .ok (g.withRpc rpc) :=
  Alos2.decode_encode g hg rpc

theorem tuple_tag (v : PyVal) (h : v.NoReservedTag = true) : postprocess (preprocess v) = v :=
  postprocess_preprocess v h

theorem document_is_json (g : CGroup) : (encodeDoc g).TupleFree = true ∧ (encodeDoc g).isContainer = true :=
  encodeDoc_shape g

/-- non-vacuity: a group with a datetime variable (NaT first), a nested-tuple attribute and an image array is in the domain -/
def demo : CGroup :=
  .mk "/" .none
    [("t", .var ⟨.list [.str "rows"], .nd ⟨"datetime64[ns]", [3], [.int natValue, .int 1570804995525000000, .int 1570804995525000007]⟩,
        [("units", .str "µs"), ("nested", .list [.tuple [.int 1, .float "NaN"], .list []])]⟩),
     ("data", .var ⟨.list [.str "rows", .str "columns"],
        .backend ⟨"/p", "IMG-HH", .tuple [.int 3, .int 2], "uint16", .list [.tuple [.int 912, .int 916]], "IU2", 1024⟩, []⟩),
     ("sub", .group (.mk "/sub" (.str "u") [] [("k", .tuple [])]))]
    [("valid_range", .list [.int 0, .int 65535])]

example : demo.InDomain domainFuel = true := by decide +kernel
example : decodeDoc 7 (encodeDoc demo) = .ok (demo.withRpc 7) := decode_encode demo (by decide +kernel) 7

end Alos2.C08

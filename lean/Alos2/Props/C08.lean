/-
C08 — Cache codec exactness: every value survives the JSON index.

* `decode_encode` — for every group in the codec domain (`CGroup.InDomain`, a decidable predicate): decoding the
  encoded document reproduces the group — member order, group paths, dims, attributes with nested lists and
  tuples (tuples as tuples), integers exactly, float tokens, strings, datetimes / timedeltas to the unit
  (reference + offsets, NaT preserved), shape and elements of every array, and the image array's root / url /
  shape / dtype / byte ranges / type code — with the image arrays carrying the `records_per_chunk` of the
  decoding call.  By structural induction on the group; no bound on sizes.
* `tuple_tag` — tuple tagging is inverted by the object hook for every value that does not use the reserved tag.
* `document_is_json` — the document is a tuple-free container of plain JSON values: self-contained text.

Domain (each exclusion is necessary, see DESIGN.md and known_findings.json): zero-length axes only for 1-d arrays
(`tolist()` of a `(0, 3)` array is `[]`: its shape is lost — known finding); attributes must not use the
reserved `{"__type__": "tuple"}` tag; datetime units s / ms / us / ns with the reference in years 1970–9999.
That `json.loads(json.dumps(x)) == x` on this value domain (shortest-repr floats, exact ints, NaN / Infinity
tokens) and that `ndarray.tolist()` / `np.array(list, dtype)` are inverse are third-party contracts: tested.
* `reader_group_round_trip` — the groups the READER produces are inside that domain (discharged through the bridge
  `Model/Bridge.lean`): for them the document decodes to exactly the group, at the chunk size of the reading call.
-/
import Alos2.Proofs.Codec
import Alos2.Proofs.Bridge
import Alos2.Proofs.BridgeTotal
import Alos2.Props.C03

namespace Alos2.C08

theorem decode_encode (g : CGroup) (hg : g.InDomain domainFuel = true) (rpc : Nat) :
    decodeDoc rpc (encodeDoc g) = .ok (g.withRpc rpc) :=
  Alos2.decode_encode g hg rpc

/-- "FOR ALL IMAGE GROUPS THE READER CAN PRODUCE": whenever `open_image` without a cache (the layout-based reader,
    `Model/Product.lean`, tied to the real one by H9) succeeds on a file with at least one line record, all of one kind, and
    the group — seen as the object the codec works on (`bridge`, tied to the real `encode(open_image(…))` by H11) — has its
    instants at or after the epoch, the JSON document decodes to exactly that group, with the chunk size of the reading call -/
theorem reader_group_round_trip (fr : FloatRepr) (root : String) (file : Bytes) (name : String) (rpc : Nat)
    (gname : String) (g : ImageGroup) (cg : CGroup)
    (h : openImageFile file name rpc = .ok (gname, g)) (hb : bridge fr root name gname g = some cg)
    (header : Val) (recs : List Val) (hr : readImageRecords file rpc = .ok (header, recs)) (hn : 0 < recs.length)
    (hk : (∀ r ∈ recs, IsLineRecord Gen.processedDataRecord r) ∨ (∀ r ∈ recs, IsLineRecord Gen.signalDataRecord r))
    (hd : DatesOK g = true) (r' : Nat) :
    cg.InDomain domainFuel = true ∧ decodeDoc r' (encodeDoc cg) = .ok (cg.withRpc r') := by
  have hdom := open_image_in_domain fr root file name rpc gname g cg h hb header recs hr hn hk hd
  exact ⟨hdom, Alos2.decode_encode cg hdom r'⟩

/-- … and the group CAN always be seen that way (`bridge_total`: the record layouts fix the NumPy kind of every per-line
    column and make every attribute JSON-able), so no hypothesis about the bridge is left: EVERY image file that the reader
    opens, with at least one line record, all of one kind, and instants inside 1970 … 2262, yields a group that the JSON index
    reproduces exactly -/
theorem reader_group_cacheable (fr : FloatRepr) (root : String) (file : Bytes) (name : String) (rpc : Nat)
    (gname : String) (g : ImageGroup)
    (h : openImageFile file name rpc = .ok (gname, g))
    (header : Val) (recs : List Val) (hr : readImageRecords file rpc = .ok (header, recs)) (hn : 0 < recs.length)
    (hk : (∀ r ∈ recs, IsLineRecord Gen.processedDataRecord r) ∨ (∀ r ∈ recs, IsLineRecord Gen.signalDataRecord r))
    (hd : DatesInRange g = true) :
    ∃ cg, bridge fr root name gname g = some cg ∧ cg.InDomain domainFuel = true ∧
      ∀ r', decodeDoc r' (encodeDoc cg) = .ok (cg.withRpc r') := by
  obtain ⟨cg, hb⟩ := bridge_total fr root file name rpc gname g h header recs hr hn hk hd
  have hdom := open_image_in_domain fr root file name rpc gname g cg h hb header recs hr hn hk (datesInRange_datesOK g hd)
  exact ⟨cg, hb, hdom, fun r' => Alos2.decode_encode cg hdom r'⟩

/-- non-vacuity of the computable hypotheses: the two-record witness image of C03 opens, its group can be bridged, its
    instants are after the epoch — and the bridged group is in the codec domain (kernel-evaluated) -/
example :
    ((openImageFile C03.witnessImage "IMG-HH-ALOS2290760600-191011-WWDR1.5RUA" 1).toOption.map (fun r =>
      (DatesInRange r.2, (bridge ⟨id, fun t _ => t, fun v _ => toString v ++ ".0"⟩ "/root" "IMG-HH-ALOS2290760600-191011-WWDR1.5RUA" r.1 r.2).map
        (fun cg => cg.InDomain domainFuel)))) = some (true, some true) := by decide +kernel

theorem tuple_tag (v : PyVal) (h : v.NoReservedTag = true) : postprocess (preprocess v) = v :=
  postprocess_preprocess v h

theorem document_is_json (g : CGroup) : (encodeDoc g).TupleFree = true ∧ (encodeDoc g).isContainer = true :=
  encodeDoc_shape g

/-- non-vacuity: a group with a datetime variable (NaT first), a nested-tuple attribute and an image array is in the domain -/
def demo : CGroup :=
  .mk "/" .none
    [("t", .var ⟨.list [.str "rows"], .nd ⟨"datetime64[ns]", [3], [.int natValue, .int 1570804995525000000, .int 1570804995525000007]⟩,
        [("units", .str "µs"), ("nested", .list [.tuple [.int 1, .float "NaN"], .list []])]⟩),
     ("data", .var ⟨.list [.str "rows", .str "columns"],
        .backend ⟨"/p", "IMG-HH", .tuple [.int 3, .int 2], "uint16", .list [.tuple [.int 912, .int 916]], "IU2", 1024⟩, []⟩),
     ("sub", .group (.mk "/sub" (.str "u") [] [("k", .tuple [])]))]
    [("valid_range", .list [.int 0, .int 65535])]

example : demo.InDomain domainFuel = true := by decide +kernel
example : decodeDoc 7 (encodeDoc demo) = .ok (demo.withRpc 7) := decode_encode demo (by decide +kernel) 7

end Alos2.C08

/-
C15 — Identifier decoding is total and exact over the documented code tables.

On the regular expressions and code tables regenerated from `decoders.py` on every run (they are maintained
separately in the source — their agreement is exactly what is proved):

* `product_id_total`  — all 3600 product ids of the cross product of the tables decode to the tables' meanings.
* `product_id_sound`  — anything `decode_product_id` accepts is one of them (everything else is rejected).
* `scene_id_total` / `scene_id_sound` — any 5-character mission name, 5+4 digits and VALID `YYMMDD` date decodes to
                        its parts; nothing else is accepted (no trailing garbage, no invalid date).
* `valid_dates`       — month 1..12 and a day of that month (29 February in leap years) are exactly the valid dates.
* `scan_info_exact`   — the scan suffix is exactly `[BF][0-9]`.
* `group_name_injective` — the image group name determines (polarisation, scan number).
* `documented_tables` — the tables are the documented ones (map projections U/P/M/L/_, levels 1.0/1.1/1.5/3.1, …) and
                        every decoder anchors its regex with `fullmatch`.
-/
import Alos2.Proofs.Decode

namespace Alos2.C15

theorem product_id_total :
    productCodeSpace.all (fun c => decodeProductId (composeId c) == .ok (meaningsOf Gen.productIdReGroups c)) = true ∧
    productCodeSpace.length = 3600 := Alos2.product_id_total

theorem product_id_sound (s : String) (r : Decoded) (h : decodeProductId s = .ok r) :
    ∃ c ∈ productCodeSpace, s = composeId c ∧ r = meaningsOf Gen.productIdReGroups c := Alos2.product_id_sound s r h

theorem scene_id_total (mission orbit frame date : List Char) (iso : String)
    (hm : mission.length = 5 ∧ mission.all isUpperOrDigit = true)
    (ho : orbit.length = 5 ∧ orbit.all Char.isDigit = true) (hf : frame.length = 4 ∧ frame.all Char.isDigit = true)
    (hd : parseYYMMDD date = .ok iso) :
    decodeSceneId (String.ofList (mission ++ orbit ++ frame ++ ['-'] ++ date)) =
      .ok [("mission_name", some (String.ofList mission)), ("orbit_accumulation", some (String.ofList orbit)),
           ("scene_frame", some (String.ofList frame)), ("date", some iso)] :=
  Alos2.scene_id_total mission orbit frame date iso hm ho hf hd

theorem scene_id_sound (s : String) (r : Decoded) (h : decodeSceneId s = .ok r) :
    ∃ mission orbit frame date : List Char, ∃ iso : String,
      s.toList = mission ++ orbit ++ frame ++ ['-'] ++ date ∧
      mission.length = 5 ∧ mission.all isUpperOrDigit = true ∧ orbit.length = 5 ∧ orbit.all Char.isDigit = true ∧
      frame.length = 4 ∧ frame.all Char.isDigit = true ∧ parseYYMMDD date = .ok iso := Alos2.scene_id_sound s r h

theorem valid_dates (yy mm dd : Nat) (hy : yy < 100) (hm : 1 ≤ mm ∧ mm ≤ 12) (hd : 1 ≤ dd ∧ dd ≤ daysInMonthYY yy mm) :
    ∃ iso, parseYYMMDD ((pad2 yy ++ pad2 mm ++ pad2 dd).toList) = .ok iso := Alos2.valid_dates yy mm dd hy hm hd

theorem scan_info_exact (s : String) :
    (∃ r, decodeScanInfo (some s) = .ok r) ↔ ∃ m d : Char, s.toList = [m, d] ∧ (m = 'B' ∨ m = 'F') ∧ d.isDigit = true :=
  Alos2.scan_info_exact s

theorem group_name_injective (p₁ p₂ : String) (n₁ n₂ : Option Char)
    (hp₁ : p₁ ∈ ["HH", "HV", "VH", "VV"]) (hp₂ : p₂ ∈ ["HH", "HV", "VH", "VV"])
    (hn₁ : ∀ c, n₁ = some c → c.isDigit = true) (hn₂ : ∀ c, n₂ = some c → c.isDigit = true)
    (h : String.intercalate "_" ([some p₁, n₁.map (fun c => "scan" ++ String.singleton c)].filterMap id) =
         String.intercalate "_" ([some p₂, n₂.map (fun c => "scan" ++ String.singleton c)].filterMap id)) :
    p₁ = p₂ ∧ n₁ = n₂ := Alos2.group_name_injective p₁ p₂ n₁ n₂ hp₁ hp₂ hn₁ hn₂ h

theorem documented_tables :
    Gen.mapProjections.map Prod.fst = ["U", "P", "M", "L", "_"] ∧
    Gen.processingLevels.map Prod.fst = ["1.0", "1.1", "1.5", "3.1"] ∧
    Gen.observationDirections.map Prod.fst = ["L", "R"] ∧ Gen.orbitDirections.map Prod.fst = ["A", "D"] ∧
    Gen.processingOptions.map Prod.fst = ["G", "R", "_"] ∧ Gen.observationModes.length = 15 ∧
    Gen.processingMethods.map Prod.fst = ["F", "B"] ∧
    Gen.regexCalls.all (fun kv => kv.2.endsWith ".fullmatch") = true := Alos2.documented_tables

/-- non-vacuity: a concrete id with the PS projection (rejected by the pinned tree before the repair) decodes -/
example : decodeProductId "WWDR1.5RPA" = .ok [("observation_mode", some "ScanSAR nominal 28MHz mode dual polarization"),
    ("observation_direction", some "right looking"), ("processing_level", some "level 1.5"), ("processing_option", some "geo-reference"),
    ("map_projection", some "PS"), ("orbit_direction", some "ascending")] := by decide +kernel

end Alos2.C15

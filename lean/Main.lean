/-
Line-protocol driver: one JSON operation per input line, one JSON result per output line.
Run with `lake env lean --run Main.lean < ops.jsonl`.
The harness (`/verif/harness`) runs the real Python code on the same operations and diffs.
-/
import Lean.Data.Json
import Alos2

open Lean Alos2

def hexVal (c : Char) : Nat :=
  if '0' ≤ c ∧ c ≤ '9' then c.toNat - '0'.toNat
  else if 'a' ≤ c ∧ c ≤ 'f' then c.toNat - 'a'.toNat + 10
  else if 'A' ≤ c ∧ c ≤ 'F' then c.toNat - 'A'.toNat + 10 else 0

def unhex (s : String) : Bytes :=
  let rec go : List Char → List UInt8
    | a :: b :: rest => UInt8.ofNat (hexVal a * 16 + hexVal b) :: go rest
    | _ => []
  go s.toList

def hexDigit (n : Nat) : Char := if n < 10 then Char.ofNat (48 + n) else Char.ofNat (87 + n)

def tohex (bs : Bytes) : String :=
  String.ofList (bs.flatMap (fun b => [hexDigit (b.toNat / 16), hexDigit (b.toNat % 16)]))

def getNat (j : Json) (k : String) : Nat := ((j.getObjValAs? Nat k).toOption).getD 0
def getStr (j : Json) (k : String) : String := ((j.getObjValAs? String k).toOption).getD ""
def getArr (j : Json) (k : String) : Array Json := ((j.getObjValAs? (Array Json) k).toOption).getD #[]

def optInt (j : Json) : Option Int := match j with
  | .null => none
  | _ => (j.getInt?).toOption

def parseIdx (j : Json) : Idx :=
  match j.getObjVal? "int" with
  | .ok v => .int ((v.getInt?).toOption.getD 0)
  | .error _ =>
    let a := getArr j "slice"
    .slice (optInt (a.getD 0 .null)) (optInt (a.getD 1 .null)) (optInt (a.getD 2 .null))

def arrJson : Arr Bytes → Json
  | .d2 nc rows => Json.mkObj [("d2", Json.arr #[toJson nc, Json.arr (rows.map (fun r => Json.arr (r.map (fun s => Json.str (tohex s))).toArray)).toArray])]
  | .d1 xs => Json.mkObj [("d1", Json.arr (xs.map (fun s => Json.str (tohex s))).toArray)]
  | .d0 x => Json.mkObj [("d0", Json.str (tohex x))]

def evJson : IOEvent → Json
  | .open_ => Json.arr #["open"]
  | .seek o => Json.arr #["seek", toJson o]
  | .read k => Json.arr #["read", toJson k]
  | .close => Json.arr #["close"]

def pairs (a : Array Json) : List (Nat × Nat) :=
  a.toList.map (fun p => match p with
    | .arr xs => (((xs.getD 0 .null).getNat?).toOption.getD 0, ((xs.getD 1 .null).getNat?).toOption.getD 0)
    | _ => (0, 0))

def leafJson : Leaf → Json
  | .int v => Json.mkObj [("i", Json.str (toString v))]
  | .float t => Json.mkObj [("f", Json.str t)]
  | .complex re im => Json.mkObj [("c", Json.arr #[Json.str re, Json.str im])]
  | .str s => Json.mkObj [("s", Json.str s)]
  | .bytes b => Json.mkObj [("y", Json.str (tohex b))]
  | .bool b => Json.mkObj [("b", Json.bool b)]
  | .scaledF t f => Json.mkObj [("sf", Json.arr #[Json.str t, Json.str f])]
  | .scaledI v f => Json.mkObj [("si", Json.arr #[Json.str (toString v), Json.str f])]
  | .datetime ns => Json.mkObj [("t", Json.str (toString ns))]

partial def valJson : Val → Json
  | .leaf l => leafJson l
  | .list xs => Json.mkObj [("l", Json.arr (xs.map valJson).toArray)]
  | .dict kvs => Json.mkObj [("d", Json.arr (kvs.map (fun (k, v) => Json.arr #[Json.str k, valJson v])).toArray)]
  | .tup v attrs => Json.mkObj [("m", Json.arr #[valJson v, Json.arr (attrs.map (fun (k, a) => Json.arr #[Json.str k, Json.str a])).toArray])]

partial def pvalJson : PVal Leaf → Json
  | .leaf l => leafJson l
  | .cstr s => Json.mkObj [("s", Json.str s)]
  | .cint i => Json.mkObj [("i", Json.str (toString i))]
  | .list xs => Json.mkObj [("l", Json.arr (xs.map pvalJson).toArray)]
  | .dict kvs => Json.mkObj [("d", Json.arr (kvs.map (fun (k, v) => Json.arr #[Json.str k, pvalJson v])).toArray)]
  | .tup xs => Json.mkObj [("u", Json.arr (xs.map pvalJson).toArray)]

def kvsJson (kvs : KVs Leaf) : Json := Json.arr (kvs.map (fun (k, v) => Json.arr #[Json.str k, pvalJson v])).toArray

partial def grpJson : Grp Leaf → Json
  | .mk vars groups attrs => Json.mkObj [
      ("vars", Json.arr (vars.map (fun (k, v) => Json.arr #[Json.str k, Json.mkObj [("dims", toJson v.dims), ("data", pvalJson v.data), ("attrs", kvsJson v.attrs)]])).toArray),
      ("groups", Json.arr (groups.map (fun (k, g) => Json.arr #[Json.str k, grpJson g])).toArray),
      ("attrs", kvsJson attrs)]

def recordByName : String → Option Con
  | "volume" => some Gen.volumeDirectoryRecord
  | "header" => some Gen.imageFileDescriptor
  | "dataset_summary" => some Gen.datasetSummaryRecord
  | "radiometric" => some Gen.radiometricDataRecord
  | "dqs" => some Gen.dataQualitySummaryRecord
  | "record5" => some Gen.facilityRelatedData5Record
  | "platform_position" => some Gen.platformPositionRecord
  | "map_projection" => some Gen.mapProjectionRecord
  | "attitude" => some Gen.attitudeRecord
  | "leader" => some Gen.sarLeaderRecord
  | "lines10" => some Gen.signalDataRecord
  | "lines11" => some Gen.processedDataRecord
  | _ => none

-- Python values on the wire: {"n":null} {"b":true} {"i":"12"} {"f":"1.5"} {"s":".."} {"l":[..]} {"t":[..]} {"d":[[k,v],..]}
partial def pyOfJson (j : Json) : PyVal :=
  match j.getObjVal? "b" with
  | .ok (.bool b) => .bool b
  | _ =>
  match j.getObjVal? "i" with
  | .ok (.str s) => .int (s.toInt?.getD 0)
  | _ =>
  match j.getObjVal? "f" with
  | .ok (.str s) => .float s
  | _ =>
  match j.getObjVal? "s" with
  | .ok (.str s) => .str s
  | _ =>
  match j.getObjVal? "l" with
  | .ok (.arr xs) => .list (xs.toList.map pyOfJson)
  | _ =>
  match j.getObjVal? "t" with
  | .ok (.arr xs) => .tuple (xs.toList.map pyOfJson)
  | _ =>
  match j.getObjVal? "d" with
  | .ok (.arr xs) => .dict (xs.toList.map (fun kv => match kv with
      | .arr #[.str k, v] => (k, pyOfJson v)
      | _ => ("", .none)))
  | _ => .none

partial def pyToJson : PyVal → Json
  | .none => Json.mkObj [("n", Json.null)]
  | .bool b => Json.mkObj [("b", Json.bool b)]
  | .int i => Json.mkObj [("i", Json.str (toString i))]
  | .float t => Json.mkObj [("f", Json.str t)]
  | .str s => Json.mkObj [("s", Json.str s)]
  | .list xs => Json.mkObj [("l", Json.arr (xs.map pyToJson).toArray)]
  | .tuple xs => Json.mkObj [("t", Json.arr (xs.map pyToJson).toArray)]
  | .dict kvs => Json.mkObj [("d", Json.arr (kvs.map (fun (k, v) => Json.arr #[Json.str k, pyToJson v])).toArray)]

def pyKvsOfJson (j : Json) : List (String × PyVal) := match j with
  | .arr xs => xs.toList.map (fun kv => match kv with
      | .arr #[.str k, v] => (k, pyOfJson v)
      | _ => ("", .none))
  | _ => []

def pyKvsToJson (kvs : List (String × PyVal)) : Json := Json.arr (kvs.map (fun (k, v) => Json.arr #[Json.str k, pyToJson v])).toArray

def arrOfJson (j : Json) : ArrData :=
  match j.getObjVal? "nd" with
  | .ok a => .nd ⟨getStr a "dtype", ((a.getObjValAs? (List Nat) "shape").toOption).getD [], (getArr a "flat").toList.map pyOfJson⟩
  | .error _ =>
    let b := (j.getObjVal? "backend").toOption.getD .null
    .backend ⟨getStr b "root", getStr b "url", pyOfJson ((b.getObjVal? "shape").toOption.getD .null), getStr b "dtype",
              pyOfJson ((b.getObjVal? "byte_ranges").toOption.getD .null), getStr b "type_code", getNat b "rpc"⟩

def arrToJson : ArrData → Json
  | .nd a => Json.mkObj [("nd", Json.mkObj [("dtype", Json.str a.dtype), ("shape", toJson a.shape), ("flat", Json.arr (a.flat.map pyToJson).toArray)])]
  | .backend b => Json.mkObj [("backend", Json.mkObj [("root", Json.str b.root), ("url", Json.str b.url), ("shape", pyToJson b.shape),
      ("dtype", Json.str b.dtype), ("byte_ranges", pyToJson b.byteRanges), ("type_code", Json.str b.typeCode), ("rpc", toJson b.rpc)])]

mutual
partial def groupOfJson (j : Json) : CGroup :=
  .mk (getStr j "path") (pyOfJson ((j.getObjVal? "url").toOption.getD .null))
    ((getArr j "data").toList.map (fun kv => match kv with
      | .arr #[.str k, n] => (k, nodeOfJson n)
      | _ => ("", .var ⟨.none, .nd ⟨"", [], []⟩, []⟩)))
    (pyKvsOfJson ((j.getObjVal? "attrs").toOption.getD .null))
partial def nodeOfJson (j : Json) : CNode :=
  match j.getObjVal? "var" with
  | .ok v => .var ⟨pyOfJson ((v.getObjVal? "dims").toOption.getD .null), arrOfJson ((v.getObjVal? "data").toOption.getD .null),
                   pyKvsOfJson ((v.getObjVal? "attrs").toOption.getD .null)⟩
  | .error _ => .group (groupOfJson ((j.getObjVal? "group").toOption.getD .null))
end

mutual
partial def groupToJson : CGroup → Json
  | .mk path url data attrs => Json.mkObj [("path", Json.str path), ("url", pyToJson url),
      ("data", Json.arr (data.map (fun (k, n) => Json.arr #[Json.str k, nodeToJson n])).toArray), ("attrs", pyKvsToJson attrs)]
partial def nodeToJson : CNode → Json
  | .var v => Json.mkObj [("var", Json.mkObj [("dims", pyToJson v.dims), ("data", arrToJson v.data), ("attrs", pyKvsToJson v.attrs)])]
  | .group g => Json.mkObj [("group", groupToJson g)]
end

def optText (j : Json) (k : String) : Option (List Char) := match j.getObjVal? k with
  | .ok (.str s) => some s.toList
  | _ => none

def textJson : Option (List Char) → Json
  | some t => Json.str (String.ofList t)
  | none => Json.null

def opOfJson (j : Json) : Op :=
  match getStr j "op" with
  | "open" => .open_ (((j.getObjValAs? Bool "use").toOption).getD true) (((j.getObjValAs? Bool "create").toOption).getD false) (getNat j "rpc")
  | "cli" => .cli (getNat j "rpc")
  | "delLocal" => .delLocal
  | "delAdjacent" => .delAdjacent
  | "crashLocal" => .crashLocal (getNat j "rpc") (getNat j "k")
  | _ => .crashAdjacent (getNat j "rpc") (getNat j "k")

def decodedJson (d : Decoded) : Json :=
  Json.arr (d.map (fun (k, v) => Json.arr #[Json.str k, match v with | some t => Json.str t | none => Json.null])).toArray

def svalJson : SVal → Json
  | .text s => Json.mkObj [("s", Json.str s)]
  | .int i => Json.mkObj [("i", Json.str (toString i))]
  | .float t => Json.mkObj [("f", Json.str t)]
  | .ints xs => Json.mkObj [("ints", Json.arr (xs.map (fun i => Json.str (toString i))).toArray)]
  | .texts xs => Json.mkObj [("texts", toJson xs)]

def attrsJson (a : Attrs) : Json := Json.arr (a.map (fun (k, v) => Json.arr #[Json.str k, svalJson v])).toArray

def imageGroupJson (g : ImageGroup) : Json :=
  Json.mkObj [("group", grpJson g.group),
    ("array", Json.mkObj [("type_code", Json.str g.array.typeCode),
      ("shape", Json.arr #[Json.str (toString g.array.shape.1), Json.str (toString g.array.shape.2)]),
      ("dtype", Json.str g.array.dtype),
      ("byte_ranges", Json.arr (g.array.byteRanges.map (fun (a, b) => Json.arr #[Json.str (toString a), Json.str (toString b)])).toArray),
      ("rpc", toJson g.array.rpc)])]

def summaryJson (gs : List (String × SGroup)) : Json :=
  Json.arr (gs.map (fun (name, g) => Json.arr #[Json.str name,
    Json.mkObj [("attrs", attrsJson g.attrs), ("groups", Json.arr (g.groups.map (fun (n, a) => Json.arr #[Json.str n, attrsJson a])).toArray)]])).toArray

def layoutByName : String → Option Con
  | "recordPreamble" => some Gen.recordPreamble
  | "imageFileDescriptor" => some Gen.imageFileDescriptor
  | "signalDataRecord" => some Gen.signalDataRecord
  | "processedDataRecord" => some Gen.processedDataRecord
  | "sarLeaderRecord" => some Gen.sarLeaderRecord
  | "volumeDirectoryRecord" => some Gen.volumeDirectoryRecord
  | "trailerFileDescriptor" => some Gen.trailerFileDescriptor
  | _ => none

def step (j : Json) : Json :=
  match getStr j "op" with
  | "getitem" =>
    let img : Image := { file := unhex (getStr j "file"), ranges := pairs (getArr j "ranges"),
                         ncols := getNat j "ncols", bpp := getNat j "bpp", rpc := getNat j "rpc" }
    let k0 := parseIdx ((j.getObjVal? "k0").toOption.getD .null)
    let k1 := parseIdx ((j.getObjVal? "k1").toOption.getD .null)
    let (res, tr) := getitem img k0 k1
    let t := Json.arr (tr.map evJson).toArray
    match res with
    | .ok a => Json.mkObj [("ok", arrJson a), ("trace", t)]
    | .error e => Json.mkObj [("err", Json.str e.name), ("trace", t)]
  | "npindex" =>
    let full : List (List Bytes) := (getArr j "full").toList.map (fun r => match r with
      | .arr xs => xs.toList.map (fun s => unhex ((s.getStr?).toOption.getD ""))
      | _ => [])
    let k0 := parseIdx ((j.getObjVal? "k0").toOption.getD .null)
    let k1 := parseIdx ((j.getObjVal? "k1").toOption.getD .null)
    match npIndex full (getNat j "ncols") k0 k1 with
    | .ok a => Json.mkObj [("ok", arrJson a)]
    | .error e => Json.mkObj [("err", Json.str e.name)]
  | "readmeta" =>
    let t : RecordTypes := { table := pairs (getArr j "types") }
    let (res, reads) := readMetadata t (unhex (getStr j "file")) (getNat j "n") (getNat j "L") (getNat j "rpc")
    match res with
    | .ok rs => Json.mkObj [("ok", Json.arr (rs.map (fun (a, b, c) => Json.arr #[toJson a, toJson b, toJson c])).toArray), ("reads", toJson reads)]
    | .error e => Json.mkObj [("err", Json.str e.name), ("reads", toJson reads)]
  | "parse" =>
    match layoutByName (getStr j "layout") with
    | none => Json.mkObj [("bad-layout", Json.str (getStr j "layout"))]
    | some c =>
      match parse c [] (unhex (getStr j "data")) 0 with
      | .ok (v, pos) => Json.mkObj [("ok", valJson v), ("pos", toJson pos)]
      | .error e => Json.mkObj [("err", Json.str e.name)]
  | "read_records" =>
    -- the layout-based reader (`Model/Product.lean`): addresses of every line record, or the error class
    match readImageRecords (unhex (getStr j "file")) (getNat j "rpc") with
    | .ok (_, recs) =>
      let row (r : Val) : Json := match intAt r ["record_start"], intAt r ["data", "start"], intAt r ["data", "stop"] with
        | .ok a, .ok b, .ok c => Json.arr #[toJson a, toJson b, toJson c]
        | _, _, _ => Json.null
      Json.mkObj [("ok", Json.arr (recs.map row).toArray)]
    | .error e => Json.mkObj [("err", Json.str e.name)]
  | "encode_image" =>
    -- `caching.encode(open_image(...))` before json.dumps; float tokens are markers the harness evaluates with CPython
    let fr : FloatRepr := { ofTok := fun t => "!f:" ++ t, mulTok := fun t f => "!fm:" ++ t ++ "*" ++ f, mulInt := fun v f => "!im:" ++ toString v ++ "*" ++ f }
    match encodeImage fr (getStr j "root") (unhex (getStr j "file")) (getStr j "name") (getNat j "rpc") with
    | .ok d => Json.mkObj [("ok", pyToJson d)]
    | .error e => Json.mkObj [("err", Json.str e.name)]
  | "open_image" =>
    match openImageFile (unhex (getStr j "file")) (getStr j "name") (getNat j "rpc") with
    | .ok (name, g) => Json.mkObj [("ok", Json.mkObj [("name", Json.str name), ("image", imageGroupJson g)])]
    | .error e => Json.mkObj [("err", Json.str e.name)]
  | "open_product" =>
    let files : Files := (getArr j "files").toList.map (fun f => match f with
      | .arr xs => (((xs.getD 0 .null).getStr?).toOption.getD "", unhex (((xs.getD 1 .null).getStr?).toOption.getD ""))
      | _ => ("", []))
    match openProduct files (getNat j "rpc") with
    | .ok p => Json.mkObj [("ok", Json.mkObj [("root_attrs", kvsJson p.rootAttrs), ("summary", summaryJson p.summary),
        ("metadata", grpJson p.metadata),
        ("imagery", Json.arr (p.imagery.map (fun (n, g) => Json.arr #[Json.str n, imageGroupJson g])).toArray)])]
    | .error e => Json.mkObj [("err", Json.str e.name)]
  | "product_cached" =>
    -- ONE cache-first open of a whole product (`Model/ProductCached.lean`) from given index files: result and index files afterwards
    let fr : FloatRepr := { ofTok := fun t => "!f:" ++ t, mulTok := fun t f => "!fm:" ++ t ++ "*" ++ f, mulInt := fun v f => "!im:" ++ toString v ++ "*" ++ f }
    let files : Files := (getArr j "files").toList.map (fun f => match f with
      | .arr xs => (((xs.getD 0 .null).getStr?).toOption.getD "", unhex (((xs.getD 1 .null).getStr?).toOption.getD ""))
      | _ => ("", []))
    let caches : Caches := (getArr j "caches").toList.map (fun e => (getStr e "name", ({ loc := optText e "loc", adj := optText e "adj" } : CState)))
    let use := ((j.getObjValAs? Bool "use").toOption).getD true
    let create := ((j.getObjValAs? Bool "create").toOption).getD false
    let (r, c') := openProductCached fr jsonLoads (getStr j "root") files caches use create (getNat j "rpc")
    let cj := Json.arr (caches.map (fun kv => Json.mkObj [("name", Json.str kv.1), ("loc", textJson (c'.get kv.1).loc), ("adj", textJson (c'.get kv.1).adj)])).toArray
    match r with
    | .ok p => Json.mkObj [("ok", Json.arr (p.imagery.map (fun (n, g) => Json.arr #[Json.str n, pyToJson (encodeDoc g)])).toArray), ("caches", cj)]
    | .error e => Json.mkObj [("err", Json.str e.name), ("caches", cj)]
  | "to_dataset" =>
    let vars := ((j.getObjValAs? (List String) "vars").toOption).getD []
    let attrs : KVs Leaf := (getArr j "attrs").toList.map (fun a => match a with
      | .arr xs => (((xs.getD 0 .null).getStr?).toOption.getD "",
          match (xs.getD 1 .null) with
          | .arr ys => PVal.list (ys.toList.map (fun y => PVal.cstr ((y.getStr?).toOption.getD "")))
          | .str t => PVal.cstr t
          | _ => PVal.cint 0)
      | _ => ("", PVal.cint 0))
    match toDatasetNames vars attrs with
    | some d => Json.mkObj [("ok", Json.mkObj [("data_vars", toJson d.dataVars), ("coords", toJson d.coords), ("attrs", toJson (d.attrs.map Prod.fst))])]
    | none => Json.mkObj [("err", Json.str "missing")]
  | "trailer" =>
    match readTrailer (unhex (getStr j "file")) with
    | .ok imgs => Json.mkObj [("ok", Json.arr (imgs.map (fun im => Json.arr (im.map (fun row => Json.arr (row.map (fun x => Json.str (toString x))).toArray)).toArray)).toArray)]
    | .error e => Json.mkObj [("err", Json.str e.name)]
  | "transform" =>
    let what := getStr j "what"
    match recordByName what with
    | none => Json.mkObj [("bad-record", Json.str what)]
    | some c =>
      let c' := if what = "lines10" ∨ what = "lines11" then Con.array (.const (getNat j "n")) c else c
      match parse c' [] (unhex (getStr j "data")) 0 with
      | .error e => Json.mkObj [("parse-err", Json.str e.name)]
      | .ok (v, _) =>
        let pv := v.toPVal
        let optG (o : Option (Grp Leaf)) : Json := match o with
          | some g => Json.mkObj [("ok", grpJson g)]
          | none => Json.mkObj [("uninterpreted", Json.null)]
        let optK (o : Option (KVs Leaf)) : Json := match o with
          | some kvs => Json.mkObj [("ok", kvsJson kvs)]
          | none => Json.mkObj [("uninterpreted", Json.null)]
        match what with
        | "volume" => optK (transformVolumeRecord realLeafFns pv)
        | "header" => optK (extractAttrs realLeafFns pv)
        | "dataset_summary" => optG (transformDatasetSummary realLeafFns pv)
        | "radiometric" => optG (transformRadiometricData pv)
        | "dqs" => optG (transformDataQualitySummary pv)
        | "record5" => optG (transformRecord5 realLeafFns pv)
        | "platform_position" => optG (transformPlatformPosition realLeafFns2 pv)
        | "map_projection" => optG (transformMapProjection realLeafFns2 pv)
        | "attitude" => optG (transformAttitude realLeafFns2 pv)
        | "leader" => optG (transformLeaderMetadata realLeafFns3 pv)
        | _ => match pv with
          | .list recs => Json.mkObj [("ok", grpJson (transformLineMetadata recs))]
          | _ => Json.mkObj [("bad", Json.null)]
  | "decode" =>
    let str := getStr j "s"
    let r : Except Err Json := match getStr j "fn" with
      | "scene_id" => (decodeSceneId str).map decodedJson
      | "product_id" => (decodeProductId str).map decodedJson
      | "scan_info" => (decodeScanInfo (match j.getObjVal? "s" with | .ok (.str t) => some t | _ => none)).map decodedJson
      | "filename" => (decodeFilename str).map decodedJson
      | _ => (groupName str).map Json.str
    match r with
    | .ok v => Json.mkObj [("ok", v)]
    | .error e => Json.mkObj [("err", Json.str e.name)]
  | "summary" =>
    match parseSummary (getStr j "text").toList with
    | .error lines => Json.mkObj [("lines", toJson lines)]
    | .ok secs =>
      match transformSummary secs with
      | .error e => Json.mkObj [("err", Json.str e.name)]
      | .ok gs => Json.mkObj [("ok", Json.arr (gs.map (fun (name, g) => Json.arr #[Json.str name,
          Json.mkObj [("attrs", attrsJson g.attrs), ("groups", Json.arr (g.groups.map (fun (n, a) => Json.arr #[Json.str n, attrsJson a])).toArray)]])).toArray)]
  | "time" =>
    let what := getStr j "what"
    let showE (r : Except Err Int) : Json := match r with
      | .ok v => Json.mkObj [("ok", Json.str (toString v))]
      | .error e => Json.mkObj [("err", Json.str e.name)]
    let showO (r : Option Int) : Json := match r with
      | some v => Json.mkObj [("ok", Json.str (toString v))]
      | none => Json.mkObj [("err", Json.str "ValueError")]
    match what with
    | "line" => showE (lineTimeNs (getNat j "y") (getNat j "doy") (getNat j "ms"))
    | "line_us" => showE (lineTimeUsNs (getNat j "y") (getNat j "doy") (getNat j "ms") (getNat j "us"))
    | "digits" => showO (digitsTextNs (getStr j "text"))
    | "first_point" => showO (firstPointNs (getNat j "y") (getNat j "mo") (getNat j "d") (getNat j "sec") (getStr j "frac").toList)
    | _ => Json.mkObj [("ok", Json.str (toString (attitudeNs (getNat j "y") (getNat j "doy") (getNat j "ms"))))]
  | "json_dump" => Json.mkObj [("text", Json.str (String.ofList (dump (pyOfJson ((j.getObjVal? "val").toOption.getD .null)))))]
  | "json_loads" =>
    match jsonLoads (getStr j "text").toList with
    | .ok v => Json.mkObj [("ok", pyToJson v)]
    | .error e => Json.mkObj [("err", Json.str e.name)]
  | "cache_encode" =>
    let g := groupOfJson ((j.getObjVal? "group").toOption.getD .null)
    Json.mkObj [("doc", pyToJson (encodeDoc g)), ("text", Json.str (String.ofList (docText g))), ("in_domain", Json.bool (g.InDomain domainFuel))]
  | "cache_decode" =>
    match jsonLoads (getStr j "text").toList with
    | .error _ => Json.mkObj [("err", Json.str "CachingError")]
    | .ok d => match decodeDoc (getNat j "rpc") d with
      | .ok g => Json.mkObj [("ok", groupToJson g)]
      | .error e => Json.mkObj [("err", Json.str e.name)]
  | "cache_flow" =>
    let base := groupOfJson ((j.getObjVal? "base").toOption.getD .null)
    let E : Env := { U := fun r => base.withRpc r, loads := jsonLoads }
    let st := (j.getObjVal? "state").toOption.getD .null
    let s0 : CState := { loc := optText st "loc", adj := optText st "adj" }
    let ops := (getArr j "ops").toList.map opOfJson
    let rec go (s : CState) : List Op → List Json
      | [] => [Json.mkObj [("final", Json.mkObj [("loc", textJson s.loc), ("adj", textJson s.adj)])]]
      | op :: rest =>
        match op with
        | .open_ use create rpc =>
          let r := openImage E s use create rpc
          let out := match r.result with
            | .ok g => Json.mkObj [("rpc", toJson rpc), ("ok", groupToJson g),
                ("source", Json.str (match r.source with | some .parsed => "parsed" | some .cacheLocal => "local" | some .cacheAdjacent => "adjacent" | none => "none")),
                ("loc", textJson r.state.loc), ("adj", textJson r.state.adj)]
            | .error e => Json.mkObj [("rpc", toJson rpc), ("err", Json.str e.name)]
          out :: go r.state rest
        | other => go (Alos2.step E s other).2 rest
    Json.mkObj [("outs", Json.arr (go s0 ops).toArray)]
  | "slice" =>
    let a := getArr j "s"
    match sliceIndices (getNat j "n") (optInt (a.getD 0 .null)) (optInt (a.getD 1 .null)) (optInt (a.getD 2 .null)) with
    | .ok l => Json.mkObj [("ok", toJson l)]
    | .error e => Json.mkObj [("err", Json.str e.name)]
  | "chunks" =>
    Json.mkObj [("sizes", toJson (chunkSizes (getNat j "n") (getNat j "rpc"))),
                ("norm", toJson (normalizeChunksize (getNat j "rpc") (getNat j "n")))]
  | op => Json.mkObj [("bad-op", Json.str op)]

partial def loop (h : IO.FS.Stream) (out : IO.FS.Stream) : IO Unit := do
  let line ← h.getLine
  if line.isEmpty then return ()
  let r := match Json.parse line with
    | .ok j => step j
    | .error e => Json.mkObj [("bad-json", Json.str e)]
  out.putStrLn r.compress
  loop h out

def main : IO Unit := do
  loop (← IO.getStdin) (← IO.getStdout)

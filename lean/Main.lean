/-
Line-protocol driver: one JSON operation per input line, one JSON result per output line.
Run with `lake env lean --run Main.lean < ops.jsonl`.
The harness (`/verif/harness`) runs the real Python code on the same operations and diffs.
-/
import Lean.Data.Json
import Alos2

open Lean Alos2

def hexVal (c : Char) : Nat :=
  if '0' ≤ c ∧ c ≤ '9' then c.toNat - '0'.toNat
  else if 'a' ≤ c ∧ c ≤ 'f' then c.toNat - 'a'.toNat + 10
  else if 'A' ≤ c ∧ c ≤ 'F' then c.toNat - 'A'.toNat + 10 else 0

def unhex (s : String) : Bytes :=
  let rec go : List Char → List UInt8
    | a :: b :: rest => UInt8.ofNat (hexVal a * 16 + hexVal b) :: go rest
    | _ => []
  go s.toList

def hexDigit (n : Nat) : Char := if n < 10 then Char.ofNat (48 + n) else Char.ofNat (87 + n)

def tohex (bs : Bytes) : String :=
  String.ofList (bs.flatMap (fun b => [hexDigit (b.toNat / 16), hexDigit (b.toNat % 16)]))

def getNat (j : Json) (k : String) : Nat := ((j.getObjValAs? Nat k).toOption).getD 0
def getStr (j : Json) (k : String) : String := ((j.getObjValAs? String k).toOption).getD ""
def getArr (j : Json) (k : String) : Array Json := ((j.getObjValAs? (Array Json) k).toOption).getD #[]

def optInt (j : Json) : Option Int := match j with
  | .null => none
  | _ => (j.getInt?).toOption

def parseIdx (j : Json) : Idx :=
  match j.getObjVal? "int" with
  | .ok v => .int ((v.getInt?).toOption.getD 0)
  | .error _ =>
    let a := getArr j "slice"
    .slice (optInt (a.getD 0 .null)) (optInt (a.getD 1 .null)) (optInt (a.getD 2 .null))

def arrJson : Arr Bytes → Json
  | .d2 nc rows => Json.mkObj [("d2", Json.arr #[toJson nc, Json.arr (rows.map (fun r => Json.arr (r.map (fun s => Json.str (tohex s))).toArray)).toArray])]
  | .d1 xs => Json.mkObj [("d1", Json.arr (xs.map (fun s => Json.str (tohex s))).toArray)]
  | .d0 x => Json.mkObj [("d0", Json.str (tohex x))]

def evJson : IOEvent → Json
  | .open_ => Json.arr #["open"]
  | .seek o => Json.arr #["seek", toJson o]
  | .read k => Json.arr #["read", toJson k]
  | .close => Json.arr #["close"]

def pairs (a : Array Json) : List (Nat × Nat) :=
  a.toList.map (fun p => match p with
    | .arr xs => (((xs.getD 0 .null).getNat?).toOption.getD 0, ((xs.getD 1 .null).getNat?).toOption.getD 0)
    | _ => (0, 0))

def leafJson : Leaf → Json
  | .int v => Json.mkObj [("i", Json.str (toString v))]
  | .float t => Json.mkObj [("f", Json.str t)]
  | .complex re im => Json.mkObj [("c", Json.arr #[Json.str re, Json.str im])]
  | .str s => Json.mkObj [("s", Json.str s)]
  | .bytes b => Json.mkObj [("y", Json.str (tohex b))]
  | .bool b => Json.mkObj [("b", Json.bool b)]
  | .scaledF t f => Json.mkObj [("sf", Json.arr #[Json.str t, Json.str f])]
  | .scaledI v f => Json.mkObj [("si", Json.arr #[Json.str (toString v), Json.str f])]
  | .datetime ns => Json.mkObj [("t", Json.str (toString ns))]

partial def valJson : Val → Json
  | .leaf l => leafJson l
  | .list xs => Json.mkObj [("l", Json.arr (xs.map valJson).toArray)]
  | .dict kvs => Json.mkObj [("d", Json.arr (kvs.map (fun (k, v) => Json.arr #[Json.str k, valJson v])).toArray)]
  | .tup v attrs => Json.mkObj [("m", Json.arr #[valJson v, Json.arr (attrs.map (fun (k, a) => Json.arr #[Json.str k, Json.str a])).toArray])]

def layoutByName : String → Option Con
  | "recordPreamble" => some Gen.recordPreamble
  | "imageFileDescriptor" => some Gen.imageFileDescriptor
  | "signalDataRecord" => some Gen.signalDataRecord
  | "processedDataRecord" => some Gen.processedDataRecord
  | "sarLeaderRecord" => some Gen.sarLeaderRecord
  | "volumeDirectoryRecord" => some Gen.volumeDirectoryRecord
  | "trailerFileDescriptor" => some Gen.trailerFileDescriptor
  | _ => none

def step (j : Json) : Json :=
  match getStr j "op" with
  | "getitem" =>
    let img : Image := { file := unhex (getStr j "file"), ranges := pairs (getArr j "ranges"),
                         ncols := getNat j "ncols", bpp := getNat j "bpp", rpc := getNat j "rpc" }
    let k0 := parseIdx ((j.getObjVal? "k0").toOption.getD .null)
    let k1 := parseIdx ((j.getObjVal? "k1").toOption.getD .null)
    let (res, tr) := getitem img k0 k1
    let t := Json.arr (tr.map evJson).toArray
    match res with
    | .ok a => Json.mkObj [("ok", arrJson a), ("trace", t)]
    | .error e => Json.mkObj [("err", Json.str e.name), ("trace", t)]
  | "npindex" =>
    let full : List (List Bytes) := (getArr j "full").toList.map (fun r => match r with
      | .arr xs => xs.toList.map (fun s => unhex ((s.getStr?).toOption.getD ""))
      | _ => [])
    let k0 := parseIdx ((j.getObjVal? "k0").toOption.getD .null)
    let k1 := parseIdx ((j.getObjVal? "k1").toOption.getD .null)
    match npIndex full (getNat j "ncols") k0 k1 with
    | .ok a => Json.mkObj [("ok", arrJson a)]
    | .error e => Json.mkObj [("err", Json.str e.name)]
  | "readmeta" =>
    let t : RecordTypes := { table := pairs (getArr j "types") }
    let (res, reads) := readMetadata t (unhex (getStr j "file")) (getNat j "n") (getNat j "L") (getNat j "rpc")
    match res with
    | .ok rs => Json.mkObj [("ok", Json.arr (rs.map (fun (a, b, c) => Json.arr #[toJson a, toJson b, toJson c])).toArray), ("reads", toJson reads)]
    | .error e => Json.mkObj [("err", Json.str e.name), ("reads", toJson reads)]
  | "parse" =>
    match layoutByName (getStr j "layout") with
    | none => Json.mkObj [("bad-layout", Json.str (getStr j "layout"))]
    | some c =>
      match parse c [] (unhex (getStr j "data")) 0 with
      | .ok (v, pos) => Json.mkObj [("ok", valJson v), ("pos", toJson pos)]
      | .error e => Json.mkObj [("err", Json.str e.name)]
  | "slice" =>
    let a := getArr j "s"
    match sliceIndices (getNat j "n") (optInt (a.getD 0 .null)) (optInt (a.getD 1 .null)) (optInt (a.getD 2 .null)) with
    | .ok l => Json.mkObj [("ok", toJson l)]
    | .error e => Json.mkObj [("err", Json.str e.name)]
  | "chunks" =>
    Json.mkObj [("sizes", toJson (chunkSizes (getNat j "n") (getNat j "rpc"))),
                ("norm", toJson (normalizeChunksize (getNat j "rpc") (getNat j "n")))]
  | op => Json.mkObj [("bad-op", Json.str op)]

partial def loop (h : IO.FS.Stream) (out : IO.FS.Stream) : IO Unit := do
  let line ← h.getLine
  if line.isEmpty then return ()
  let r := match Json.parse line with
    | .ok j => step j
    | .error e => Json.mkObj [("bad-json", Json.str e)]
  out.putStrLn r.compress
  loop h out

def main : IO Unit := do
  loop (← IO.getStdin) (← IO.getStdout)

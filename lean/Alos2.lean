import Alos2.Base.Bytes
import Alos2.Model.Array
import Alos2.Model.ImageIO
import Alos2.Model.Construct
import Alos2.Gen.Consts
import Alos2.Gen.Layouts

"""Lazy versus eager: whatever a user does with the returned tree must give what the same operation gives on a fully loaded,
plain in-memory copy of it (C12: declared shape / dtype match loaded data, size and repr work; C02: selections; C19: copies).

For every image group of a few synthesised products a battery of consumer operations — inspection without loading, copies and
pickles, chained / combined selections, arithmetic and reductions, coordinate-based access, export, concatenation — is applied
to the dataset as `open_alos2` returns it (lazy) and to an eager twin built from its loaded values; the canonicalised results
(bit patterns, dtypes, shapes, names; exceptions by class) must agree.  xarray's own semantics cancel out: both sides go through
the same xarray code, only the backing array differs."""
import copy
import pickle
import random

import numpy as np

import common
import oracle_tree
import products
import treecmp


def eager_twin(ds):
    import xarray as xr
    coords = {k: (v.dims, np.array(v.values), dict(v.attrs)) for k, v in ds.coords.items()}
    data = {k: (v.dims, np.array(v.values), dict(v.attrs)) for k, v in ds.data_vars.items()}
    return xr.Dataset(data, coords=coords, attrs=dict(ds.attrs))


def canon(x):
    import pandas as pd
    import xarray as xr
    if isinstance(x, (xr.DataArray, xr.Variable)):
        return {"dims": list(x.dims), "values": treecmp.canon_array(np.asarray(x.values)),
                "coords": sorted(map(str, getattr(x, "coords", {}))), "attrs": [[k, treecmp.canon_value(v)] for k, v in x.attrs.items()]}
    if isinstance(x, xr.Dataset):
        return {"vars": {str(k): canon(v) for k, v in x.variables.items()}, "coords": sorted(map(str, x.coords)),
                "attrs": [[k, treecmp.canon_value(v)] for k, v in x.attrs.items()]}
    if isinstance(x, (pd.Series, pd.DataFrame, pd.Index)):
        return {"pandas": type(x).__name__, "values": treecmp.canon_array(np.asarray(x.values)), "index": [str(i) for i in list(x.index)[:50]] if hasattr(x, "index") else None}
    if isinstance(x, np.ndarray):
        return treecmp.canon_array(x)
    if isinstance(x, dict):
        return {str(k): canon(v) for k, v in x.items()}
    if isinstance(x, (list, tuple)):
        return [canon(v) for v in x]
    if isinstance(x, np.dtype):
        return str(x)
    return treecmp.canon_value(x)


def battery(rng):
    """(name, function of a dataset) — every function returns something `canon` understands"""
    import xarray as xr

    def first_data(ds):
        return ds["data"]

    ops = [
        ("repr", lambda ds: (len(repr(ds)) > 0, len(repr(ds["data"])) > 0, len(str(ds["data"].variable)) > 0)),
        ("repr-html", lambda ds: len(ds._repr_html_()) > 0),
        ("nbytes", lambda ds: (int(ds.nbytes), int(ds["data"].nbytes), int(ds["data"].size), list(ds["data"].shape))),
        ("dtypes", lambda ds: {str(k): str(np.dtype(v.dtype).newbyteorder("=")) for k, v in ds.variables.items()}),
        ("sizes", lambda ds: dict(ds.sizes)),
        ("len-bool", lambda ds: (len(ds["data"]), len(ds), bool(ds["data"].ndim == 2))),
        ("values-twice", lambda ds: [first_data(ds).values, first_data(ds).values]),
        ("to-numpy", lambda ds: [first_data(ds).to_numpy(), np.asarray(first_data(ds)), np.asarray(first_data(ds).data)]),
        ("deepcopy", lambda ds: copy.deepcopy(ds)["data"]),
        ("copy", lambda ds: [copy.copy(ds)["data"], ds.copy(deep=True)["data"], ds.copy(deep=False)["data"], ds["data"].copy()]),
        ("pickle-dataset", lambda ds: pickle.loads(pickle.dumps(ds))),
        ("pickle-dataarray", lambda ds: pickle.loads(pickle.dumps(ds["data"]))),
        ("pickle-variable", lambda ds: pickle.loads(pickle.dumps(ds["data"].variable))),
        ("isel-chain", lambda ds: first_data(ds).isel(rows=slice(1, None)).isel(rows=slice(None, None, 2)).isel(columns=[0, -1])),
        ("isel-separate", lambda ds: first_data(ds).isel(columns=slice(None, None, -1)).isel(rows=[-1, 0])),
        ("isel-drop", lambda ds: first_data(ds).isel(rows=0, drop=True)),
        ("transpose", lambda ds: [first_data(ds).T, first_data(ds).transpose("columns", "rows").isel(rows=-1), first_data(ds).T.isel(columns=0)]),
        ("head-tail-thin", lambda ds: [first_data(ds).head(rows=2), first_data(ds).tail(rows=1), first_data(ds).thin(rows=2), ds.head(rows=1)]),
        ("squeeze", lambda ds: first_data(ds).isel(rows=[0]).squeeze()),
        ("load-then-select", lambda ds: first_data(ds).copy().load().isel(rows=slice(None, None, -1))),
        ("arithmetic", lambda ds: [first_data(ds) + 1, abs(first_data(ds)), first_data(ds) * first_data(ds), -first_data(ds).astype("complex128" if first_data(ds).dtype.kind == "c" else "int64")]),
        ("real-imag", lambda ds: [first_data(ds).real, first_data(ds).imag, first_data(ds).conj()]),
        ("reductions", lambda ds: [first_data(ds).astype("complex128" if first_data(ds).dtype.kind == "c" else "float64").sum(dim="rows"),
                                   abs(first_data(ds)).max(dim="columns"), first_data(ds).count(), abs(first_data(ds)).argmax(dim="rows")]),
        ("astype", lambda ds: [first_data(ds).astype("complex128"), abs(first_data(ds)).astype("float32")]),
        ("where-broadcast", lambda ds: first_data(ds).where(ds["rows"] >= ds["rows"].min(), other=0)),
        ("compare", lambda ds: [first_data(ds) == first_data(ds), (abs(first_data(ds)) > 0).sum()]),
        ("ufunc", lambda ds: [np.abs(first_data(ds)), np.isnan(abs(first_data(ds)).astype("float64"))]),
        ("coords-access", lambda ds: [ds["rows"], ds.coords["rows"], ds["data"].coords["rows"], sorted(map(str, ds.indexes))]),
        ("sortby", lambda ds: ds.sortby("rows")["data"]),
        ("reset-drop", lambda ds: [sorted(map(str, ds.reset_coords().data_vars)), sorted(map(str, ds.drop_vars("data").variables))]),
        ("to-index-series", lambda ds: [ds["rows"].to_index(), first_data(ds).isel(columns=0).to_series()]),
        ("to-dict", lambda ds: ds.isel(rows=slice(0, 2)).to_dict()),
        ("from-dict", lambda ds: xr.Dataset.from_dict(ds.isel(rows=slice(0, 2)).to_dict())),
        ("to-dataframe", lambda ds: first_data(ds).isel(columns=slice(0, 2)).to_dataframe(name="data")),
        ("to-array", lambda ds: ds[["data"]].to_array()),
        ("concat", lambda ds: xr.concat([first_data(ds), first_data(ds).isel(rows=slice(0, 1))], dim="rows")),
        ("merge", lambda ds: xr.merge([ds[["data"]].rename({"data": "a"}), ds[["data"]].rename({"data": "b"})])),
        ("equals-self", lambda ds: (bool(ds.equals(ds.copy(deep=True))), bool(ds["data"].identical(ds["data"].copy()))),),
        ("apply-ufunc", lambda ds: xr.apply_ufunc(np.abs, first_data(ds))),
        ("groupby", lambda ds: abs(first_data(ds)).astype("float64").groupby("rows").sum()),
        ("assign", lambda ds: ds.assign_coords(k=("rows", np.arange(ds.sizes["rows"]))).swap_dims(rows="k")["data"].isel(k=-1)),
        ("encoding-free-selection", lambda ds: (first_data(ds).isel(rows=slice(0, 1)).shape, str(np.dtype(first_data(ds).isel(rows=slice(0, 1)).dtype).newbyteorder("=")))),
    ]
    rng.shuffle(ops)
    return ops


def run_one(fn, ds):
    try:
        return {"ok": canon(fn(ds))}
    except Exception as e:  # noqa: BLE001
        return {"raises": type(e).__name__, "site": common.failure_site(e), "msg": str(e)[:120]}


def check(seed, tier):
    import warnings
    warnings.filterwarnings("ignore", category=RuntimeWarning)   # NaN payloads in casts / comparisons: both sides alike
    rng = random.Random(seed + 1212)
    viol, evals, distinct, samples = [], 0, set(), []
    for trial in range(3 if tier == "quick" else 24):
        level = ["1.1", "1.5"][trial % 2]
        cfg = {"seed": rng.randrange(10**9), "level": level, "images": [("HH", None), ("HV", rng.choice([None, "F2"]))][: rng.randint(1, 2)],
               "n_lines": rng.randint(3, 7), "n_pixels": rng.randint(2, 4), "n_att": 1, "n_chan": 1, "mapproj": None}
        prod = products.build(cfg)
        path, clean = products.place(prod, rng.choice(["memory", "local"]))
        try:
            rpc = rng.choice([1, 2, 1024])
            t = oracle_tree._open(path, records_per_chunk=rpc)
            for im in prod.images:
                g = products.group_name(im)
                ops = battery(rng)
                for name, fn in ops:
                    # a FRESH lazy dataset per operation (an operation may load or cache): the tree is re-opened
                    lazy = oracle_tree._open(path, records_per_chunk=rpc)[f"imagery/{g}"].to_dataset(inherit=False)
                    eager = eager_twin(t[f"imagery/{g}"].to_dataset(inherit=False))
                    evals += 1
                    distinct.add((level, g, rpc, name))
                    a, b = run_one(fn, lazy), run_one(fn, eager)
                    case = {"cfg": cfg, "group": g, "rpc": rpc, "operation": name}
                    if "raises" in b:
                        # the operation is not defined for such data (both must then fail the same way)
                        if "raises" not in a or a["raises"] != b["raises"]:
                            viol.append({"case": case, "what": f"'{name}' on the in-memory twin raises {b['raises']}, on the returned (lazy) dataset: {str(a)[:150]}"})
                        continue
                    if "raises" in a:
                        viol.append({"case": case, "what": f"'{name}' works on an in-memory copy but on the returned (lazy) dataset raises {a['raises']}: {a['msg']}", "key": a["site"]})
                    elif a["ok"] != b["ok"]:
                        viol.append({"case": case, "what": f"'{name}' gives a different result on the returned (lazy) dataset than on an in-memory copy of it"})
                    elif len(samples) < 2:
                        samples.append(case)
        except Exception as e:  # noqa: BLE001
            viol.append({"case": {"cfg": cfg}, "what": f"{type(e).__name__}: {e}"[:300], "key": common.failure_site(e)})
        finally:
            clean()
    return {"name": "oracle:lazy versus eager under consumer operations", "evaluations": evals, "distinct": len(distinct), "violations": viol, "samples": samples}


if __name__ == "__main__":
    import json
    import sys
    r = check(int(sys.argv[1]) if len(sys.argv) > 1 else 0, sys.argv[2] if len(sys.argv) > 2 else "quick")
    print(r["name"], r["evaluations"], r["distinct"], "violations:", len(r["violations"]))
    seen = set()
    for v in r["violations"]:
        k = v["case"].get("operation", "") + v["what"][:40]
        if k in seen:
            continue
        seen.add(k)
        print("  ", json.dumps(v, default=str)[:400])

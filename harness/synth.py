"""Independent product synthesiser.

Reads only the *frozen* layout specification ``spec/layouts.json`` (and ``spec/required.json``);
shares no code with /repo and none with the translator.  Produces the bytes of every file of a
CEOS ALOS-2 product together with the value tree it was synthesised from (what a correct reader
must report for each field).

Value tree: struct -> dict (insertion ordered), array -> list, leaf -> Leaf.
"""
import json
import math
import os
import random
import struct as pystruct
from dataclasses import dataclass, field
from typing import Any

HERE = os.path.dirname(os.path.abspath(__file__))
SPEC_DIR = os.path.join(os.path.dirname(HERE), "spec")


def load_layouts():
    with open(os.path.join(SPEC_DIR, "layouts.json"), encoding="utf-8") as f:
        return json.load(f)


def load_required():
    with open(os.path.join(SPEC_DIR, "required.json"), encoding="utf-8") as f:
        return json.load(f)


@dataclass
class Leaf:
    kind: str
    raw: bytes
    val: Any  # documented reading of the field (after scale); for ydms/ydus: integer ns since epoch
    attrs: dict = field(default_factory=dict)  # units etc. (Metadata)
    nullable: bool = True
    blank: bool = False
    off: int = -1  # byte offset inside the record

    def __repr__(self):
        return f"Leaf({self.kind}, {self.raw!r}, {self.val!r})"


# ------------------------------------------------------------------------------------------
# calendar (independent: proleptic Gregorian, days from civil, Howard Hinnant's algorithm)


def days_from_civil(y, m, d):
    y -= m <= 2
    era = (y if y >= 0 else y - 399) // 400
    yoe = y - era * 400
    doy = (153 * (m + (-3 if m > 2 else 9)) + 2) // 5 + d - 1
    doe = yoe * 365 + yoe // 4 - yoe // 100 + doy
    return era * 146097 + doe - 719468


def is_leap(y):
    return y % 4 == 0 and (y % 100 != 0 or y % 400 == 0)


def year_len(y):
    return 366 if is_leap(y) else 365


def instant_ns(year, doy, ns_of_day):
    """ns since 1970-01-01 of (year, day-of-year with 1 = 1 January, ns of day)."""
    return (days_from_civil(year, 1, 1) + (doy - 1)) * 86400 * 10**9 + ns_of_day


def civil_from_doy(year, doy):
    mdays = [31, 29 if is_leap(year) else 28, 31, 30, 31, 30, 31, 31, 30, 31, 30, 31]
    m = 0
    d = doy
    while d > mdays[m]:
        d -= mdays[m]
        m += 1
    return year, m + 1, d


# ------------------------------------------------------------------------------------------
# expression evaluation over the context of already generated *values*


class Ctx(dict):
    parent = None


def eval_expr(e, ctx):
    x = e["x"]
    if x == "const":
        return e["v"]
    if x == "path":
        cur = ctx
        for name in e["p"]:
            cur = cur.parent if name == "_" else cur[name]
        return cur
    l, r = eval_expr(e["l"], ctx), eval_expr(e["r"], ctx)
    return {"add": l + r, "sub": l - r, "mul": l * r}[x]


# ------------------------------------------------------------------------------------------
# leaf text generators

PRINTABLE = "".join(chr(c) for c in range(0x21, 0x7F))


def pad_text(text, n, rng, align=None):
    assert len(text) <= n, (text, n)
    free = n - len(text)
    align = align or rng.choice(["r", "l", "c"])
    if align == "r":
        left = free
    elif align == "l":
        left = 0
    else:
        left = rng.randint(0, free)
    return (" " * left + text + " " * (free - left)).encode("ascii")


def gen_int_text(n, rng, lo=None, hi=None):
    maxdigits = n
    style = rng.random()
    if lo is None:
        if style < 0.1:
            v = 0
        elif style < 0.2:
            v = 10**maxdigits - 1
        elif style < 0.3 and n >= 2:
            v = -(10 ** (maxdigits - 1) - 1)
        else:
            v = rng.randint(0, 10 ** rng.randint(1, maxdigits) - 1)
    else:
        v = rng.randint(lo, hi)
    text = str(v)
    if v >= 0 and len(text) < n and rng.random() < 0.1:
        text = "+" + text
    elif v >= 0 and len(text) < n and rng.random() < 0.15:
        text = text.zfill(rng.randint(len(text), n))
    return text, v


def int_text_form(rng, v, n):
    """one of the valid ASCII spellings of the integer v that fit n characters: plain, zero-filled, explicit sign, -0"""
    forms = [str(v)] * 6
    if v >= 0:
        forms += [str(v).zfill(w) for w in range(len(str(v)) + 1, n + 1)][:3] + [str(v).zfill(n)]
        forms += ["+" + str(v), "+" + str(v).zfill(max(1, n - 1))]
    if v == 0:
        forms += ["-0", "-" + "0" * max(1, n - 1)]
    forms = [f for f in forms if 0 < len(f) <= n]
    return rng.choice(forms) if forms else str(v)


def gen_float_text(n, rng):
    for _ in range(50):
        style = rng.random()
        if style < 0.08:
            x = 0.0
        elif style < 0.5:
            x = rng.uniform(-1, 1) * 10 ** rng.randint(-3, 6)
        else:
            x = rng.uniform(-9.99, 9.99) * 10 ** rng.randint(-30, 30)
        p = rng.randint(0, max(0, n - 8))
        fmt = rng.choice(["f", "E", "e", "g", "f", "E", "e", "g", "#E", "#e", "#f", "bareexp"])
        if fmt in ("#E", "#e", "#f"):
            text = format(x, f"#.0{fmt[1]}")            # a bare decimal point: "5.E+03", "2.e-05", "7."
        elif fmt == "bareexp":
            m_, e_ = format(x, f".{p}e").split("e")
            text = f"{m_}{rng.choice('eE')}{int(e_)}"     # exponent without sign padding: "1.5e5", "2E-7"
        else:
            text = format(x, f".{p}{fmt}")
        if rng.random() < 0.1 and not text.startswith("-"):
            text = "+" + text
        if rng.random() < 0.05 and text.startswith("0.") and len(text) > 2 and text[2].isdigit():
            text = text[1:]
        if len(text) <= n and text.strip():
            v = float(text)
            return text, v
    return "0", 0.0


def gen_str_text(n, rng):
    if n == 0:
        return ""
    k = rng.randint(1, n)
    words = "".join(rng.choice(PRINTABLE + "   ") for _ in range(k)).strip()
    return words if words else rng.choice(PRINTABLE)


# ------------------------------------------------------------------------------------------


class Builder:
    """Generate values and bytes for a layout node.

    ``overrides``: path -> python value forcing a leaf (ints for counts etc., str for texts,
    bytes to force raw content).  ``required``: path -> generator hint for fields the format
    requires to be filled.  ``blank_prob``: probability that a nullable ascii field is left blank.
    """

    def __init__(self, rng, overrides=None, required=None, blank_prob=0.0, unknown_enum_prob=0.0):
        self.rng = rng
        self.overrides = overrides or {}
        self.required = required or {}
        self.blank_prob = blank_prob
        self.unknown_enum_prob = unknown_enum_prob

    # -- helpers
    def _norm(self, path):
        # replace [i] indices by [] for lookup in the required table
        out = []
        for p in path:
            out.append("[]" if isinstance(p, int) else p)
        return ".".join(out).replace(".[]", "[]")

    def _key(self, path):
        return ".".join(f"[{p}]" if isinstance(p, int) else p for p in path).replace(".[", "[")

    def build(self, node, path=(), ctx=None, start=0):
        """returns (bytes, value tree, decoded ctx value)"""
        k = node["k"]
        rng = self.rng
        key = self._key(path)
        hint = self.required.get(self._norm(path))
        ov = self.overrides.get(key, self.overrides.get(self._norm(path)))
        if k == "struct":
            sub = Ctx()
            sub.parent = ctx
            out = bytearray()
            tree = {}
            for name, child in node["fields"]:
                b, t, v = self.build(child, path + (name,), sub, start + len(out))
                out += b
                tree[name] = t
                sub[name] = v
            return bytes(out), tree, sub
        if k == "array":
            count = eval_expr(node["count"], ctx)
            out = bytearray()
            items, vals = [], []
            for i in range(count):
                b, t, v = self.build(node["elem"], path + (i,), ctx, start + len(out))
                out += b
                items.append(t)
                vals.append(v)
            return bytes(out), items, vals
        if k == "uint":
            n = node["n"]
            if ov is not None:
                v = ov
            elif hint and hint.get("gen") == "range":
                v = rng.randint(hint["lo"], hint["hi"])
            else:
                r = rng.random()
                if r < 0.1:
                    v = 0
                elif r < 0.2:
                    v = 2 ** (8 * n) - 1
                elif r < 0.3:
                    # bit patterns that mean something else when read as text or as a signed number: all blanks / all '0' /
                    # sign bit only / just below it / one
                    v = rng.choice([int.from_bytes(b" " * n, "big"), int.from_bytes(b"0" * n, "big"), 2 ** (8 * n - 1),
                                    2 ** (8 * n - 1) - 1, 1, int.from_bytes(b"\x00" * (n - 1) + b" ", "big")])
                else:
                    v = rng.randint(0, 2 ** (8 * n) - 1)
            raw = v.to_bytes(n, "big")
            return raw, Leaf("uint", raw, v, nullable=False, off=start), v
        if k in ("aint", "afloat", "pstr", "acomplex"):
            n = eval_expr(node["n"], ctx)
            if n < 0:
                raise ValueError(f"negative length {n} at {key}")
            nullable = hint is None
            if ov is not None:
                if isinstance(ov, bytes):
                    raw = ov
                else:
                    raw = pad_text(str(ov), n, rng, "r" if k != "pstr" else "l")
                val = self._read(k, raw)
                # an override that blanks the field (all spaces / all NULs) is a blank like the generated ones
                is_blank = isinstance(ov, bytes) and n > 0 and raw.strip(b" ") in (b"", b"\x00" * n)
                return raw, Leaf(k, raw, val, blank=is_blank, nullable=nullable, off=start), val
            if hint is not None:
                text, val = self._gen_required(hint, n, k)
                raw = pad_text(text, n, rng, hint.get("align"))
                return raw, Leaf(k, raw, val, nullable=False, off=start), val
            if rng.random() < self.blank_prob or n == 0:
                raw = (b" " if rng.random() < 0.8 else b"\x00") * n
                val = self._read(k, raw)
                return raw, Leaf(k, raw, val, blank=True, off=start), val
            if k == "aint":
                text, val = gen_int_text(n, rng)
                raw = pad_text(text, n, rng)
            elif k == "afloat":
                text, val = gen_float_text(n, rng)
                raw = pad_text(text, n, rng)
            elif k == "acomplex":
                t1, v1 = gen_float_text(n // 2, rng)
                t2, v2 = gen_float_text(n // 2, rng)
                raw = pad_text(t1, n // 2, rng) + pad_text(t2, n // 2, rng)
                val = complex(v1, v2)
            else:
                text = gen_str_text(n, rng)
                val = text
                raw = pad_text(text, n, rng)
            return raw, Leaf(k, raw, val, off=start), val
        if k == "bytes":
            n = eval_expr(node["n"], ctx)
            raw = bytes(rng.getrandbits(8) for _ in range(n)) if ov is None else ov
            return raw, Leaf("bytes", raw, raw.strip(b"\x00"), off=start), raw.strip(b"\x00")
        if k == "factor":
            b, t, v = self.build(node["sub"], path, ctx, start)
            f = float(node["e"])
            t.val = t.val * f
            t.kind = "factor:" + t.kind
            return b, t, t.val
        if k == "meta":
            b, t, v = self.build(node["sub"], path, ctx, start)
            if isinstance(t, Leaf):
                t.attrs = dict(node["attrs"])
                return b, t, v
            return b, {"__meta__": dict(node["attrs"]), "__value__": t}, v
        if k == "enum":
            table = node["table"]
            sub = node["sub"]
            if ov is not None:
                code = ov
            elif rng.random() < self.unknown_enum_prob and sub["k"] == "uint":
                code = max(c for c, _ in table) + 1 + rng.randint(0, 5)
            else:
                code = rng.choice(table)[0]
            if sub["k"] == "uint":
                raw = int(code).to_bytes(sub["n"], "big")
            else:
                n = eval_expr(sub["n"], ctx)
                raw = pad_text(str(code), n, rng, "r" if sub["k"] == "aint" else "l")
            names = {str(c): nm for c, nm in table}
            val = names.get(str(code), code)
            return raw, Leaf("enum", raw, val, nullable=False, off=start), val
        if k == "flag":
            n = node["n"]
            code = ov if ov is not None else rng.choice([0, 1, 1, 2 ** (8 * n) - 1])
            raw = int(code).to_bytes(n, "big")
            return raw, Leaf("flag", raw, bool(code), nullable=False, off=start), bool(code)
        if k == "ydms":
            if ov is not None:
                year, doy, ms = ov
            else:
                year = rng.randint(2014, 2049)
                doy = rng.choice([1, 59, 60, 365, year_len(year), rng.randint(1, year_len(year))])
                ms = rng.choice([0, 86399999, rng.randint(0, 86399999)])
            raw = pystruct.pack(">LLL", year, doy, ms)
            ns = instant_ns(year, doy, ms * 10**6)
            leaf = Leaf("ydms", raw, ns, nullable=False, off=start)
            leaf.ydm = (year, doy, ms)
            return raw, leaf, leaf
        if k == "ydus":
            ref = eval_expr(node["ref"], ctx)
            year, doy, _ = ref.ydm
            us = ov if ov is not None else rng.choice([0, 86399999999, rng.randint(0, 86399999999)])
            raw = pystruct.pack(">Q", us)
            ns = instant_ns(year, doy, us * 1000)
            return raw, Leaf("ydus", raw, ns, nullable=False, off=start), ns
        if k == "tell":
            return b"", Leaf("tell", b"", start, nullable=False, off=start), start
        if k == "computed":
            return b"", Leaf("computed", b"", None, nullable=False, off=start), None
        if k == "seek":
            return b"", Leaf("seek", b"", None, nullable=False, off=start), None
        raise ValueError(f"unknown node kind {k}")

    @staticmethod
    def _read(k, raw):
        text = raw.decode("ascii").rstrip("\x00")
        s = text.strip()
        if k == "aint":
            return int(s) if s else -1
        if k == "afloat":
            return float(s) if s else math.nan
        if k == "pstr":
            return s
        if k == "acomplex":
            h = len(raw) // 2
            return complex(Builder._read("afloat", raw[:h]), Builder._read("afloat", raw[h:]))
        raise ValueError(k)

    def _gen_required(self, hint, n, k):
        rng = self.rng
        g = hint["gen"]
        if g == "range":
            v = rng.randint(hint["lo"], hint["hi"])
            return int_text_form(rng, v, n), v
        if g == "choice":
            v = rng.choice(hint["values"])
            if k == "aint":
                return int_text_form(rng, int(v), n), int(v)
            return str(v), v
        if g == "datetime17":  # %Y%m%d%H%M%S%f
            year = rng.randint(2014, 2049)
            doy = rng.randint(1, year_len(year))
            y, m, d = civil_from_doy(year, doy)
            ms = rng.choice([0, 86399999, rng.randint(0, 86399999)])
            if rng.random() < 0.3:
                # a whole second / tenth (fraction digits all or partly zero) at a non-zero second: trailing zeros are digits too
                ms = rng.randint(1, 86399) * 1000 + rng.choice([0, 0, 100, 500, 10])
            hh, rem = divmod(ms, 3600000)
            mm, rem = divmod(rem, 60000)
            ss, msec = divmod(rem, 1000)
            nd = hint.get("fraction_digits", 3)
            frac = f"{msec:03d}"[:nd] if nd <= 3 else f"{msec:03d}" + "0" * (nd - 3)
            if nd == 3 and n >= 20 and rng.random() < 0.3:
                # the field is wide enough for microsecond resolution ("ms, us, or decimal seconds"): 4..6 fraction digits
                frac += "".join(rng.choice("0123456789") for _ in range(rng.randint(1, 3)))
            text = f"{y:04d}{m:02d}{d:02d}{hh:02d}{mm:02d}{ss:02d}{frac}"
            return text, text
        if g == "date_ymd":  # "YYYY MM DD"
            year = rng.randint(2014, 2049)
            doy = rng.randint(1, year_len(year))
            y, m, d = civil_from_doy(year, doy)
            text = rng.choice([f"{y:04d} {m:02d} {d:02d}", f"{y:4d} {m:2d} {d:2d}", f"{y}  {m}  {d}"])[:n]
            return text, text
        if g == "seconds_of_day":
            ms = rng.choice([0, 86399999, rng.randint(0, 86399999), rng.randint(0, 86399999), 86400000, 86400750])  # the last two: a stamp inside a leap second
            digits = rng.randint(3, 6)
            if rng.random() < 0.4 and ms < 86399999:
                # the field is a decimal number of seconds: digits below the millisecond are part of the stored instant
                us = ms * 1000 + rng.choice([1, 250, 456, 500, 999, rng.randint(1, 999)])
                text = rng.choice([f"{us / 10**6:.6f}", f"{us / 10**6:.15E}"])[:n]
                return text, float(text)
            text = f"{ms / 1000:.{digits}f}"
            return text, float(text)
        if g == "float":
            text, v = gen_float_text(n, rng)
            return text, v
        if g == "int":
            text, v = gen_int_text(n, rng, hint.get("lo", 0), hint.get("hi", 10**min(n, 6) - 1))
            return text, v
        if g == "designator":
            v = rng.choice(hint["values"])
            return v, v
        raise ValueError(g)


# ------------------------------------------------------------------------------------------
# product assembly

SCENE = "ALOS2290760600-191011"


def f32_patterns(rng, count):
    specials = [0x00000000, 0x80000000, 0x7F800000, 0xFF800000, 0x7FC00000, 0x7FC00001, 0xFFC12345,
                0x7F800001, 0x00000001, 0x807FFFFF, 0x3F800000, 0xBF800000, 0x7F7FFFFF, 0x00800000]
    out = []
    for _ in range(count):
        out.append(rng.choice(specials) if rng.random() < 0.3 else rng.getrandbits(32))
    return out


def u16_patterns(rng, count):
    return [rng.choice([0, 65535, 1, 256, 255]) if rng.random() < 0.3 else rng.getrandbits(16) for _ in range(count)]


@dataclass
class Image:
    name: str
    level: str
    pol: str
    scan: Any
    n_lines: int
    n_pixels: int
    type_code: str
    header: dict
    lines: list  # value trees of the line prefixes
    samples: list  # per line: list of bit patterns (C*8: pairs (re, im) of 32-bit; IU2: 16-bit)
    data: bytes
    prefix_len: int
    record_len: int


def build_image(layouts, required, rng, level, pol, scan, n_lines, n_pixels, product_id, blank_prob=0.0,
                header_overrides=None, line_overrides=None, same_time=None, decl_lines=None,
                scene=SCENE, vary_constants=False):
    c8 = level == "1.1"
    type_code = "C*8" if c8 else "IU2"
    bpp = 8 if c8 else 2
    rec_layout = layouts["signal_data_record" if c8 else "processed_data_record"]
    rec_type = 10 if c8 else 11
    # prefix length = total static size of the record layout
    b0, _, _ = Builder(random.Random(0), required=required.get("line", {})).build(rec_layout)
    prefix = len(b0)
    L = prefix + n_pixels * bpp
    nrec = n_lines if decl_lines is None else decl_lines
    ho = {
        "number_of_sar_data_records": nrec,
        "sar_data_record_length": L,
        "sar_related_data_in_the_record.number_of_lines_per_dataset": nrec,
        "sar_related_data_in_the_record.number_of_data_groups_per_line": n_pixels,
        "prefix_suffix_data_locators.sar_data_format_type_code": type_code,
        "preamble.record_length": 720,
    }
    ho.update(header_overrides or {})
    hb, htree, _ = Builder(rng, overrides=ho, required=required.get("image_file_descriptor", {}),
                           blank_prob=blank_prob).build(layouts["image_file_descriptor"])
    assert len(hb) == 720, len(hb)
    out = bytearray(hb)
    lines, samples = [], []
    # per-file constants
    const = {
        "sar_image_data_record_index": rng.randint(0, 2**32 - 1),
        "sensor_parameters_update_flag": rng.randint(0, 2**32 - 1),
        "scan_id": rng.randint(0, 2**32 - 1),
        "geographic_reference_parameter_update_flag": rng.randint(0, 2**32 - 1),
    }
    enum_consts = {}
    # line numbers: what real files carry (1..N, or consecutive from some first value) and the legal oddities — numbered bottom-up,
    # a contiguous run in shuffled order, restarting per burst, or arbitrary values
    mode = rng.choice(["ascending-from-1", "ascending", "descending", "shuffled-run", "burst-restart", "arbitrary", "arbitrary"])
    first = rng.randint(1, 2**31)
    if mode == "ascending-from-1":
        numbers = list(range(1, n_lines + 1))
    elif mode == "ascending":
        numbers = list(range(first, first + n_lines))
    elif mode == "descending":
        numbers = list(range(first + n_lines - 1, first - 1, -1))
    elif mode == "shuffled-run":
        numbers = list(range(first, first + n_lines))
        rng.shuffle(numbers)
    elif mode == "burst-restart":
        burst = rng.randint(1, max(1, n_lines // 2))
        numbers = [1 + (i % burst) for i in range(n_lines)]
    else:
        numbers = None
    for i in range(n_lines):
        lo = {"preamble.record_type": rec_type, "preamble.record_length": L}
        if numbers is not None:
            lo["sar_image_data_line_number"] = numbers[i]
        if not (vary_constants and i > 0):
            # `vary_constants`: the "per-file constant" columns (update flags, scan id, codes ...) differ on later lines, as update
            # flags raised on the first line only do in real files; the documented attribute is the value of the FIRST line
            lo.update(const)
            lo.update(enum_consts)
        if same_time is not None:
            lo["sensor_acquisition_date"] = same_time[:3]
            lo["sensor_acquisition_date_microseconds"] = same_time[3]
        lo.update((line_overrides or {}).get(i, {}))
        lo.update((line_overrides or {}).get("*", {}))
        bld = Builder(rng, overrides=lo, required=required.get("line", {}))
        pb, ptree, _ = bld.build(rec_layout, start=0)
        assert len(pb) == prefix
        if i == 0:
            # per-file constant enum columns: reuse the codes of the first line
            for nm in ("sar_channel_id", "sar_channel_code", "transmitted_pulse_polarization",
                       "received_pulse_polarization", "chirp_type_designator",
                       "platform_position_parameters_update_flag", "onboard_range_compressed_flag"):
                if nm in ptree:
                    enum_consts[nm] = int.from_bytes(ptree[nm].raw, "big")
        if c8:
            pats = f32_patterns(rng, 2 * n_pixels)
            if rng.random() < 0.15:
                # a whole line of one special value (blank lines, burst gaps): all -0.0, all +0, all one NaN payload, mixed signed zeros
                kind = rng.choice(["negzero", "zero", "nan", "signed-zeros"])
                pats = [{"negzero": 0x80000000, "zero": 0, "nan": 0x7FC00001}.get(kind, rng.choice([0, 0x80000000])) if kind != "signed-zeros"
                        else rng.choice([0, 0x80000000]) for _ in range(2 * n_pixels)]
            row = [(pats[2 * j], pats[2 * j + 1]) for j in range(n_pixels)]
            sb = b"".join(pystruct.pack(">LL", re, im) for re, im in row)
        else:
            row = u16_patterns(rng, n_pixels)
            sb = b"".join(pystruct.pack(">H", v) for v in row)
        out += pb + sb
        lines.append(ptree)
        samples.append(row)
    name = "IMG-" + pol + "-" + scene + "-" + product_id + (f"-{scan}" if scan else "")
    return Image(name, level, pol, scan, n_lines, n_pixels, type_code, htree, lines, samples, bytes(out), prefix, L)


@dataclass
class Product:
    files: dict  # name -> bytes
    summary_text: str
    volume: dict
    leader: dict
    images: list
    cfg: dict
    leader_record_offsets: dict = field(default_factory=dict)


def default_summary_lines(product_id, filenames, images, scene=SCENE, level="1.5"):
    lines = [
        'Odi_SceneId="SARD000000276461-00043-005-000"',
        'Odi_SiteDateTime="20191011 14:43:15"',
        f'Scs_SceneID="{scene}"',
        'Scs_SceneShift="0"',
        f'Pds_ProductID="{product_id}"',
        'Pds_ResamplingMethod="NN"',
        'Pds_UTM_ZoneNo="53"',
        'Pds_MapDirection="MapNorth"',
        'Pds_OrbitDataPrecision="Precision"',
        'Pds_AttitudeDataPrecision="Onboard"',
        'Pds_PixelSpacing="25.000000"',
        'Img_SceneCenterDateTime="20191011 14:43:15.525"',
        'Img_SceneStartDateTime="20191011 14:42:49.525"',
        'Img_SceneEndDateTime="20191011 14:43:41.524"',
        'Img_ImageSceneCenterLatitude="30.385"',
        'Img_ImageSceneCenterLongitude="137.504"',
        'Img_OffNadirAngle="21.3"',
        'Pdi_ProductFormat="CEOS"',
        'Pdi_BitPixel="16"',
        'Pdi_ProductDataSize="798.2"',
        f'Pdi_CntOfL{level.replace(".", "")}ProductFileName="{len(filenames)}"',
    ]
    tag = "L" + level.replace(".", "")
    for i, fn in enumerate(filenames, 1):
        lines.append(f'Pdi_{tag}ProductFileName{i:02d}="{fn}"')
    for i, im in enumerate(images):
        lines.append(f'Pdi_NoOfPixels_{i}="{im.n_pixels}"')
        lines.append(f'Pdi_NoOfLines_{i}="{im.n_lines}"')
    lines += [
        'Ach_TimeCheck="GOOD"',
        'Ach_AttitudeCheck="GOOD"',
        'Ach_PRF_Check=""',
        'Rad_PracticeResultCode="GOOD"',
        'Lbi_Satellite="ALOS2"',
        'Lbi_Sensor="SAR"',
        'Lbi_ProcessLevel="1.5"',
        'Lbi_ProcessFacility="SCMO"',
        'Lbi_ObservationDate="20191011"',
    ]
    return lines


def build_product(cfg, layouts=None, required=None):
    """cfg keys (all optional): seed, level, images [(pol, scan)], n_lines, n_pixels, n_att, n_chan,
    facility_lens (4), att_len, mapproj (None|'UTM'|'UPS'|'LCC'|'MER'), n_fileptr, blank_prob,
    leader_overrides, volume_overrides, image_overrides {idx: {...}}, product_id, same_instant"""
    layouts = layouts or load_layouts()
    required = required or load_required()
    rng = random.Random(cfg.get("seed", 0))
    level = cfg.get("level", "1.5")
    images_cfg = cfg.get("images", [("HH", None)])
    n_lines = cfg.get("n_lines", 5)
    n_pixels = cfg.get("n_pixels", 4)
    blank_prob = cfg.get("blank_prob", 0.0)
    mapproj = cfg.get("mapproj", "UTM" if level != "1.1" else None)
    product_id = cfg.get("product_id") or ("WWDR1.1__D" if level == "1.1" else "WWDR1.5RUA")
    scene = cfg.get("scene", SCENE)
    same = cfg.get("same_instant")  # (year, doy, ms)

    # ---- images
    images = []
    for idx, (pol, scan) in enumerate(images_cfg):
        io = (cfg.get("image_overrides") or {}).get(idx, {})
        nl = io.get("n_lines", n_lines)
        npx = io.get("n_pixels", n_pixels)
        images.append(
            build_image(layouts, required, rng, level, pol, scan, nl, npx, product_id, blank_prob=blank_prob,
                        header_overrides=io.get("header"), line_overrides=io.get("lines"),
                        same_time=(same[0], same[1], same[2], same[2] * 1000) if same else None,
                        decl_lines=io.get("decl_lines"), scene=scene, vary_constants=bool(cfg.get("vary_line_constants")))
        )

    # ---- leader
    n_att = cfg.get("n_att", 3)
    att_len = cfg.get("att_len", 16384)
    n_chan = cfg.get("n_chan", 2)
    fac_lens = cfg.get("facility_lens", [325000 // 1000, 511, 728, 66])
    lo = {
        "file_descriptor.preamble.record_length": 720,
        "file_descriptor.map_projection.number_of_records": 1 if mapproj else 0,
        "attitude.preamble.record_length": att_len,
        "attitude.number_of_points": n_att,
        "data_quality_summary.number_of_channels": n_chan,
    }
    for i, fl in enumerate(fac_lens, 1):
        lo[f"facility_related_data_{i}.preamble.record_length"] = fl
    if mapproj:
        lo["map_projection[0].map_projection_designator"] = {
            "UTM": "UTM-PROJECTION", "UPS": "UPS-PROJECTION", "LCC": "LCC-PROJECTION", "MER": "MER-PROJECTION",
        }[mapproj]
    if same:
        y, m, d = civil_from_doy(same[0], same[1])
        ms = same[2]
        hh, rem = divmod(ms, 3600000)
        mm, rem = divmod(rem, 60000)
        ss, msec = divmod(rem, 1000)
        lo["dataset_summary.scene_center_time"] = f"{y:04d}{m:02d}{d:02d}{hh:02d}{mm:02d}{ss:02d}{msec:03d}"
        lo["platform_position.datetime_of_first_point.date"] = f"{y:04d} {m:02d} {d:02d}"
        lo["platform_position.datetime_of_first_point.day_of_year"] = same[1]
        lo["platform_position.datetime_of_first_point.seconds_of_day"] = f"{ms // 1000}.{ms % 1000:03d}"
        for i in range(n_att):
            lo[f"attitude.data_points[{i}].time.day_of_year"] = same[1]
            lo[f"attitude.data_points[{i}].time.millisecond_of_day"] = ms
    lo.update(cfg.get("leader_overrides") or {})
    lb, ltree, _ = Builder(rng, overrides=lo, required=required.get("sar_leader_record", {}),
                           blank_prob=blank_prob).build(layouts["sar_leader_record"])

    # ---- volume directory
    n_fp = cfg.get("n_fileptr", len(images) + 2)
    vo = {"volume_descriptor.number_of_file_pointer_records": n_fp}
    if same:
        y, m, d = civil_from_doy(same[0], same[1])
        ms = same[2]
        hh, rem = divmod(ms, 3600000)
        mm, rem = divmod(rem, 60000)
        ss, msec = divmod(rem, 1000)
        vo["volume_descriptor.logical_volume_creation_datetime"] = f"{y:04d}{m:02d}{d:02d}{hh:02d}{mm:02d}{ss:02d}{msec // 10:02d}"
    vo.update(cfg.get("volume_overrides") or {})
    vb, vtree, _ = Builder(rng, overrides=vo, required=required.get("volume_directory_record", {}),
                           blank_prob=blank_prob).build(layouts["volume_directory_record"])

    # ---- trailer (never read by open_alos2): 720-byte descriptor, zero low-res images
    to = {"number_of_low_resolution_images": 0}
    tb, ttree, _ = Builder(rng, overrides=to, required=required.get("trailer_file_descriptor", {})).build(
        layouts["trailer_file_descriptor"])
    tb = tb.ljust(720, b" ")

    suffix = "-" + scene + "-" + product_id
    vol_name, led_name, trl_name = "VOL" + suffix, "LED" + suffix, "TRL" + suffix
    filenames = [vol_name, led_name] + [im.name for im in images] + [trl_name]
    summary_lines = cfg.get("summary_lines") or default_summary_lines(product_id, filenames, images, scene, level)
    eol = cfg.get("eol", "\n")
    summary_text = eol.join(summary_lines) + eol
    files = {"summary.txt": summary_text.encode(), vol_name: vb, led_name: lb, trl_name: tb}
    for im in images:
        files[im.name] = im.data
    return Product(files, summary_text, vtree, ltree, images, dict(cfg))


def write_product(product, root, fs=None):
    if fs is None:
        os.makedirs(root, exist_ok=True)
        for name, data in product.files.items():
            with open(os.path.join(root, name), "wb") as f:
                f.write(data)
    else:
        fs.makedirs(root, exist_ok=True)
        for name, data in product.files.items():
            with fs.open(root.rstrip("/") + "/" + name, "wb") as f:
                f.write(data)

"""Correspondence (H8): `ceos_alos2.sar_trailer.read_sar_trailer` vs the Lean model `readTrailer` (Model/Trailer.lean):
trailer descriptor (0..8 low-resolution image entries) followed by the images laid end to end."""
import io
import random

import synth
from common import err_name, run_model


def gen_cases(seed, tier):
    rng = random.Random(seed + 31)
    lay, req = synth.load_layouts(), synth.load_required()
    cases = []
    for _ in range(40 if tier == "quick" else 600):
        k = rng.choice([0, 1, 1, 2, 3, 5, 7, 8])
        ov = {"number_of_low_resolution_images": k}
        blobs = []
        for i in range(k):
            px, ln = rng.randint(0, 4), rng.randint(1, 3)
            nb = rng.choice([1, 2, 4, 8, 2, 4, 3])
            data = bytes(rng.randrange(256) for _ in range(px * ln * nb))
            declared = len(data)
            r = rng.random()
            if r < 0.1:
                declared += rng.choice([-1, 1, nb])   # declared length and shape disagree
            ov[f"low_resolution_image_sizes[{i}].record_length"] = max(declared, 0)
            ov[f"low_resolution_image_sizes[{i}].number_of_pixels"] = px
            ov[f"low_resolution_image_sizes[{i}].number_of_lines"] = ln
            ov[f"low_resolution_image_sizes[{i}].number_of_bytes_per_one_sample"] = nb
            blobs.append(data)
        try:
            hb, _, _ = synth.Builder(rng, overrides=ov, required=req.get("trailer_file_descriptor", {})).build(lay["trailer_file_descriptor"])
        except Exception:  # noqa: BLE001  (8 entries do not fit the 720-byte descriptor: negative padding)
            continue
        blob = hb.ljust(720, b" ")[:720] + b"".join(blobs)
        r = rng.random()
        if r < 0.1 and len(blob) > 720:
            blob = blob[:rng.randint(720, len(blob) - 1)]   # truncated payload
        elif r < 0.2:
            blob += bytes(rng.randrange(256) for _ in range(rng.randint(1, 9)))  # trailing bytes
        elif r < 0.25:
            blob = blob[:rng.randint(0, 719)]  # truncated descriptor
        cases.append(blob)
    return cases


def real(blob):
    from ceos_alos2.sar_trailer import read_sar_trailer
    try:
        _, images = read_sar_trailer(io.BytesIO(blob))
        return {"ok": [[[str(int(x)) for x in row] for row in im.tolist()] for im in images]}
    except Exception as e:  # noqa: BLE001
        n = err_name(e)
        return {"err": n if n in ("ValueError", "StreamError", "StringError") else "Other"}


def check(seed, tier):
    cases = gen_cases(seed, tier)
    outs = run_model([{"op": "trailer", "file": c.hex()} for c in cases])
    bad, dist = [], {"ok": 0, "err": {}, "images": {}}
    for c, m in zip(cases, outs):
        r = real(c)
        if "ok" in r:
            dist["ok"] += 1
            dist["images"][len(r["ok"])] = dist["images"].get(len(r["ok"]), 0) + 1
        else:
            dist["err"][r["err"]] = dist["err"].get(r["err"], 0) + 1
        if r != m:
            bad.append({"file": c.hex()[:200], "len": len(c), "real": str(r)[:300], "model": str(m)[:300]})
    return {"name": "trailer reader", "cases": len(cases), "distinct": len(set(cases)), "disagreements": bad, "distribution": dist,
            "sample": {"images": dist["images"]}}


if __name__ == "__main__":
    import sys
    r = check(int(sys.argv[1]) if len(sys.argv) > 1 else 0, sys.argv[2] if len(sys.argv) > 2 else "quick")
    print(r["cases"], r["distribution"], "disagreements", len(r["disagreements"]))
    for b in r["disagreements"][:5]:
        print(b)

"""Correspondence (H7): the five time decoders of /repo vs `Model/Time.lean`."""
import datetime
import random
import struct

import numpy as np

import synth
from common import err_name, run_model

EPOCH = datetime.datetime(1970, 1, 1)


def ns_of(dt):
    d = dt - EPOCH
    return (d.days * 86400 + d.seconds) * 10**9 + d.microseconds * 1000


def real(op):
    import construct as C

    from ceos_alos2.datatypes import DatetimeYdms, DatetimeYdus
    from ceos_alos2.sar_leader import attitude, metadata, platform_position
    from ceos_alos2.transformers import normalize_datetime
    try:
        w = op["what"]
        if w in ("line", "line_us"):
            rec = C.Struct("t" / DatetimeYdms(C.Struct("year" / C.Int32ub, "day_of_year" / C.Int32ub, "milliseconds" / C.Int32ub)),
                           "u" / DatetimeYdus(C.Int64ub, C.this.t))
            r = rec.parse(struct.pack(">LLLQ", op["y"], op["doy"], op["ms"], op.get("us", 0)))
            return {"ok": str(ns_of(r.t if w == "line" else r.u))}
        if w == "digits":
            return {"ok": str(ns_of(datetime.datetime.fromisoformat(normalize_datetime(op["text"]))))}
        if w == "first_point":
            iso = platform_position.transform_composite_datetime(
                {"date": f"{op['y']} {op['mo']:2d} {op['d']:02d}", "seconds_of_day": float(f"{op['sec']}.{op['frac']}" if op["frac"] else str(op["sec"]))})
            return {"ok": str(ns_of(datetime.datetime.fromisoformat(iso)))}
        # attitude: transform_time on one point + fix_attitude_time with the reference year
        from ceos_alos2.hierarchy import Group, Variable
        td = attitude.transform_time({"day_of_year": [op["doy"]], "millisecond_of_day": [op["ms"]]})
        g = Group(path=None, url=None, attrs={}, data={
            "platform_position": Group(path=None, url=None, data={}, attrs={"datetime_of_first_point": f"{op['y']}-01-01T00:00:00"}),
            "attitude": Group(path=None, url=None, attrs={}, data={"attitude": Group(path=None, url=None, attrs={}, data={"time": Variable("points", td, {})})})})
        out = metadata.fix_attitude_time(g)
        return {"ok": str(int(out["attitude"]["attitude"].data["time"].data.astype("datetime64[ns]").astype("int64")[0]))}
    except Exception as e:  # noqa: BLE001
        return {"err": err_name(e)}


def gen(seed, tier):
    rng = random.Random(seed + 17)
    ops = []
    years = list(range(2014, 2050)) if tier != "quick" else rng.sample(range(2014, 2050), 8) + [2016, 2020, 2048, 2049]
    for y in years:
        yl = synth.year_len(y)
        for doy in sorted({1, 59, 60, 61, 365, yl, rng.randint(1, yl)}):
            for ms in (0, 86399999, rng.randint(0, 86399999)):
                ops.append({"what": "line", "y": y, "doy": doy, "ms": ms})
                ops.append({"what": "line_us", "y": y, "doy": doy, "ms": ms, "us": rng.choice([0, 86399999999, ms * 1000 + rng.randint(0, 999)])})
                ops.append({"what": "attitude", "y": y, "doy": doy, "ms": ms})
                yy, mo, d = synth.civil_from_doy(y, doy)
                hh, rem = divmod(ms, 3600000)
                mm, rem = divmod(rem, 60000)
                ss, msec = divmod(rem, 1000)
                nd = rng.choice([2, 3, 6])
                frac = f"{msec * 1000:06d}"[:nd]
                ops.append({"what": "digits", "text": f"{y:04d}{mo:02d}{d:02d}{hh:02d}{mm:02d}{ss:02d}{frac}"})
                fd = rng.choice([0, 3, 6])
                ops.append({"what": "first_point", "y": y, "mo": mo, "d": d, "sec": ms // 1000, "frac": f"{(ms % 1000) * 1000:06d}"[:fd]})
    # out-of-domain values: both sides must agree on the error class too
    for _ in range(20 if tier == "quick" else 300):
        ops.append({"what": "line", "y": rng.choice([0, 1, 9999, 10000, 2**31, 2**32 - 1, 2020]), "doy": rng.choice([0, 1, 366, 367, 2**32 - 1, 10**6]),
                    "ms": rng.choice([0, 86400000, 2**32 - 1])})
        ops.append({"what": "digits", "text": rng.choice(["2019022900000000", "abc", "2019101114431560", "", "20200229235959999999"])})  # strptime's backtracking on other digit strings is outside the model
    return ops


def check(seed, tier):
    ops = gen(seed, tier)
    outs = run_model([{"op": "time", **o} for o in ops])
    bad, dist = [], {"ok": 0, "err": 0, "per": {}}
    for o, m in zip(ops, outs):
        r = real(o)
        dist["per"][o["what"]] = dist["per"].get(o["what"], 0) + 1
        dist["ok" if "ok" in r else "err"] += 1
        if r != m and not ("err" in r and "err" in m and o["what"] in ("digits",)):
            bad.append({"op": o, "real": r, "model": m})
    return {"name": "time-decoders", "cases": len(ops), "distinct": len({str(o) for o in ops}), "disagreements": bad, "distribution": dist, "sample": {"op": ops[0], "real": real(ops[0])}}


if __name__ == "__main__":
    import json
    import sys
    r = check(int(sys.argv[1]) if len(sys.argv) > 1 else 0, sys.argv[2] if len(sys.argv) > 2 else "quick")
    print(r["cases"], r["distribution"], "disagreements", len(r["disagreements"]))
    for b in r["disagreements"][:10]:
        print("  ", json.dumps(b))

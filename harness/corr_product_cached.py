"""Correspondence (H12): ONE cache-first open of a WHOLE product — `ceos_alos2.io.open(path, use_cache=…, create_cache=…,
records_per_chunk=…)` of the real code, with index files put in place beforehand for every image (in the user cache directory and /
or next to the image: complete documents written at some chunk size, prefixes of them, valid JSON that is not an index, nothing),
image files removed, … — vs the Lean `openProductCached` (`Model/ProductCached.lean`).  Compared: the error class or, per image
group, `json.loads(caching.encode(group))` against the model's `encodeDoc`; and the text of every index file afterwards.

Each step is fed the REAL index files as its pre-state (a one-step tie), so that a chain of opens is tied state by state.
Float tokens of the model are markers evaluated by CPython (the `FloatRepr` contract), also inside the index text it writes."""
import json
import math
import os
import random
import re
import shutil
import tempfile

import common
import oracle_tree
import products
from common import err_name, run_model
from corr_bridge import same, wire_to_py

_MARK = re.compile(r"!(?:fm|f|im):[^,\]\}\s\"]*")


def _tok(f):
    return "NaN" if math.isnan(f) else ("Infinity" if f == math.inf else ("-Infinity" if f == -math.inf else repr(f)))


def eval_markers(text):
    def one(m):
        t = m.group(0)
        if t.startswith("!f:"):
            return _tok(float(t[3:]))
        a, b = t.split(":", 1)[1].rsplit("*", 1)
        return _tok((int(a) if t.startswith("!im:") else float(a)) * float(b))
    return _MARK.sub(one, text)


def _paths(root_dir, name):
    import fsspec
    from ceos_alos2.sar_image.caching import path as cpath
    mapper = fsspec.get_mapper(root_dir)
    return str(cpath.local_cache_location(mapper.root, name)), os.path.join(root_dir, name + ".index")


def _read(p):
    try:
        with open(p, encoding="utf-8") as f:
            return f.read()
    except FileNotFoundError:
        return None


def _put(p, text):
    if text is None:
        if os.path.exists(p):
            os.remove(p)
        return
    os.makedirs(os.path.dirname(p), exist_ok=True)
    with open(p, "w", encoding="utf-8") as f:
        f.write(text)


def real_open(root_dir, use, create, rpc):
    from ceos_alos2 import io
    from ceos_alos2.sar_image import caching
    try:
        g = io.open(root_dir, use_cache=use, create_cache=create, records_per_chunk=rpc)
        out = []
        for n, sub in g.data["imagery"].data.items():
            out.append([n, json.loads(caching.encode(sub))])
        return {"ok": out, "root": next((sub["data"].data.fs.path for sub in g.data["imagery"].data.values()), root_dir)}
    except Exception as e:  # noqa: BLE001
        return {"err": err_name(e), "msg": str(e)[:100]}


def _strip_imagery_prefix(doc, root):
    """`Group("/imagery", url=mapper.root, data={name: group})` re-paths its members (`/imagery/<name>`) and hands them its url when
    they have none — the constructor's `_adjust_item`, the same for cached and parsed groups, not part of the image-level model"""
    if isinstance(doc, dict) and isinstance(doc.get("path"), str) and doc["path"].startswith("/imagery/"):
        doc = dict(doc)
        doc["path"] = doc["path"][len("/imagery/"):]
        if doc.get("url") == root:
            doc["url"] = None
    return doc


def check(seed, tier):
    from ceos_alos2.sar_image import caching, open_image
    import fsspec
    rng = random.Random(seed + 1212)
    n_products = 6 if tier == "quick" else 40
    steps, bad = [], []
    dist = {"ok": 0, "err": {}, "pre_states": {}, "options": {}, "missing_image": 0, "writes": 0, "images": 0}
    for _ in range(n_products):
        cfg = oracle_tree.random_cfg(rng, "quick")
        cfg["n_att"] = rng.choice([1, 2])
        prod = products.build(cfg)
        d = tempfile.mkdtemp(prefix="pc-", dir=common.SCRATCH)
        try:
            import synth
            synth.write_product(prod, d)
            names = [im.name for im in prod.images]
            mapper = fsspec.get_mapper(d)
            docs = {}
            for n in names:
                rw = rng.choice([1, 2, 3, 1024])
                docs[n] = caching.encode(open_image(mapper, n, use_cache=False, records_per_chunk=rw))

            def draw(n):
                k = rng.choice(["none", "none", "full", "full", "prefix", "notdoc", "other-image", "empty"])
                t = docs[n]
                if k == "none":
                    return k, None
                if k == "full":
                    return k, t
                if k == "prefix":
                    return k, t[:rng.randrange(len(t))]
                if k == "notdoc":
                    # (a JSON object WITHOUT "__type__" is left out: `decode_hierarchy` hands it back as a plain dict, `open_image` returns
                    # it, and `io.open` fails only later, at `group.name`, after having opened — and possibly indexed — the remaining
                    # images; the codec model has no such value and rejects it at once.  Not a file the library can write.)
                    return k, rng.choice(["[]", "3", '{"__type__": "group"}', '{"__type__": "variable", "dims": []}', "null"])
                if k == "other-image":
                    return k, docs[rng.choice(names)]
                return k, ""

            for _step in range(3 if tier == "quick" else 5):
                fresh = _step == 0 or rng.random() < 0.5
                pre = {}
                for n in names:
                    loc_p, adj_p = _paths(d, n)
                    if fresh:
                        kl, tl = draw(n)
                        ka, ta = draw(n)
                        _put(loc_p, tl)
                        _put(adj_p, ta)
                        dist["pre_states"][kl + "/" + ka] = dist["pre_states"].get(kl + "/" + ka, 0) + 1
                    else:
                        dist["pre_states"]["carried"] = dist["pre_states"].get("carried", 0) + 1
                    pre[n] = (_read(loc_p), _read(adj_p))
                removed = None
                if rng.random() < 0.2:
                    removed = rng.choice(names)
                    os.rename(os.path.join(d, removed), os.path.join(d, removed + ".gone"))
                    dist["missing_image"] += 1
                use, create, rpc = rng.random() < 0.7, rng.random() < 0.5, rng.choice([1, 2, 3, 1024])
                dist["options"][f"use={use} create={create}"] = dist["options"].get(f"use={use} create={create}", 0) + 1
                r = real_open(d, use, create, rpc)
                post = {n: tuple(_read(p) for p in _paths(d, n)) for n in names}
                files = {}
                for fn in os.listdir(d):
                    if fn.endswith(".index") or fn.endswith(".gone"):
                        continue
                    with open(os.path.join(d, fn), "rb") as f:
                        files[fn] = f.read()
                if removed:
                    os.rename(os.path.join(d, removed + ".gone"), os.path.join(d, removed))
                steps.append({
                    "op": {"op": "product_cached", "files": [[n, b.hex()] for n, b in files.items()], "root": r.get("root", d),
                           "caches": [{"name": n, "loc": pre[n][0], "adj": pre[n][1]} for n in names],
                           "use": use, "create": create, "rpc": rpc},
                    "real": r, "dir": mapper.root, "pre": pre, "post": post, "names": names, "what": f"use={use} create={create} rpc={rpc} removed={removed}"})
        finally:
            shutil.rmtree(d, ignore_errors=True)
            shutil.rmtree(os.path.join(os.environ["XDG_CACHE_HOME"], "xarray-ceos-alos2"), ignore_errors=True)
    outs = run_model([s["op"] for s in steps])
    for s, m in zip(steps, outs):
        r = s["real"]
        ctx = {"what": s["what"], "pre": {n: [None if t is None else len(t) for t in v] for n, v in s["pre"].items()}}
        if "ok" in r:
            dist["ok"] += 1
            if "ok" not in m:
                bad.append({**ctx, "real": "ok", "model": str(m)[:200]})
                continue
            mk = [x[0] for x in m["ok"]]
            rk = [x[0] for x in r["ok"]]
            if mk != rk:
                bad.append({**ctx, "diff": f"image groups {rk} vs model {mk}"})
                continue
            for (n, rd), (_, md) in zip(r["ok"], m["ok"]):
                dist["images"] += 1
                dd = same(wire_to_py(md), _strip_imagery_prefix(rd, s["dir"]), n)
                if dd:
                    bad.append({**ctx, "diff": dd[:300]})
                    break
        else:
            dist["err"][r["err"]] = dist["err"].get(r["err"], 0) + 1
            if m.get("err") != r["err"] and not (r["err"] == "ValueError" and "!invalid:" in str(m)):
                bad.append({**ctx, "real": r, "model": str(m)[:200]})
        # index files afterwards
        mc = {c["name"]: (c["loc"], c["adj"]) for c in m.get("caches", [])}
        for n in s["names"]:
            for i, which in enumerate(("local", "adjacent")):
                rt, mt = s["post"][n][i], mc.get(n, (None, None))[i]
                if rt != s["pre"][n][i]:
                    dist["writes"] += 1
                if (rt is None) != (mt is None):
                    bad.append({**ctx, "diff": f"{which} index of {n}: real {'absent' if rt is None else 'present'} vs model {'absent' if mt is None else 'present'}"})
                elif rt is not None and rt != mt:
                    try:
                        dd = same(json.loads(eval_markers(mt)), json.loads(rt), f"{which} index of {n}")
                    except ValueError as e:
                        dd = f"{which} index of {n}: texts differ and one is not JSON ({e})"
                    if dd:
                        bad.append({**ctx, "diff": dd[:300]})
    return {"name": "whole product, cache-first (io.open with index files)", "cases": len(steps), "distinct": len(steps),
            "disagreements": bad, "distribution": dist, "sample": {"options": dist["options"]}}


if __name__ == "__main__":
    import sys
    r = check(int(sys.argv[1]) if len(sys.argv) > 1 else 0, sys.argv[2] if len(sys.argv) > 2 else "quick")
    print(r["cases"], r["distribution"], "disagreements", len(r["disagreements"]))
    seen = set()
    for b in r["disagreements"]:
        k = str(b.get("diff") or b.get("real"))[:60]
        if k in seen:
            continue
        seen.add(k)
        print(json.dumps(b, default=str)[:700])

"""End-to-end oracles for the cache properties (C07, C08, C09, C10): whole products opened with the real `open_alos2`
under every cache state / producer / location / option combination, compared with a fresh uncached open."""
import hashlib
import json
import os
import pathlib
import random
import shutil
import signal
import subprocess
import tempfile
import sys
import time

import numpy as np

import common
import products
import treecmp


def _open(path, **opts):
    import ceos_alos2
    return ceos_alos2.open_alos2(path, backend_options=dict(opts))


def fp(tree):
    return treecmp.fingerprint_tree(tree)


def cache_paths(path, names):
    import fsspec
    from ceos_alos2.sar_image.caching import path as cpath
    mapper = fsspec.get_mapper(path)
    return {n: (str(cpath.local_cache_location(mapper.root, n)), None) for n in names}


def wipe_user_cache():
    d = os.path.join(os.environ["XDG_CACHE_HOME"], "xarray-ceos-alos2")
    shutil.rmtree(d, ignore_errors=True)


def dir_hash(root):
    out = {}
    for dp, _, files in os.walk(root):
        for f in files:
            p = os.path.join(dp, f)
            out[os.path.relpath(p, root)] = hashlib.sha256(open(p, "rb").read()).hexdigest()
    return out


def dir_stat(root):
    """(inode, mtime_ns, size) of every file: a rewrite with identical bytes is still a write"""
    out = {}
    for dp, _, files in os.walk(root):
        for f in files:
            p = os.path.join(dp, f)
            st = os.stat(p)
            out[os.path.relpath(p, root)] = (st.st_ino, st.st_mtime_ns, st.st_size)
    return out


def _safe_cwd():
    """the working directory; if it has been removed under our feet, move to the scratch root first"""
    try:
        return os.getcwd()
    except OSError:
        os.chdir(common.SCRATCH)
        return os.getcwd()


def run_cli(image_path, rpc, target=None, keep_cwd=True):
    from ceos_alos2.sar_image import cli
    cwd = _safe_cwd()
    try:
        cli.create_cache(pathlib.Path(image_path), pathlib.Path(target) if target else None, rpc)
    finally:
        if keep_cwd and _safe_cwd() != cwd:
            os.chdir(cwd)     # (whether the tool may move the working directory is judged by the C10 history oracle)


# ---------------------------------------------------------------------------------------------
def check_c07(seed, tier):
    rng = random.Random(seed + 7)
    viol, evals, distinct, samples = [], 0, set(), []
    combos = []
    for level in ("1.1", "1.5"):
        for producer in ("option", "cli"):
            for fs in ("local", "file", "memory", "tracemem"):
                if producer == "cli" and fs not in ("local", "file"):
                    continue  # the CLI takes a local image path
                combos.append((level, producer, fs))
    if tier == "quick":
        combos = rng.sample(combos, 6) + [c for c in combos if c[2] == "memory"][:1]
    for level, producer, fs in combos:
        # image sets: two polarisations, or ScanSAR (file names of one polarisation differ only in the scan suffix after the level's dot)
        images = rng.choice([[("HH", None), ("HV", None)], [("HH", "F1"), ("HH", "F2"), ("HV", "F1")], [("VV", "B3"), ("VV", "B4")]])
        cfg = {"seed": rng.randrange(10**9), "level": level, "images": images, "n_lines": rng.randint(2, 6), "n_pixels": 3}
        prod = products.build(cfg)
        path, clean = products.place(prod, fs)
        wipe_user_cache()
        try:
            rw, rr = rng.choice([1, 2, 1024]), rng.choice([1, 3, 7, 1024])
            ref = fp(_open(path, use_cache=False, records_per_chunk=rr))
            locations = ["user"] if producer == "option" else ["adjacent", "both"]
            for location in locations:
                wipe_user_cache()
                try:
                    if producer == "option":
                        _open(path, use_cache=False, create_cache=True, records_per_chunk=rw)
                    else:
                        local_dir = path[len("file://"):] if path.startswith("file://") else path
                        for im in prod.images:
                            run_cli(os.path.join(local_dir, im.name), rw)
                        if location == "both":
                            _open(path, use_cache=False, create_cache=True, records_per_chunk=rng.choice([1, 5]))
                except Exception as e:  # noqa: BLE001
                    # producing the cache for a product that opens without one is part of the property's premise
                    evals += 1
                    viol.append({"case": {"cfg": cfg, "producer": producer, "fs": fs, "location": location, "rpc_write": rw},
                                 "what": f"producing the index cache ({producer}) failed although the product opens without a cache: {type(e).__name__}: {e}"[:300],
                                 "key": common.failure_site(e)})
                    continue
                if producer == "cli" and location == "adjacent" and len([d_ for d_ in distinct if "symbolic" in str(d_)]) <= len([d_ for d_ in distinct if d_[1:2] == ("cli",)]) // 2:
                    # a "symlink farm": the index next to the image is a symbolic link to a file stored elsewhere — still a usable cache
                    local_dir = path[len("file://"):] if path.startswith("file://") else path
                    vault = tempfile.mkdtemp(prefix="vault-", dir=common.SCRATCH)
                    for im in prod.images:
                        src_ = os.path.join(local_dir, im.name + ".index")
                        if os.path.isfile(src_) and not os.path.islink(src_):
                            shutil.move(src_, os.path.join(vault, im.name + ".index"))
                            os.symlink(os.path.join(vault, im.name + ".index"), src_)
                    location = "adjacent (symbolic links)"
                evals += 1
                distinct.add((level, producer, fs, location, rw, rr))
                case = {"cfg": cfg, "producer": producer, "fs": fs, "location": location, "rpc_write": rw, "rpc_read": rr}
                import ceos_alos2.sar_image as si
                calls = []
                orig = si.read_metadata
                si.read_metadata = lambda f, r: (calls.append(r), orig(f, r))[1]
                try:
                    got = fp(_open(path, use_cache=True, records_per_chunk=rr))
                    d = treecmp.diff(ref, got)
                    if d:
                        viol.append({"case": case, "what": "cached tree differs from uncached: " + d, "key": f"cache-differs:{fs}"})
                    elif calls:
                        viol.append({"case": case, "what": f"line records re-read {len(calls)}x although a usable cache exists", "key": f"cache-not-used:{fs}"})
                    elif len(samples) < 2:
                        samples.append(case)
                except Exception as e:  # noqa: BLE001
                    viol.append({"case": case, "what": f"open with cache raised {type(e).__name__}: {e}"[:300], "key": f"cache-raises:{fs}:{type(e).__name__}"})
                finally:
                    si.read_metadata = orig
                # use_cache=False consults no cache: poison both caches, the open must not notice — once with text that is not
                # JSON (a consulted cache would be rejected and silently bypassed), once with a VALID index describing another
                # image (a consulted cache would be believed)
                if fs in ("local", "file"):
                    local_dir = path[len("file://"):] if path.startswith("file://") else path
                    other = products.build(dict(cfg, seed=cfg["seed"] + 1, n_lines=cfg["n_lines"] + 2))
                    opath, oclean = products.place(other, "local")
                    try:
                        for im in other.images:
                            run_cli(os.path.join(opath, im.name), 2)
                        foreign = {im.name: open(os.path.join(opath, im.name + ".index")).read() for im in other.images}
                    except Exception:  # noqa: BLE001
                        foreign = None      # the tool did not leave an index where it should: judged by the main loop, not here
                    finally:
                        oclean()
                    for poison in (("not-json", "valid-index-of-another-image") if foreign else ("not-json",)):
                        for im in prod.images:
                            with open(os.path.join(local_dir, im.name + ".index"), "w") as f:
                                f.write("{not json" if poison == "not-json" else foreign[im.name])
                        try:
                            got = fp(_open(path, use_cache=False, records_per_chunk=rr))
                            if treecmp.diff(ref, got):
                                viol.append({"case": {**case, "poison": poison}, "what": "use_cache=False result depends on cache files"})
                        except Exception as e:  # noqa: BLE001
                            viol.append({"case": {**case, "poison": poison}, "what": f"use_cache=False consulted a cache: {type(e).__name__}: {e}"[:200]})
                        for im in prod.images:
                            os.remove(os.path.join(local_dir, im.name + ".index"))
        finally:
            wipe_user_cache()
            clean()
    # a re-delivered product: same file names, different content; the cache is refreshed with create_cache=True and then used
    import synth
    for trial in range(2 if tier == "quick" else 12):
        level = rng.choice(["1.1", "1.5"])
        images = rng.choice([[("HH", None)], [("HH", None), ("HV", None)]])
        cfg_a = {"seed": rng.randrange(10**9), "level": level, "images": images, "n_lines": rng.randint(2, 5), "n_pixels": 3}
        cfg_b = dict(cfg_a, seed=rng.randrange(10**9), n_lines=cfg_a["n_lines"] + rng.randint(1, 3))
        prod_a, prod_b = products.build(cfg_a), products.build(cfg_b)
        path, clean = products.place(prod_a, "local")
        wipe_user_cache()
        refresh_use = rng.random() < 0.5
        case = {"cfg_first": cfg_a, "cfg_redelivered": cfg_b, "scenario": "create cache, replace the product in place, refresh with create_cache=True, open with use_cache=True",
                "refresh_use_cache": refresh_use}
        evals += 1
        distinct.add(("redelivered", level, len(images), cfg_a["n_lines"], cfg_b["n_lines"], refresh_use))
        try:
            _open(path, use_cache=False, create_cache=True)
            synth.write_product(prod_b, path)
            if refresh_use:
                wipe_user_cache()  # "refresh" = delete the stale cache and let the default open recreate it
                _open(path, use_cache=True, create_cache=True)
            else:
                _open(path, use_cache=False, create_cache=True)
            ref = fp(_open(path, use_cache=False))
            got = fp(_open(path, use_cache=True))
            d = treecmp.diff(ref, got)
            if d:
                viol.append({"case": case, "what": "cached tree differs from uncached after the cache was refreshed: " + d, "key": "cache-differs:local"})
        except Exception as e:  # noqa: BLE001
            viol.append({"case": case, "what": f"{type(e).__name__}: {e}"[:300], "key": common.failure_site(e)})
        finally:
            wipe_user_cache()
            clean()
    # two DIFFERENT product directories whose paths look alike (same text in Unicode normalisation forms NFC / NFD) holding
    # images of the same name: a cache made for one must never serve the other
    import unicodedata
    for trial in range(0 if common.FS_ASCII else (1 if tier == "quick" else 6)):
        level = rng.choice(["1.1", "1.5"])
        cfg_a = {"seed": rng.randrange(10**9), "level": level, "images": [("HH", None)], "n_lines": rng.randint(2, 4), "n_pixels": 2}
        cfg_b = dict(cfg_a, seed=rng.randrange(10**9), n_lines=cfg_a["n_lines"] + 1)
        prod_a, prod_b = products.build(cfg_a), products.build(cfg_b)
        stem = tempfile.mkdtemp(prefix="lookalike-", dir=common.SCRATCH)
        name = "donn\u00e9es-\u00c5ngstr\u00f6m"
        pa, pb = os.path.join(stem, unicodedata.normalize("NFC", name)), os.path.join(stem, unicodedata.normalize("NFD", name))
        evals += 1
        distinct.add(("lookalike-roots", level, cfg_a["n_lines"]))
        case = {"cfg_a": cfg_a, "cfg_b": cfg_b, "scenario": "cache created for a product in the NFC-spelled directory, the product in the NFD-spelled directory opened with use_cache=True"}
        wipe_user_cache()
        try:
            synth.write_product(prod_a, pa)
            synth.write_product(prod_b, pb)
            if os.path.samefile(pa, pb):
                continue  # a filesystem that folds the two spellings: nothing to test
            _open(pa, use_cache=False, create_cache=True)
            ref = fp(_open(pb, use_cache=False))
            got = fp(_open(pb, use_cache=True))
            d = treecmp.diff(ref, got)
            if d:
                viol.append({"case": case, "what": "a cache made for another directory was used: " + d, "key": "cache-differs:local"})
        except Exception as e:  # noqa: BLE001
            viol.append({"case": case, "what": f"{type(e).__name__}: {e}"[:300], "key": common.failure_site(e)})
        finally:
            wipe_user_cache()
            shutil.rmtree(stem, ignore_errors=True)
    # sibling product directories whose names differ only AFTER a character that has a meaning in URLs (`#`, `%`, `&`, `;`, `=`,
    # `+`, `@`, a space): images of the same name, different content — a cache made for one must never serve the other
    pairs = [("scene #1", "scene #2"), ("x%231", "x%232"), ("a&b=1", "a&b=2"), ("pro duct;v1", "pro duct;v2"), ("u@h+1", "u@h+2")]
    for a_name, b_name in ([pairs[0], rng.choice(pairs[1:])] if tier == "quick" else pairs):
        level = rng.choice(["1.1", "1.5"])
        cfg_a = {"seed": rng.randrange(10**9), "level": level, "images": [("HH", None)], "n_lines": rng.randint(2, 4), "n_pixels": 2}
        cfg_b = dict(cfg_a, seed=rng.randrange(10**9), n_lines=cfg_a["n_lines"] + 1)
        prod_a, prod_b = products.build(cfg_a), products.build(cfg_b)
        stem = tempfile.mkdtemp(prefix="siblings-", dir=common.SCRATCH)
        pa, pb = os.path.join(stem, a_name), os.path.join(stem, b_name)
        wipe_user_cache()
        try:
            synth.write_product(prod_a, pa)
            synth.write_product(prod_b, pb)
            for form in ("path", "file-url"):
                evals += 1
                distinct.add(("sibling-roots", a_name, form))
                case = {"cfg_a": cfg_a, "cfg_b": cfg_b, "directories": [a_name, b_name], "given_as": form,
                        "scenario": "cache created for the first directory, the second opened with use_cache=True"}
                qa, qb = (pa, pb) if form == "path" else ("file://" + pa, "file://" + pb)
                _open(qa, use_cache=False, create_cache=True)
                d = treecmp.diff(fp(_open(qb, use_cache=False)), fp(_open(qb, use_cache=True)))
                if d:
                    viol.append({"case": case, "what": "a cache made for another directory was used: " + d, "key": "cache-differs:local"})
                wipe_user_cache()
        except Exception as e:  # noqa: BLE001
            viol.append({"case": {"directories": [a_name, b_name]}, "what": f"{type(e).__name__}: {e}"[:300], "key": common.failure_site(e)})
        finally:
            wipe_user_cache()
            shutil.rmtree(stem, ignore_errors=True)
    # product directories of the SAME NAME under different parents (two deliveries unpacked as `<date>/product`, the same product
    # id on two disks): images of the same name, different content — a cache made for one must never serve the other
    for trial in range(1 if tier == "quick" else 4):
        level = rng.choice(["1.1", "1.5"])
        cfg_a = {"seed": rng.randrange(10**9), "level": level, "images": [("HH", None), ("HV", None)], "n_lines": rng.randint(2, 4), "n_pixels": 2}
        cfg_b = dict(cfg_a, seed=rng.randrange(10**9), n_lines=cfg_a["n_lines"] + (trial % 2))
        prod_a, prod_b = products.build(cfg_a), products.build(cfg_b)
        stem = tempfile.mkdtemp(prefix="parents-", dir=common.SCRATCH)
        base = rng.choice(["product", "0000123456_001001_ALOS2290760600-191011", "data"])
        pa, pb = os.path.join(stem, "a", base), os.path.join(stem, "b", "deeper", base)
        wipe_user_cache()
        try:
            synth.write_product(prod_a, pa)
            synth.write_product(prod_b, pb)
            evals += 1
            distinct.add(("same-basename-roots", base, level))
            case = {"cfg_a": cfg_a, "cfg_b": cfg_b, "directories": ["a/" + base, "b/deeper/" + base],
                    "scenario": "cache created for <stem>/a/<name>, the product <stem>/b/deeper/<name> (same directory name, same image names) opened with use_cache=True"}
            _open(pa, use_cache=False, create_cache=True)
            d = treecmp.diff(fp(_open(pb, use_cache=False)), fp(_open(pb, use_cache=True)))
            if d:
                viol.append({"case": case, "what": "a cache made for a directory of the same name elsewhere was used: " + d, "key": "cache-differs:local"})
        except Exception as e:  # noqa: BLE001
            viol.append({"case": {"directories": [pa, pb]}, "what": f"{type(e).__name__}: {e}"[:300], "key": common.failure_site(e)})
        finally:
            wipe_user_cache()
            shutil.rmtree(stem, ignore_errors=True)
    return {"name": "oracle:C07 cache transparency", "evaluations": evals, "distinct": len(distinct), "violations": viol, "samples": samples}


# ---------------------------------------------------------------------------------------------
def check_c08(seed, tier):
    """decode(encode(group)) at the level of the python objects, for reader groups with extreme field values and
    generated hierarchies of every dtype kind"""
    import corr_cache
    from ceos_alos2.sar_image import caching
    rng = random.Random(seed + 88)
    viol, evals, distinct, samples = [], 0, set(), []
    groups = [("generated", corr_cache.gen_group(rng)) for _ in range(80 if tier == "quick" else 1500)]
    cleans = []
    for _ in range(6 if tier == "quick" else 40):
        g, clean = corr_cache.real_image_group(rng, rng.choice(["1.1", "1.5"]))
        groups.append(("reader", g))
        cleans.append(clean)
    from ceos_alos2.hierarchy import Group, Variable
    # the degenerate shape recorded as a known finding
    groups.append(("zero-size-2d", Group(path="/", url=None, data={"v": Variable(["a", "b"], np.zeros((0, 3), dtype="int16"), {})}, attrs={})))
    for kind, g in groups:
        evals += 1
        try:
            text = caching.encode(g)
            json.loads(text)
            # a fresh process could decode it: the text is self-contained (no python object references)
            back = caching.decode(text, records_per_chunk=2)
            a, b = corr_cache.group_to_wire(g), corr_cache.group_to_wire(back)
            _norm_rpc(a)
            _norm_rpc(b)
            distinct.add(text)
            if not corr_cache.same(corr_cache.wire_to_py({"d": [["g", _w(a)]]}), corr_cache.wire_to_py({"d": [["g", _w(b)]]})):
                viol.append({"case": {"kind": kind, "text": text[:300]}, "what": "decode(encode(group)) differs from the group: " + (treecmp.diff(a, b) or "?"),
                             "key": "zero-size-2d" if kind == "zero-size-2d" else None})
            elif len(samples) < 2 and kind == "reader":
                samples.append({"kind": kind, "text_len": len(text)})
        except Exception as e:  # noqa: BLE001
            viol.append({"case": {"kind": kind}, "what": f"{type(e).__name__}: {e}"[:300], "key": common.failure_site(e)})
    for c in cleans:
        c()
    return {"name": "oracle:C08 codec exactness", "evaluations": evals, "distinct": len(distinct), "violations": viol, "samples": samples}


def _norm_rpc(w):
    for k, n in w["data"]:
        if "group" in n:
            _norm_rpc(n["group"])
        elif "backend" in n["var"]["data"]:
            n["var"]["data"]["backend"]["rpc"] = 0


def _w(obj):
    """turn a wire *group* (plain json) into a wire *value* so that `same` (NaN-aware, type-aware) can compare it"""
    if isinstance(obj, dict):
        if set(obj) <= {"n", "b", "i", "f", "s", "l", "t", "d"} and len(obj) == 1:
            return obj
        return {"d": [[k, _w(v)] for k, v in obj.items()]}
    if isinstance(obj, list):
        return {"l": [_w(x) for x in obj]}
    if isinstance(obj, str):
        return {"s": obj}
    if isinstance(obj, bool):
        return {"b": obj}
    if isinstance(obj, int):
        return {"i": str(obj)}
    if obj is None:
        return {"n": None}
    return {"s": repr(obj)}


# ---------------------------------------------------------------------------------------------
WRITER = r"""
import os, sys, time
path, text, chunk = sys.argv[1], open(sys.argv[2], "rb").read(), int(sys.argv[3])
os.makedirs(os.path.dirname(path), exist_ok=True)
with open(path, "wb") as f:
    for i in range(0, len(text), chunk):
        f.write(text[i:i + chunk]); f.flush(); os.fsync(f.fileno()); time.sleep(0.002)
"""


def check_c09(seed, tier):
    rng = random.Random(seed + 9)
    viol, evals, distinct, samples = [], 0, set(), []
    # (the second placement: a product directory with non-ASCII characters — its name is part of the index document)
    for level, place in ((("1.5", "local"), ("1.1", "local-unicode")) if tier == "quick" else
                         (("1.1", "local"), ("1.5", "local"), ("1.1", "local-unicode"), ("1.5", "local-unicode"))):
        cfg = {"seed": rng.randrange(10**9), "level": level, "images": [("HH", None), ("HV", None)] if place == "local" else [("VV", None)],
               "n_lines": 2, "n_pixels": 2}
        prod = products.build(cfg)
        path, clean = products.place(prod, place)
        wipe_user_cache()
        try:
            ref = fp(_open(path, use_cache=False))
            _open(path, use_cache=False, create_cache=True)
            locs = cache_paths(path, [im.name for im in prod.images])
            docs = {n: open(p[0], "rb").read() for n, p in locs.items()}  # BYTE prefixes: what a killed writer leaves on disk
            wipe_user_cache()
            for im in prod.images:
                doc = docs[im.name]
                ks = list(range(len(doc) + 1))
                if tier != "quick" and not (place == "local" and level == "1.5" and im is prod.images[0]):
                    # thorough: EVERY prefix for one document; the other documents are sampled (closing brackets, cuts inside
                    # multi-byte characters and 400 random cuts) — keeps the tier within minutes
                    closers = [i + 1 for i, ch in enumerate(doc) if ch in b"}]"]
                    inside = [i for i, ch in enumerate(doc) if 0x80 <= ch < 0xC0]
                    ks = sorted(set([0, 1, 2, len(doc) - 1, len(doc)] + rng.sample(ks, min(len(ks), 400)) + rng.sample(closers, min(60, len(closers))) + inside))
                if tier == "quick":
                    closers = [i + 1 for i, ch in enumerate(doc) if ch in b"}]"]
                    inside = [i for i, ch in enumerate(doc) if 0x80 <= ch < 0xC0]  # cuts inside a multi-byte character
                    ks = sorted(set([0, 1, 2, len(doc) - 1, len(doc)] + rng.sample(ks, 40 if place == "local" else 15)
                                    + rng.sample(closers, min(25 if place == "local" else 8, len(closers))) + inside))
                for where in ("user", "adjacent"):
                    target = locs[im.name][0] if where == "user" else os.path.join(path, im.name + ".index")
                    for k in (ks if where == "user" or tier != "quick" else ks[::3]):
                        os.makedirs(os.path.dirname(target), exist_ok=True)
                        with open(target, "wb") as f:
                            f.write(doc[:k])
                        evals += 1
                        distinct.add((level, place, im.name, where, k))
                        case = {"cfg": cfg, "placement": place, "image": im.name, "where": where, "prefix_len": k, "doc_len": len(doc)}
                        try:
                            got = fp(_open(path))
                            d = treecmp.diff(ref, got)
                            if d:
                                viol.append({"case": case, "what": "tree after a torn cache differs from the uncached tree: " + d})
                        except Exception as e:  # noqa: BLE001
                            viol.append({"case": case, "what": f"open_alos2 raised {type(e).__name__}: {e}"[:200], "key": None})
                        os.remove(target)
                    # repair: torn user cache, then create_cache=True, then use_cache=True must use a complete document
                    if where == "user":
                        k = rng.randrange(1, len(doc))
                        with open(target, "wb") as f:
                            f.write(doc[:k])
                        evals += 1
                        try:
                            _open(path, create_cache=True)
                            now = open(target, "rb").read()
                            got = fp(_open(path, use_cache=True))
                            if now != doc or treecmp.diff(ref, got):
                                viol.append({"case": {"cfg": cfg, "image": im.name, "repair_after_prefix": k}, "what": "create_cache=True did not repair the torn cache"})
                        except Exception as e:  # noqa: BLE001
                            viol.append({"case": {"cfg": cfg, "image": im.name, "repair_after_prefix": k}, "what": f"repair raised {type(e).__name__}"})
                        wipe_user_cache()
            if tier != "quick":
                # real SIGKILLs of a writer process at sampled moments, and two concurrent writers
                im = prod.images[0]
                target = locs[im.name][0]
                docfile = os.path.join(common.SCRATCH, "doc.txt")
                with open(docfile, "wb") as f:
                    f.write(docs[im.name])
                script = os.path.join(common.SCRATCH, "writer.py")
                with open(script, "w") as f:
                    f.write(WRITER)
                for trial in range(25):
                    procs = [subprocess.Popen([sys.executable, script, target, docfile, str(rng.choice([7, 64, 300]))])
                             for _ in range(1 if trial % 3 else 2)]
                    time.sleep(rng.uniform(0.0, 0.25))
                    for p in procs:
                        p.send_signal(signal.SIGKILL)
                    for p in procs:
                        p.wait()
                    evals += 1
                    distinct.add(("kill", trial))
                    left = len(open(target, "rb").read()) if os.path.isfile(target) else None
                    try:
                        got = fp(_open(path))
                        if treecmp.diff(ref, got):
                            viol.append({"case": {"cfg": cfg, "sigkill_trial": trial, "bytes_left": left}, "what": "tree differs after a killed writer"})
                    except Exception as e:  # noqa: BLE001
                        viol.append({"case": {"cfg": cfg, "sigkill_trial": trial, "bytes_left": left}, "what": f"open after a killed writer raised {type(e).__name__}"})
                    wipe_user_cache()
            samples.append({"cfg": cfg, "doc_lens": {n: len(d) for n, d in docs.items()}})
        finally:
            wipe_user_cache()
            clean()
    return {"name": "oracle:C09 torn caches", "evaluations": evals, "distinct": len(distinct), "violations": viol, "samples": samples}


# ---------------------------------------------------------------------------------------------
def check_c10(seed, tier):
    import copy
    rng = random.Random(seed + 100)
    viol, evals, distinct, samples = [], 0, set(), []
    for trial in range(4 if tier == "quick" else 40):
        level = rng.choice(["1.1", "1.5"])
        images = [("HH", None), ("VV", None)] if trial % 2 == 0 else rng.choice([[("HH", "F1"), ("HV", "F1")], [("VV", "B2"), ("VV", "B3")]])
        cfg = {"seed": rng.randrange(10**9), "level": level, "images": images, "n_lines": rng.randint(2, 6), "n_pixels": 2}
        prod = products.build(cfg)
        path, clean = products.place(prod, "local")
        wipe_user_cache()
        try:
            refs = {}

            def ref(r):
                if r not in refs:
                    # a fresh uncached open in a pristine state is the specification
                    refs[r] = fp(_open(path, use_cache=False, records_per_chunk=r))
                return refs[r]
            for r in (1, 2, 3, 1024):
                ref(r)
            base_hash = dir_hash(path)
            ops = []
            # the first history of every run is scripted: each producer followed by each kind of open (the random ones follow)
            scripted = [{"op": "cli", "rpc": 2, "image": 0}, {"op": "cli", "rpc": 1024, "image": 1},
                        {"op": "open", "use_cache": False, "create_cache": True, "records_per_chunk": 3},
                        {"op": "open", "use_cache": True, "create_cache": False, "records_per_chunk": 1},
                        {"op": "del_adjacent"},
                        {"op": "open", "use_cache": True, "create_cache": True, "records_per_chunk": 1024},
                        {"op": "del_local"},
                        {"op": "open", "use_cache": True, "create_cache": True, "records_per_chunk": 2},
                        {"op": "cli", "rpc": 3, "image": 0},
                        {"op": "open", "use_cache": True, "create_cache": True, "records_per_chunk": 2},
                        # the very same call again, and once more without writing: an index that was already decoded in this
                        # process (same content, same chunking) must still give the tree of a fresh open
                        {"op": "open", "use_cache": True, "create_cache": True, "records_per_chunk": 2},
                        {"op": "open", "use_cache": True, "create_cache": False, "records_per_chunk": 2},
                        {"op": "open", "use_cache": False, "create_cache": False, "records_per_chunk": 2}] if trial == 0 else None
            for step_no in range(len(scripted) if scripted else (rng.randint(4, 9) if tier == "quick" else rng.randint(6, 14))):
                kind = rng.random()
                if scripted:
                    op = dict(scripted[step_no])
                elif kind < 0.6:
                    op = {"op": "open", "use_cache": rng.random() < 0.7, "create_cache": rng.random() < 0.4, "records_per_chunk": rng.choice([1, 2, 3, 1024])}
                elif kind < 0.75:
                    op = {"op": "cli", "rpc": rng.choice([1, 2, 3, 4096]), "image": rng.randrange(2)}
                elif kind < 0.88:
                    op = {"op": "del_local"}
                else:
                    op = {"op": "del_adjacent"}
                ops.append(op)
                evals += 1
                case = {"cfg": cfg, "history": list(ops)}
                cwd_before = _safe_cwd()
                adj_before = {k: v for k, v in dir_hash(path).items() if k.endswith(".index")}
                try:
                    if op["op"] == "open":
                        opts = {k: v for k, v in op.items() if k != "op"}
                        if step_no % 2 == 0:
                            # every documented option may be given, also the filesystem arguments (here: a no-op one for local files)
                            opts["storage_options"] = {"auto_mkdir": False}
                        before = copy.deepcopy(opts)
                        cache_before = dir_hash(os.environ["XDG_CACHE_HOME"])
                        stat_before = dir_stat(path)
                        t = _open_with(path, opts)
                        got = fp(t)
                        stat_after = dir_stat(path)
                        if stat_after != stat_before:
                            touched = sorted(k for k in set(stat_before) | set(stat_after) if stat_before.get(k) != stat_after.get(k))
                            viol.append({"case": case, "what": f"open_alos2 wrote into the product directory (inode / mtime / size changed): {touched}"})
                        if opts != before:
                            viol.append({"case": case, "what": f"option dict mutated: {before} -> {opts}"})
                        d = treecmp.diff(ref(op["records_per_chunk"]), got)
                        if d:
                            viol.append({"case": case, "what": "tree differs from a fresh uncached open: " + d})
                        cache_after = dir_hash(os.environ["XDG_CACHE_HOME"])
                        new = set(cache_after) - set(cache_before)
                        changed = {k for k in cache_before if cache_after.get(k) != cache_before[k]}
                        if (new or changed) and not op["create_cache"]:
                            viol.append({"case": case, "what": f"files written under the user cache dir without create_cache: {sorted(new | changed)}"})
                        if any(not k.endswith(".index") for k in new):
                            viol.append({"case": case, "what": f"non-index files written: {sorted(new)}"})
                        adj = {k: v for k, v in dir_hash(path).items() if not k.endswith(".index")}
                        if adj != base_hash:
                            viol.append({"case": case, "what": "product directory modified by open_alos2"})
                        cur = {k: v for k, v in dir_hash(path).items() if k.endswith(".index")}
                        if cur != adj_before:
                            viol.append({"case": case, "what": "open_alos2 changed index files next to the images"})
                    elif op["op"] == "cli":
                        run_cli(os.path.join(path, prod.images[op["image"]].name), op["rpc"], keep_cwd=False)
                    elif op["op"] == "del_local":
                        wipe_user_cache()
                    else:
                        for im in prod.images:
                            p = os.path.join(path, im.name + ".index")
                            if os.path.isfile(p):
                                os.remove(p)
                except Exception as e:  # noqa: BLE001
                    viol.append({"case": case, "what": f"{type(e).__name__}: {e}"[:300], "key": common.failure_site(e)})
                try:
                    cwd_after = os.getcwd()
                except OSError:
                    cwd_after = None
                if cwd_after != cwd_before:
                    # what a later open of a RELATIVE path means depends on the working directory: no operation may move it
                    viol.append({"case": case, "what": f"the operation changed the process working directory ({cwd_before} -> {cwd_after}): later opens of relative paths would resolve elsewhere"})
                    os.chdir(cwd_before)
            distinct.add(json.dumps(ops))
            if len(samples) < 2:
                samples.append({"cfg": cfg, "history": ops[:6]})
        finally:
            wipe_user_cache()
            clean()
    # the `chunks` argument (dask is optional and may be absent: a chunked open then fails, which is fine) must not leave anything
    # behind: not in the caller's dictionaries, not in the library (module-level defaults) — every later open, with or without
    # options of its own, still returns the tree of a fresh uncached open, encodings included
    import ceos_alos2
    for level in (("1.5",) if tier == "quick" else ("1.1", "1.5")):
        cfg = {"seed": rng.randrange(10**9), "level": level, "images": [("HH", None)], "n_lines": 7, "n_pixels": 3}
        prod = products.build(cfg)
        path, clean = products.place(prod, "local")
        wipe_user_cache()
        try:
            ref_default = fp(ceos_alos2.open_alos2(path))
            ref_nocache = fp(_open(path, use_cache=False))
            for chunks in ({"rows": 2}, {"rows": 3, "columns": 1}, {}, "auto", -1, {"rows": -1}, {"columns": 2}):
                for own in (None, {"use_cache": False}, {}):
                    evals += 1
                    distinct.add(("chunks", level, json.dumps(chunks), json.dumps(own)))
                    case = {"cfg": cfg, "chunks": chunks, "backend_options": own}
                    before = copy.deepcopy(own)
                    chunks_before = copy.deepcopy(chunks)
                    try:
                        if own is None:
                            ceos_alos2.open_alos2(path, chunks=chunks)
                        else:
                            ceos_alos2.open_alos2(path, chunks=chunks, backend_options=own)
                    except Exception:  # noqa: BLE001
                        pass            # without dask most chunked opens fail: not judged
                    if own != before or chunks != chunks_before:
                        viol.append({"case": case, "what": f"open_alos2 mutated the caller's arguments: backend_options {before} -> {own}, chunks {chunks_before} -> {chunks}"})
                    try:
                        d1 = treecmp.diff(ref_default, fp(ceos_alos2.open_alos2(path)))
                        d2 = treecmp.diff(ref_nocache, fp(_open(path, use_cache=False)))
                        if d1 or d2:
                            viol.append({"case": case, "what": "a plain open AFTER a chunked open differs from the same open before it: " + (d1 or d2)})
                            ref_default = fp(ceos_alos2.open_alos2(path))   # report each cause once
                    except Exception as e:  # noqa: BLE001
                        viol.append({"case": case, "what": f"a plain open after a chunked open raised {type(e).__name__}: {e}"[:300], "key": common.failure_site(e)})
        finally:
            wipe_user_cache()
            clean()
    # a user cache location that cannot be created or written (a regular file where a directory is expected — what a read-only
    # or over-quota home amounts to, and demonstrable as root): with `create_cache=True` the open may fail or succeed, but it
    # never touches the product directory, and every open that returns returns the tree of a fresh uncached one
    for level in (("1.1",) if tier == "quick" else ("1.1", "1.5")):
        cfg = {"seed": rng.randrange(10**9), "level": level, "images": [("HH", None), ("VV", None)], "n_lines": 3, "n_pixels": 2}
        prod = products.build(cfg)
        path, clean = products.place(prod, "local")
        # (the reader fixes its cache root when it is imported: make THAT location unusable)
        cache_dir = os.path.join(os.environ["XDG_CACHE_HOME"], "xarray-ceos-alos2")
        try:
            ref = fp(_open(path, use_cache=False, records_per_chunk=2))
            before = dir_hash(path)
            for variant in ("cache-root-is-a-file", "cache-root-parent-is-a-file"):
                wipe_user_cache()
                if variant == "cache-root-is-a-file":
                    blockers = [cache_dir]
                else:
                    shutil.rmtree(os.environ["XDG_CACHE_HOME"], ignore_errors=True)
                    blockers = [os.environ["XDG_CACHE_HOME"]]
                for b_ in blockers:
                    os.makedirs(os.path.dirname(b_), exist_ok=True)
                    with open(b_, "w") as f_:
                        f_.write("not a directory")
                for opts in ({"use_cache": True, "create_cache": True}, {"use_cache": False, "create_cache": True}, {"use_cache": True}):
                    evals += 1
                    distinct.add(("unwritable-cache", level, variant, json.dumps(opts)))
                    case = {"cfg": cfg, "user_cache_location": variant, "options": opts}
                    try:
                        d = treecmp.diff(ref, fp(_open(path, records_per_chunk=2, **opts)))
                        if d:
                            viol.append({"case": case, "what": "tree differs from a fresh uncached open: " + d})
                    except OSError:
                        pass   # failing is fine (the unchanged reader does): what matters is what it leaves behind
                    except Exception as e:  # noqa: BLE001
                        viol.append({"case": case, "what": f"{type(e).__name__}: {e}"[:300], "key": common.failure_site(e)})
                    after = dir_hash(path)
                    if after != before:
                        new_ = sorted(set(after) - set(before))
                        viol.append({"case": case, "what": f"open_alos2 modified the product directory while the user cache location is unusable: new/changed entries {new_ or sorted(k_ for k_ in before if after.get(k_) != before[k_])}"})
                        for k_ in new_:
                            os.remove(os.path.join(path, k_))
                for b_ in blockers:
                    os.remove(b_)
        finally:
            for b_ in (cache_dir, os.environ["XDG_CACHE_HOME"]):
                if os.path.isfile(b_):
                    os.remove(b_)
            os.makedirs(os.environ["XDG_CACHE_HOME"], exist_ok=True)
            clean()
    # the product is the directory, not the way its path is written: every spelling (trailing slash, `.` / `..` segments, doubled
    # slash, symlink, `file://` URL, relative to the working directory, `pathlib.Path`) gives the tree of the absolute path,
    # uncached and through a cache written under another spelling
    import pathlib
    for level in (("1.5",) if tier == "quick" else ("1.1", "1.5")):
        cfg = {"seed": rng.randrange(10**9), "level": level, "images": [("HH", None), ("HV", "F2")], "n_lines": 3, "n_pixels": 2}
        prod = products.build(cfg)
        path, clean = products.place(prod, "local")
        wipe_user_cache()
        parent, base = os.path.dirname(path), os.path.basename(path)
        link = os.path.join(parent, "ln-" + base)
        cwd = os.getcwd()
        try:
            os.symlink(path, link)
            ref = fp(_open(path, use_cache=False, records_per_chunk=2))
            os.chdir(parent)
            forms = {"trailing-slash": path + "/", "dot-segment": parent + "/./" + base, "dotdot-segment": path + "/../" + base,
                     "doubled-slash": parent + "//" + base, "symlink": link, "file-url": "file://" + path,
                     "file-url-trailing-slash": "file://" + path + "/", "relative": base, "relative-dot": "./" + base,
                     "pathlib": pathlib.Path(path)}
            for pass_no, opts in enumerate(({"use_cache": False}, {"use_cache": True, "create_cache": True}, {"use_cache": True})):
                for name, form in forms.items():
                    evals += 1
                    distinct.add(("spelling", level, name, pass_no))
                    case = {"cfg": cfg, "path_spelling": name, "options": opts}
                    try:
                        d = treecmp.diff(ref, fp(_open(form, records_per_chunk=2, **opts)))
                        if d:
                            viol.append({"case": case, "what": f"the product opened through the path spelling '{name}' differs from the absolute path: " + d})
                    except Exception as e:  # noqa: BLE001
                        viol.append({"case": case, "what": f"path spelling '{name}': {type(e).__name__}: {e}"[:300], "key": common.failure_site(e)})
        finally:
            os.chdir(cwd)
            if os.path.islink(link):
                os.remove(link)
            wipe_user_cache()
            clean()
    return {"name": "oracle:C10 history independence", "evaluations": evals, "distinct": len(distinct), "violations": viol, "samples": samples}


def _open_with(path, opts):
    import ceos_alos2
    return ceos_alos2.open_alos2(path, backend_options=opts)


if __name__ == "__main__":
    seed = int(sys.argv[1]) if len(sys.argv) > 1 else 0
    tier = sys.argv[2] if len(sys.argv) > 2 else "quick"
    for fn in (check_c07, check_c08, check_c09, check_c10):
        t0 = time.time()
        r = fn(seed, tier)
        print(r["name"], r["evaluations"], r["distinct"], "violations:", len(r["violations"]), f"{time.time() - t0:.1f}s")
        seen = set()
        for v in r["violations"]:
            k = v["what"][:60]
            if k in seen:
                continue
            seen.add(k)
            print("   ", json.dumps(v, default=str)[:500])

"""Shared harness plumbing: Lean driver invocation, scratch directories, tracing filesystem."""
import json
import os
import shutil
import subprocess
import sys
import tempfile

VERIF = os.path.dirname(os.path.dirname(os.path.abspath(__file__)))
LEAN_DIR = os.environ.get("VERIF_LEAN_DIR") or os.path.join(VERIF, "lean")  # override: development copies only

# the user cache dir must be redirected *before* ceos_alos2 is imported (cache_root is computed at import)
# a process whose filesystem encoding is ASCII (LC_ALL=C without UTF-8 mode) cannot even NAME a non-ASCII directory
FS_ASCII = __import__("sys").getfilesystemencoding().lower().replace("_", "-") in ("ascii", "ansi-x3.4-1968", "us-ascii", "646")
SCRATCH = tempfile.mkdtemp(prefix="alos2-verif-")
os.environ["XDG_CACHE_HOME"] = os.path.join(SCRATCH, "xdg-cache")
os.makedirs(os.environ["XDG_CACHE_HOME"], exist_ok=True)


def cleanup():
    shutil.rmtree(SCRATCH, ignore_errors=True)


import atexit  # noqa: E402

atexit.register(cleanup)


def _lift_limits():
    import resource
    soft, hard = resource.getrlimit(resource.RLIMIT_AS)
    resource.setrlimit(resource.RLIMIT_AS, (hard, hard))


def run_model(ops, timeout=1800):
    """Send operations (list of JSON-able dicts) to the Lean driver, return the list of parsed results."""
    payload = "\n".join(json.dumps(op, separators=(",", ":")) for op in ops) + "\n"
    p = subprocess.run(
        ["lake", "env", "lean", "--run", "Main.lean"],
        cwd=LEAN_DIR, input=payload, capture_output=True, text=True, timeout=timeout, preexec_fn=_lift_limits,
    )
    if p.returncode != 0:
        raise RuntimeError(f"lean driver failed ({p.returncode}): {p.stderr[-2000:]}")
    lines = [ln for ln in p.stdout.split("\n") if ln.strip()]
    if len(lines) != len(ops):
        raise RuntimeError(f"driver returned {len(lines)} lines for {len(ops)} ops; stderr={p.stderr[-1000:]}")
    return [json.loads(ln) for ln in lines]


def err_name(e):
    """Map a Python exception to the model's error enum."""
    import construct
    names = []
    for cls in type(e).__mro__:
        names.append(cls.__name__)
    if "CachingError" in names:
        return "CachingError"
    if "JSONDecodeError" in names:
        return "JSONDecodeError"
    if isinstance(e, construct.StringError):
        return "StringError"
    if isinstance(e, construct.StreamError):
        return "StreamError"
    if isinstance(e, construct.ConstructError):
        return "Other"
    if "ExceptionGroup" in names:
        return "ExceptionGroup"
    if isinstance(e, IndexError):
        return "IndexError"
    if isinstance(e, KeyError):
        return "KeyError"
    if isinstance(e, AttributeError):
        return "AttributeError"
    if isinstance(e, FileNotFoundError):
        return "FileNotFoundError"
    if isinstance(e, OSError):
        return "OSError"
    if isinstance(e, ValueError):
        return "ValueError"
    return "Other"


class TraceFile:
    def __init__(self, data, log):
        self._data = data
        self._pos = 0
        self._log = log

    def __enter__(self):
        return self

    def __exit__(self, *a):
        self.close()

    def seek(self, pos, whence=0):
        if whence == 0:
            self._pos = pos
        elif whence == 1:
            self._pos += pos
        else:
            self._pos = len(self._data) + pos
        self._log.append(["seek", self._pos])
        return self._pos

    def tell(self):
        return self._pos

    def read(self, size=-1):
        self._log.append(["read", size])
        if size is None or size < 0:
            out = self._data[self._pos:]
        else:
            out = self._data[self._pos:self._pos + size]
        self._pos += len(out)
        return out

    def close(self):
        self._log.append(["close"])


class TraceFS:
    """Minimal object with the `fs.open(url, mode)` interface `Array` needs; records every event."""

    def __init__(self, files):
        self.files = files
        self.log = []
        self.path = "/trace"

    def open(self, url, mode="rb"):
        self.log.append(["open", url])
        return TraceFile(self.files[url], self.log)


from fsspec.implementations.memory import MemoryFileSystem  # noqa: E402


class _Wrapped:
    def __init__(self, f, path, events):
        self._f, self._path, self._events = f, path, events

    def __enter__(self):
        return self

    def __exit__(self, *a):
        self.close()

    def seek(self, pos, whence=0):
        r = self._f.seek(pos, whence)
        self._events.append(["seek", self._path, r])
        return r

    def read(self, size=-1):
        pos = self._f.tell()
        out = self._f.read(size)
        self._events.append(["read", self._path, pos, size, len(out)])
        return out

    def close(self):
        self._events.append(["close", self._path])
        return self._f.close()

    def __getattr__(self, name):
        return getattr(self._f, name)


class TraceMemFS(MemoryFileSystem):
    """A custom fsspec protocol `tracemem://`: an in-memory filesystem whose files log every seek / read."""
    protocol = "tracemem"
    events = []
    store = {}
    pseudo_dirs = [""]

    @classmethod
    def _strip_protocol(cls, path):
        if isinstance(path, str) and path.startswith("tracemem://"):
            path = "memory://" + path[len("tracemem://"):]
        return super()._strip_protocol(path)

    def unstrip_protocol(self, name):
        return "tracemem://" + name

    def _open(self, path, mode="rb", **kwargs):
        f = super()._open(path, mode=mode, **kwargs)
        if "r" not in mode:
            return f
        TraceMemFS.events.append(["open", path])
        return _Wrapped(f, path, TraceMemFS.events)


_REGISTERED = False


def register_trace_protocol():
    global _REGISTERED
    if not _REGISTERED:
        import fsspec
        fsspec.register_implementation("tracemem", TraceMemFS, clobber=True)
        _REGISTERED = True
    return TraceMemFS


def failure_site(e):
    """Identify *where* an exception was raised: 'repo:<file>:<func>' if any frame of the failing call is
    inside ceos_alos2's array/io code, else 'thirdparty:<pkg>:<func>:<ExcName>' (innermost non-numpy frame)."""
    import traceback

    tb = traceback.extract_tb(e.__traceback__)
    repo_frames = [f for f in tb if "/ceos_alos2/" in f.filename and not f.filename.endswith("ceos_alos2/xarray.py")]
    if repo_frames:
        f = repo_frames[-1]
        return f"repo:{f.filename.split('/ceos_alos2/')[-1]}:{f.name}:{type(e).__name__}"
    for f in reversed(tb):
        if "site-packages/" in f.filename and "/numpy/" not in f.filename:
            pkg = f.filename.split("site-packages/")[-1].split("/")[0]
            return f"thirdparty:{pkg}:{f.name}:{type(e).__name__}"
    return f"unknown:{type(e).__name__}"

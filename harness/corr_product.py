"""Correspondence (H9): the real `sar_image.open_image` and `ceos_alos2.io.open` (uncached) vs the Lean models
`openImageFile` / `openProduct` (Model/Product.lean), at the level of the hierarchy objects the reader builds
(Group / Variable / Array), for whole synthesised products and damaged ones."""
import random

import fsspec

import corr_transform
import oracle_tree
import products
from common import err_name, run_model


def canon_array(a):
    return {"type_code": a.type_code, "shape": [str(int(x)) for x in a.shape], "dtype": str(a.dtype),
            "byte_ranges": [[str(int(s)), str(int(e))] for s, e in a.byte_ranges], "rpc": int(a.records_per_chunk)}


def split_image_group(g):
    """(canonical group without the lazy `data` variable, canonical array metadata)"""
    from ceos_alos2.hierarchy import Group
    data = g.data["data"]
    rest = Group(path=g.path, url=g.url, data={k: v for k, v in g.data.items() if k != "data"}, attrs=dict(g.attrs))
    ok = list(data.dims) == ["rows", "columns"] and data.attrs == {}
    return corr_transform.canon_py(rest), canon_array(data.data), ok


def match_image(m, g, where):
    cg, ca, ok = split_image_group(g)
    if not ok:
        return f"{where}: data variable dims/attrs"
    d = corr_transform.match_group(m["group"], cg, where)
    if d:
        return d
    ma = dict(m["array"])
    # the Array clamps records_per_chunk to the number of lines on construction (`normalize_chunksize`): compare what it stores
    want = dict(ca)
    if ma != want:
        # tolerate only the clamping of rpc
        ma2 = dict(ma)
        n = int(want["shape"][0])
        ma2["rpc"] = min(ma2["rpc"], n) if n > 0 else ma2["rpc"]
        if ma2 != want:
            return f"{where}: array metadata {ma} vs {want}"
    return None


def sval(m):
    if "s" in m:
        return m["s"]
    if "i" in m:
        return int(m["i"])
    if "f" in m:
        return float(m["f"])
    if "ints" in m:
        return tuple(int(x) for x in m["ints"])
    return list(m["texts"])


def match_summary(m, g):
    """model: [[name, {attrs: [[k, sval]], groups: [[n, attrs]]}]] vs the real summary Group"""
    if [x[0] for x in m] != list(g.data):
        return f"/summary: groups {[x[0] for x in m]} vs {list(g.data)}"
    for name, body in m:
        rg = g.data[name]
        want = {k: sval(v) for k, v in body["attrs"]}
        if want != dict(rg.attrs) or list(want) != list(rg.attrs):
            return f"/summary/{name}: attrs differ: {[(k, want.get(k), rg.attrs.get(k)) for k in set(want) | set(rg.attrs) if want.get(k) != rg.attrs.get(k)][:3]}"
        if [x[0] for x in body["groups"]] != list(rg.data):
            return f"/summary/{name}: sub-groups {[x[0] for x in body['groups']]} vs {list(rg.data)}"
        for sn, sattrs in body["groups"]:
            w = {k: sval(v) for k, v in sattrs}
            if w != dict(rg.data[sn].attrs):
                return f"/summary/{name}/{sn}: attrs differ"
    return None


def real_product(files, rpc):
    from ceos_alos2 import io
    fs = fsspec.filesystem("memory")
    root = "/cp" + format(random.getrandbits(40), "x")
    for n, b in files.items():
        with fs.open(f"{root}/{n}", "wb") as f:
            f.write(b)
    try:
        g = io.open(f"memory://{root}", use_cache=False, records_per_chunk=rpc)
        from ceos_alos2.hierarchy import Group
        if any(not isinstance(sub, Group) for sub in g.data["summary"].data.values()):
            # same convention as the summary correspondence: an undocumented section code surfaces as a raw dict inside the
            # summary group (and silently disappears at the xarray level); the model rejects it with KeyError
            return {"err": "KeyError", "msg": "undocumented summary section passed through as a raw dict"}
        return {"ok": g}
    except BaseException as e:  # noqa: BLE001
        if type(e).__name__ == "ExceptionGroup":
            return {"err": "ExceptionGroup"}
        if not isinstance(e, Exception):
            raise
        n = err_name(e)
        return {"err": n, "msg": str(e)[:100]}
    finally:
        fs.rm(root, recursive=True)


def match_product(m, g):
    d = corr_transform.match_kvs(m["root_attrs"], g.attrs, "/@")
    if d:
        return d
    if list(g.data) != ["summary", "metadata", "imagery"]:
        return f"root children {list(g.data)}"
    d = match_summary(m["summary"], g.data["summary"])
    if d:
        return d
    d = corr_transform.match_group(m["metadata"], corr_transform.canon_py(g.data["metadata"]), "/metadata")
    if d:
        return d
    img = g.data["imagery"]
    if [x[0] for x in m["imagery"]] != list(img.data):
        return f"/imagery children {[x[0] for x in m['imagery']]} vs {list(img.data)}"
    for name, body in m["imagery"]:
        d = match_image(body, img.data[name], f"/imagery/{name}")
        if d:
            return d
    return None


def damage(rng, files):
    """a damaged copy of the product: truncation / removal / corruption of one file"""
    files = dict(files)
    name = rng.choice(list(files))
    kind = rng.choice(["truncate", "remove", "flip", "truncate-record"])
    b = files[name]
    if kind == "remove":
        del files[name]
    elif kind == "truncate" and len(b) > 1:
        files[name] = b[:rng.randrange(len(b))]
    elif kind == "truncate-record" and name.startswith("IMG") and len(b) > 720:
        files[name] = b[:720 + rng.randrange(0, len(b) - 720)]
    elif b:
        i = rng.randrange(len(b))
        files[name] = b[:i] + bytes([b[i] ^ (1 << rng.randrange(8))]) + b[i + 1:]
    return files, f"{kind}:{name[:3]}"


def check(seed, tier):
    rng = random.Random(seed + 41)
    cases = []
    for _ in range(10 if tier == "quick" else 120):
        cfg = oracle_tree.random_cfg(rng, tier)
        cfg["n_att"] = rng.choice([1, 2, 5])
        prod = products.build(cfg)
        rpc = rng.choice([1, 2, 3, 1024])
        cases.append((dict(prod.files), rpc, "intact"))
        for _ in range(2):
            f2, what = damage(rng, prod.files)
            cases.append((f2, rpc, what))
    ops = [{"op": "open_product", "files": [[n, b.hex()] for n, b in f.items()], "rpc": rpc} for f, rpc, _ in cases]
    outs = run_model(ops)
    bad, dist = [], {"ok": 0, "err": {}, "kinds": {}}
    for (f, rpc, what), m in zip(cases, outs):
        r = real_product(f, rpc)
        dist["kinds"][what] = dist["kinds"].get(what, 0) + 1
        if "ok" in r:
            dist["ok"] += 1
            if "ok" not in m:
                bad.append({"what": what, "rpc": rpc, "real": "ok", "model": str(m)[:200]})
                continue
            d = match_product(m["ok"], r["ok"])
            if d:
                bad.append({"what": what, "rpc": rpc, "diff": d[:400]})
        else:
            dist["err"][r["err"]] = dist["err"].get(r["err"], 0) + 1
            if m.get("err") != r["err"] and not (r["err"] == "ValueError" and "!invalid:" in str(m)) \
                    and not corr_transform.composite_raises(m, r["err"]):
                bad.append({"what": what, "rpc": rpc, "real": r, "model": str(m)[:200]})
    return {"name": "whole products (io.open)", "cases": len(cases), "distinct": len(cases), "disagreements": bad, "distribution": dist,
            "sample": {"kinds": dist["kinds"]}}


if __name__ == "__main__":
    import json
    import sys
    r = check(int(sys.argv[1]) if len(sys.argv) > 1 else 0, sys.argv[2] if len(sys.argv) > 2 else "quick")
    print(r["cases"], r["distribution"], "disagreements", len(r["disagreements"]))
    seen = set()
    for b in r["disagreements"]:
        k = str(b.get("diff") or b.get("real"))[:60]
        if k in seen:
            continue
        seen.add(k)
        print(json.dumps(b, default=str)[:600])

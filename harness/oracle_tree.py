"""End-to-end oracle for the metadata properties (C03, C04, C05, C12, C13, C16, C17, C20): synthesise products from the
frozen layout spec, open them with the real `open_alos2`, compare with the expected tree computed from the frozen
provenance spec and the synthesised values."""
import random

import numpy as np

import common
import expect
import products


def _open(path, **opts):
    import ceos_alos2

    o = {"use_cache": False}
    o.update(opts)
    return ceos_alos2.open_alos2(path, backend_options=o)


def random_cfg(rng, tier, **force):
    level = rng.choice(["1.1", "1.5"])
    pols = rng.sample(["HH", "HV", "VH", "VV"], rng.randint(1, 3))
    scans = [None] * len(pols) if rng.random() < 0.6 else [rng.choice("BF") + str(rng.randint(0, 9)) for _ in pols]
    cfg = {
        "seed": rng.randrange(10**9), "level": level, "images": list(zip(pols, scans)),
        "n_lines": rng.randint(1, 6), "n_pixels": rng.randint(1, 4),
        "n_att": rng.choice([1, 2, 3, 7, 136, rng.randint(1, 136)]) if tier != "quick" else rng.choice([1, 2, 5, 136]),
        "n_chan": rng.randint(1, 16),
        "facility_lens": [rng.choice([66, 67, 325, rng.randint(66, 2000)]) for _ in range(4)],
        "mapproj": rng.choice([None, "UTM", "UPS", "LCC", "MER"]),
        "n_fileptr": rng.randint(0, 9),
        "blank_prob": rng.choice([0.0, 0.0, 0.2, 0.7]),
    }
    cfg.update(force)
    return cfg


def check_product(cfg, prefix_filter=None, which=("root", "leader", "images"), fs="memory"):
    """returns (list of differences, failure key or None)"""
    prod = products.build(cfg)
    path, clean = products.place(prod, fs)
    try:
        try:
            t = _open(path)
        except Exception as e:  # noqa: BLE001
            return [f"open_alos2 raised {type(e).__name__}: {str(e)[:200]}"], common.failure_site(e), prod
        exp = expect.expected_nodes(prod, which)
        return expect.compare_tree(t, exp, prefix_filter), None, prod
    finally:
        clean()


def run(seed, tier, count, prefix_filter, which, name, **force):
    rng = random.Random(seed)
    viol, evals, distinct, samples = [], 0, set(), []
    for _ in range(count):
        cfg = random_cfg(rng, tier, **force)
        diffs, key, prod = check_product(cfg, prefix_filter, which)
        evals += 1
        distinct.add(cfg["seed"])
        if diffs:
            viol.append({"case": {"cfg": cfg}, "what": "; ".join(diffs[:3])[:600], "n_diffs": len(diffs), "key": key or classify(diffs[0])})
        elif len(samples) < 2:
            samples.append({"cfg": cfg})
    return {"name": name, "evaluations": evals, "distinct": len(distinct), "violations": viol, "samples": samples}


def classify(diff):
    if "/metadata/attitude/" in diff and "/time" in diff:
        return "attitude-time"
    return None


if __name__ == "__main__":
    import json
    import sys
    r = run(int(sys.argv[1]) if len(sys.argv) > 1 else 0, "thorough", int(sys.argv[2]) if len(sys.argv) > 2 else 20, None, ("root", "leader", "images"), "all")
    print(r["evaluations"], len(r["violations"]))
    seen = set()
    for v in r["violations"]:
        k = v["what"][:70]
        if k in seen:
            continue
        seen.add(k)
        print(json.dumps(v, default=str)[:900])

"""End-to-end oracle for the metadata properties (C03, C04, C05, C12, C13, C16, C17, C20): synthesise products from the
frozen layout spec, open them with the real `open_alos2`, compare with the expected tree computed from the frozen
provenance spec and the synthesised values."""
import random

import numpy as np

import common
import expect
import products


def _open(path, **opts):
    import ceos_alos2

    o = {"use_cache": False}
    o.update(opts)
    return ceos_alos2.open_alos2(path, backend_options=o)


def random_cfg(rng, tier, **force):
    level = rng.choice(["1.1", "1.5"])
    pols = rng.sample(["HH", "HV", "VH", "VV"], rng.randint(1, 3))
    scans = [None] * len(pols) if rng.random() < 0.6 else [rng.choice("BF") + str(rng.randint(0, 9)) for _ in pols]
    cfg = {
        "seed": rng.randrange(10**9), "level": level, "images": list(zip(pols, scans)),
        "n_lines": rng.randint(1, 6), "n_pixels": rng.randint(1, 4),
        "n_att": rng.choice([1, 2, 3, 7, 136, rng.randint(1, 136)]) if tier != "quick" else rng.choice([1, 2, 5, 136]),
        "n_chan": rng.randint(1, 16),
        "facility_lens": [rng.choice([66, 67, 325, rng.randint(66, 2000)]) for _ in range(4)],
        "mapproj": rng.choice([None, "UTM", "UPS", "LCC", "MER"]),
        "n_fileptr": rng.randint(0, 9),
        "blank_prob": rng.choice([0.0, 0.0, 0.2, 0.7]),
        "vary_line_constants": rng.random() < 0.35,
    }
    cfg.update(force)
    return cfg


def check_product(cfg, prefix_filter=None, which=("root", "leader", "images"), fs="memory"):
    """returns (list of differences, failure key or None)"""
    prod = products.build(cfg)
    path, clean = products.place(prod, fs)
    try:
        try:
            t = _open(path)
        except Exception as e:  # noqa: BLE001
            return [f"open_alos2 raised {type(e).__name__}: {str(e)[:200]}"], common.failure_site(e), prod
        exp = expect.expected_nodes(prod, which)
        diffs = expect.compare_tree(t, exp, prefix_filter)
        if not diffs:
            # opening is a function of the product: a second open in the same process gives the same tree, bit for bit
            import treecmp
            try:
                d = treecmp.diff(treecmp.fingerprint_tree(t), treecmp.fingerprint_tree(_open(path)))
            except Exception as e:  # noqa: BLE001
                return [f"second open_alos2 of the same product raised {type(e).__name__}: {str(e)[:200]}"], common.failure_site(e), prod
            if d:
                diffs = ["second open of the same product differs from the first: " + d[:300]]
        return diffs, None, prod
    finally:
        clean()


def run(seed, tier, count, prefix_filter, which, name, **force):
    rng = random.Random(seed)
    viol, evals, distinct, samples = [], 0, set(), []
    for _ in range(count):
        cfg = random_cfg(rng, tier, **force)
        diffs, key, prod = check_product(cfg, prefix_filter, which)
        evals += 1
        distinct.add(cfg["seed"])
        if diffs:
            viol.append({"case": {"cfg": cfg}, "what": "; ".join(diffs[:3])[:600], "n_diffs": len(diffs), "key": key or classify(diffs[0])})
        elif len(samples) < 2:
            samples.append({"cfg": cfg})
    return {"name": name, "evaluations": evals, "distinct": len(distinct), "violations": viol, "samples": samples}


def classify(diff):
    if "/metadata/attitude/" in diff and "/time" in diff:
        return "attitude-time"
    return None


if __name__ == "__main__":
    import json
    import sys
    r = run(int(sys.argv[1]) if len(sys.argv) > 1 else 0, "thorough", int(sys.argv[2]) if len(sys.argv) > 2 else 20, None, ("root", "leader", "images"), "all")
    print(r["evaluations"], len(r["violations"]))
    seen = set()
    for v in r["violations"]:
        k = v["what"][:70]
        if k in seen:
            continue
        seen.add(k)
        print(json.dumps(v, default=str)[:900])


# ---------------------------------------------------------------------------------------------
def check_c05(seed, tier):
    """framing: every admissible count / length of the variable records, with the records that follow them compared
    field by field (radiometric data after the attitude record, transformations after the facility records,
    root text-record attributes after the file pointers); trailer reader for 0..7 low-resolution images."""
    rng = random.Random(seed + 5)
    viol, evals, distinct, samples = [], 0, set(), []
    atts = list(range(1, 137)) if tier != "quick" else sorted({1, 2, 135, 136} | {rng.randint(3, 134) for _ in range(6)})
    for n_att in atts:
        cfg = random_cfg(rng, tier, n_att=n_att, level="1.5", images=[("HH", None)], n_lines=1, n_pixels=1, blank_prob=0.0,
                         att_len=rng.choice([16384, 16 + 120 * n_att, 16 + 120 * n_att + rng.randint(1, 500)]))
        diffs, key, prod = check_product(cfg, None, ("root", "leader"))
        evals += 1
        distinct.add(("att", n_att, cfg["att_len"], cfg["n_chan"], tuple(cfg["facility_lens"]), cfg["mapproj"], cfg["n_fileptr"]))
        if diffs:
            viol.append({"case": {"cfg": cfg}, "what": "; ".join(diffs[:3])[:500], "key": key or classify(diffs[0])})
    for n_chan in range(1, 17):
        for mp in (None, "UTM"):
            cfg = random_cfg(rng, tier, n_chan=n_chan, mapproj=mp, level="1.5", images=[("HH", None)], n_lines=1, n_pixels=1, n_att=rng.choice([1, 3, 136]), blank_prob=0.0)
            diffs, key, prod = check_product(cfg, None, ("root", "leader"))
            evals += 1
            distinct.add(("chan", n_chan, mp, tuple(cfg["facility_lens"]), cfg["n_fileptr"]))
            if diffs:
                viol.append({"case": {"cfg": cfg}, "what": "; ".join(diffs[:3])[:500], "key": key or classify(diffs[0])})
    for fl in ([66, 67, 68, 100, 511] if tier == "quick" else list(range(66, 140)) + [1000, 5000, 99999]):
        cfg = random_cfg(rng, tier, facility_lens=[fl, rng.choice([66, fl]), fl + 1, 66], level="1.5", images=[("HH", None)], n_lines=1, n_pixels=1, n_att=2, blank_prob=0.0)
        diffs, key, prod = check_product(cfg, None, ("root", "leader"))
        evals += 1
        distinct.add(("fac", fl))
        if diffs:
            viol.append({"case": {"cfg": cfg}, "what": "; ".join(diffs[:3])[:500], "key": key or classify(diffs[0])})
    for k in range(0, 12):
        cfg = random_cfg(rng, tier, n_fileptr=k, level="1.1", images=[("HH", None)], n_lines=1, n_pixels=1, n_att=1, blank_prob=0.0)
        diffs, key, prod = check_product(cfg, "/", ("root",))
        evals += 1
        distinct.add(("fp", k))
        if diffs:
            viol.append({"case": {"cfg": cfg}, "what": "; ".join(diffs[:3])[:500], "key": key})
    # trailer reader
    import io
    import struct

    import synth
    from ceos_alos2.sar_trailer import read_sar_trailer
    lay, req = products.spec()
    for k in range(0, 8):
        shapes = [(rng.randint(1, 4), rng.randint(1, 3), rng.choice([1, 2, 4])) for _ in range(k)]
        ov = {"number_of_low_resolution_images": k}
        datas = []
        for i, (px, ln, nb) in enumerate(shapes):
            vals = [rng.randint(-(2 ** (8 * nb - 1)), 2 ** (8 * nb - 1) - 1) for _ in range(px * ln)]
            datas.append((vals, b"".join(v.to_bytes(nb, "big", signed=True) for v in vals)))
            ov[f"low_resolution_image_sizes[{i}].record_length"] = len(datas[-1][1])
            ov[f"low_resolution_image_sizes[{i}].number_of_pixels"] = px
            ov[f"low_resolution_image_sizes[{i}].number_of_lines"] = ln
            ov[f"low_resolution_image_sizes[{i}].number_of_bytes_per_one_sample"] = nb
        hb, _, _ = synth.Builder(rng, overrides=ov, required=req.get("trailer_file_descriptor", {})).build(lay["trailer_file_descriptor"])
        blob = hb.ljust(720, b" ") + b"".join(d for _, d in datas)
        evals += 1
        distinct.add(("trl", k))
        try:
            header, images = read_sar_trailer(io.BytesIO(blob))
            ok = len(images) == k and all(im.shape == (px, ln) and im.ravel().tolist() == vals
                                          for im, (px, ln, nb), (vals, _) in zip(images, shapes, datas))
            if not ok:
                viol.append({"case": {"trailer_images": k, "shapes": shapes}, "what": "low-resolution images differ from the bytes written"})
        except Exception as e:  # noqa: BLE001
            viol.append({"case": {"trailer_images": k, "shapes": shapes}, "what": f"read_sar_trailer raised {type(e).__name__}: {e}"[:200], "key": common.failure_site(e)})
    samples.append({"attitude_counts": atts[:5], "note": "each case compares every /metadata node and the root attributes with the synthesised values"})
    return {"name": "oracle:C05 record framing", "evaluations": evals, "distinct": len(distinct), "violations": viol, "samples": samples}

"""Expected output tree of `open_alos2` for a synthesised product, computed from the *frozen* provenance
specification `spec/provenance.json` (which output leaf is which input field under which conversion) and the
values the product was synthesised from.  Independent of /repo's current code.

Leaf addressing
  input  : "VOL:<path>", "LED:<path>", "IMG<k>:hdr:<path>", "IMG<k>:line[<i>]:<path>"   (<path> like a.b[2].c)
  output : node path + ("attr", name) | ("var", name)
"""
import datetime
import json
import math
import os

import numpy as np

import synth

SPEC_DIR = synth.SPEC_DIR


# ------------------------------------------------------------------------------------------------
# flatten the synthesiser's value trees


def flatten(tree, prefix=""):
    out = {}
    if isinstance(tree, synth.Leaf):
        out[prefix] = tree
    elif isinstance(tree, dict):
        if "__meta__" in tree:
            out.update(flatten(tree["__value__"], prefix))
            out[prefix + "@meta"] = tree["__meta__"]
        else:
            for k, v in tree.items():
                out.update(flatten(v, f"{prefix}.{k}" if prefix else k))
    elif isinstance(tree, list):
        for i, v in enumerate(tree):
            out.update(flatten(v, f"{prefix}[{i}]"))
    return out


def input_leaves(product):
    leaves = {}
    for k, v in flatten(product.volume).items():
        leaves["VOL:" + k] = v
    for k, v in flatten(product.leader).items():
        leaves["LED:" + k] = v
    for n, im in enumerate(product.images):
        for k, v in flatten(im.header).items():
            leaves[f"IMG{n}:hdr:{k}"] = v
        for i, line in enumerate(im.lines):
            for k, v in flatten(line).items():
                leaves[f"IMG{n}:line[{i}]:{k}"] = v
    return leaves


# ------------------------------------------------------------------------------------------------
# conversions (documented readings)


def iso_from_digits(text):
    """'YYYYMMDDhhmmss' + fraction digits -> ISO 8601 (microsecond part only if non-zero), as %f / isoformat do"""
    s = text.strip()
    y, mo, d, hh, mm, ss = s[0:4], s[4:6], s[6:8], s[8:10], s[10:12], s[12:14]
    frac = s[14:]
    us = int((frac + "000000")[:6]) if frac else 0
    out = f"{y}-{mo}-{d}T{hh}:{mm}:{ss}"
    if us:
        out += f".{us:06d}"
    return out


def conv_apply(name, val, leaf=None):
    if name == "id":
        return val
    if name == "bool":
        return bool(val)
    if name == "iso17":
        return iso_from_digits(val)
    if name == "ns":  # integer ns since epoch -> datetime64[ns]
        return np.datetime64(int(val), "ns")
    raise ValueError(name)


CONVS = ["id", "bool", "iso17", "ns"]


def values_equal(a, b):
    """exact, type-aware equality of scalar readings"""
    if isinstance(a, (np.generic,)):
        a = a.item() if not isinstance(a, (np.datetime64, np.timedelta64)) else a
    if isinstance(b, (np.generic,)):
        b = b.item() if not isinstance(b, (np.datetime64, np.timedelta64)) else b
    if isinstance(a, np.datetime64) or isinstance(b, np.datetime64):
        try:
            return np.datetime64(a, "ns") == np.datetime64(b, "ns")
        except Exception:  # noqa: BLE001
            return False
    if isinstance(a, bool) != isinstance(b, bool):
        return False
    if isinstance(a, float) and isinstance(b, float):
        if math.isnan(a) or math.isnan(b):
            return math.isnan(a) and math.isnan(b)
        return a == b  # metadata values are compared numerically (+0.0 == -0.0); pixel data is compared bit-exactly elsewhere
    if isinstance(a, complex) and isinstance(b, complex):
        return values_equal(a.real, b.real) and values_equal(a.imag, b.imag)
    if type(a) is not type(b):
        if isinstance(a, (int, float)) and isinstance(b, (int, float)) and not isinstance(a, bool) and not isinstance(b, bool):
            return type(a) is type(b) and a == b
        return False
    return a == b


# ------------------------------------------------------------------------------------------------
# special (composite) sources that are not a single field


def special(name, leaves, prefix, idx=None):
    if name == "first_point":  # platform position: date text + seconds of day
        date = leaves[prefix + "datetime_of_first_point.date"].val
        sec = leaves[prefix + "datetime_of_first_point.seconds_of_day"].val
        y, m, d = (int(x) for x in date.split())
        return (datetime.datetime(y, m, d) + datetime.timedelta(seconds=sec)).isoformat()
    if name == "attitude_time_code":
        # what the code does today (known finding C17): 1 Jan of the platform-position year + day_of_year DAYS + ms;
        # the platform-position year is that of the first-point instant (date + seconds of day: a leap-second stamp on 31 December carries)
        year = int(special("first_point", leaves, prefix + "platform_position.")[:4])
        doy = leaves[prefix + f"attitude.data_points[{idx}].time.day_of_year"].val
        ms = leaves[prefix + f"attitude.data_points[{idx}].time.millisecond_of_day"].val
        return np.datetime64(synth.instant_ns(year, doy + 1, ms * 10**6), "ns")
    if name == "attitude_time":
        year = int(leaves[prefix + "platform_position.datetime_of_first_point.date"].val.split()[0])
        doy = leaves[prefix + f"attitude.data_points[{idx}].time.day_of_year"].val
        ms = leaves[prefix + f"attitude.data_points[{idx}].time.millisecond_of_day"].val
        return np.datetime64(synth.instant_ns(year, doy, ms * 10**6), "ns")
    raise ValueError(name)


# ------------------------------------------------------------------------------------------------
# evaluating the specification


def load_provenance():
    with open(os.path.join(SPEC_DIR, "provenance.json"), encoding="utf-8") as f:
        return json.load(f)


def eval_src(src, leaves, ctx):
    """src: {"f": path pattern, "c": conv} | {"const": v} | {"special": name, ...} | {"list": [src...]} | {"each": dim, "src": src}
    ctx: {"img": k, dim name: index, sizes: {...}}"""
    if "const" in src:
        return src["const"]
    if "f" in src:
        path = src["f"].format(**ctx)
        leaf = leaves[path]
        return conv_apply(src.get("c", "id"), leaf.val, leaf)
    if "special" in src:
        return special(src["special"], leaves, src.get("prefix", "").format(**ctx), ctx.get(src.get("index", "i")))
    if "list" in src:
        return [eval_src(s, leaves, ctx) for s in src["list"]]
    if "tuple" in src:
        return tuple(eval_src(s, leaves, ctx) for s in src["tuple"])
    if "each" in src:
        n = src["n"] if "n" in src else ctx["sizes"][src["each"]]
        return [eval_src(src["src"], leaves, {**ctx, src["var"]: i}) for i in range(n)]
    if "attrs_of" in src:
        path = src["attrs_of"].format(**ctx)
        return dict(leaves[path].attrs) if not path.endswith("@meta") else dict(leaves[path])
    raise ValueError(src)


def expected_nodes(product, which=("root", "leader", "images"), deps=None):
    """-> {node path: {"attrs": {name: value}, "vars": {name: {"dims": [...], "data": nested list / scalar, "attrs": {...}}}}}"""
    prov = load_provenance()
    leaves = input_leaves(product)
    cfg = product.cfg
    out = {}
    if "root" in which:
        out.update(_eval_nodes(prov["root"], leaves, {"sizes": {}}, deps))
    if "leader" in which:
        mapproj = cfg.get("mapproj", "UTM" if cfg.get("level", "1.5") != "1.1" else None)
        n_att = len(product.leader["attitude"]["data_points"])
        n_chan = len(product.leader["data_quality_summary"]["relative_radiometric_quality"]["nominal_relative_radiometric_calibration_uncertainty"])
        sizes = {"points": n_att, "channel": n_chan}
        out.update(_eval_nodes(prov["leader"], leaves, {"sizes": sizes}, deps))
        if mapproj:
            out.update(_eval_nodes(prov["map_projection"][mapproj], leaves, {"sizes": sizes}, deps))
    if "images" in which:
        for k, im in enumerate(product.images):
            key = "image_1.1" if im.level == "1.1" else "image_1.5"
            gname = im.pol + (f"_scan{im.scan[1]}" if im.scan else "")
            d = {} if deps is not None else None
            nodes = _eval_nodes(prov[key], leaves, {"img": k, "sizes": {"rows": im.n_lines}}, d)
            for p, n in nodes.items():
                out[p.replace("{group}", gname)] = n
            if deps is not None:
                for ok, ins in d.items():
                    deps.setdefault(ok.replace("{group}", gname), set()).update(ins)
    return out


class _Tracker(dict):
    """the input leaves, recording which keys an evaluation reads"""

    def __init__(self, base):
        super().__init__(base)
        self.seen = set()

    def __getitem__(self, k):
        self.seen.add(k)
        return super().__getitem__(k)


def _eval_nodes(spec_nodes, leaves, ctx, deps=None):
    """`deps` (optional dict): filled with  output leaf ("<path>@<attr>" / "<path>/<var>") -> set of input leaf keys read"""
    out = {}
    if deps is not None:
        leaves = _Tracker(leaves)

    def note(key):
        if deps is not None:
            deps.setdefault(key, set()).update(k.replace("@meta", "") for k in leaves.seen)
            leaves.seen = set()

    for path, node in spec_nodes.items():
        attrs = {}
        for name, src in node.get("attrs", {}).items():
            if "optional_on" in src:
                leaf = leaves[src["optional_on"].format(**ctx)]
                if leaf.blank:
                    note(f"{path}@{name}")
                    continue
            attrs[name] = eval_src(src, leaves, ctx)
            note(f"{path}@{name}")
        variables = {}
        for name, v in node.get("vars", {}).items():
            variables[name] = {"dims": v["dims"], "data": eval_src(v["src"], leaves, ctx),
                               "attrs": {k: eval_src(s, leaves, ctx) for k, s in v.get("attrs", {}).items()}}
            note(f"{path}/{name}")
        out[path] = {"attrs": attrs, "vars": variables, "coords": node.get("coords", [])}
    return out


# ------------------------------------------------------------------------------------------------
# comparison with a real tree


def compare_tree(tree, expected, prefix_filter=None):
    """returns list of differences (strings) between an opened DataTree and the expected nodes"""
    diffs = []
    for path, exp in expected.items():
        if prefix_filter and not path.startswith(prefix_filter):
            continue
        try:
            node = tree[path] if path != "/" else tree
        except KeyError:
            diffs.append(f"{path}: group missing")
            continue
        ds = node.to_dataset(inherit=False)
        got_attrs = dict(ds.attrs)
        if list(got_attrs) != list(exp["attrs"]):
            extra = [k for k in got_attrs if k not in exp["attrs"]]
            missing = [k for k in exp["attrs"] if k not in got_attrs]
            if extra or missing:
                diffs.append(f"{path}: attribute names differ: unexpected {extra[:5]} missing {missing[:5]}")
        for k, want in exp["attrs"].items():
            if k in got_attrs and not attr_equal(got_attrs[k], want):
                diffs.append(f"{path}@{k}: {got_attrs[k]!r} != expected {want!r}")
        got_vars = [k for k in ds.variables if k != "data"]
        want_vars = list(exp["vars"])
        if sorted(got_vars) != sorted(want_vars):
            diffs.append(f"{path}: variable names differ: unexpected {[k for k in got_vars if k not in want_vars][:5]} missing {[k for k in want_vars if k not in got_vars][:5]}")
        for k, want in exp["vars"].items():
            if k not in ds.variables:
                continue
            var = ds.variables[k]
            if list(var.dims) != list(want["dims"]):
                diffs.append(f"{path}/{k}: dims {var.dims} != expected {want['dims']}")
                continue
            if not array_equal(var.values, want["data"]):
                diffs.append(f"{path}/{k}: values {np.asarray(var.values).ravel()[:4]!r} != expected {np.asarray(want['data'], dtype=object).ravel()[:4]!r}")
            if dict(var.attrs) != dict(want["attrs"]):
                diffs.append(f"{path}/{k}: attrs {dict(var.attrs)} != expected {want['attrs']}")
        if exp.get("coords") is not None and sorted(ds.coords) != sorted(exp["coords"]):
            diffs.append(f"{path}: coordinates {sorted(ds.coords)} != expected {sorted(exp['coords'])}")
    return diffs


def attr_equal(got, want):
    if isinstance(want, (list, tuple)):
        if isinstance(got, np.ndarray):
            got = got.tolist()
        if not isinstance(got, (list, tuple)) or len(got) != len(want) or type(got) is not type(want):
            return False
        return all(attr_equal(g, w) for g, w in zip(got, want))
    if isinstance(want, dict):
        return isinstance(got, dict) and list(got) == list(want) and all(attr_equal(got[k], want[k]) for k in want)
    return values_equal(got, want)


def array_equal(got, want):
    got = np.asarray(got)
    w = np.asarray(want) if not _has_dt(want) else np.asarray(want, dtype="datetime64[ns]")
    if got.shape != w.shape:
        return False
    if got.dtype.kind == "M" or w.dtype.kind == "M":
        return bool(np.array_equal(got.astype("datetime64[ns]").astype("int64"), w.astype("datetime64[ns]").astype("int64")))
    if got.dtype.kind in "US" or w.dtype.kind in "US":
        return got.dtype.kind == w.dtype.kind and bool(np.array_equal(got, w))
    if got.dtype.kind == "b" or w.dtype.kind == "b":
        return got.dtype.kind == w.dtype.kind and bool(np.array_equal(got, w))
    if got.dtype.kind != w.dtype.kind and not (got.dtype.kind in "iu" and w.dtype.kind in "iu"):
        return False
    if got.dtype.kind in "cf":
        return bool(np.array_equal(got, w, equal_nan=True))
    return bool(np.array_equal(got, w))


def _has_dt(x):
    if isinstance(x, np.datetime64):
        return True
    if isinstance(x, (list, tuple)):
        return any(_has_dt(e) for e in x)
    return False

"""C19 oracle: systematic enumeration of interleavings of real threads at the filesystem's yield points.

A tracing filesystem makes every `open` / `seek` / `read` of an image file a *yield point* owned by a deterministic
scheduler; schedules are enumerated depth-first by replay.  Scenarios: same variable, different variables, pickled copy.
"""
import pickle
import random
import threading
import time

import numpy as np

import common
import products


class Sched:
    def __init__(self, n, prefix):
        self.n = n
        self.prefix = list(prefix)
        self.choices = []          # (chosen, options) per decision
        self.waiting = {}          # thread index -> Event it waits on
        self.state = ["new"] * n   # new | waiting | running | done
        self.cv = threading.Condition()
        self.tls = threading.local()
        self.trace = []

    def register(self, i):
        self.tls.idx = i

    def yield_point(self, what):
        i = getattr(self.tls, "idx", None)
        if i is None:
            return
        ev = threading.Event()
        with self.cv:
            self.waiting[i] = ev
            self.state[i] = "waiting"
            self.trace.append((i, what))
            self.cv.notify_all()
        ev.wait()

    def finished(self, i):
        with self.cv:
            self.state[i] = "done"
            self.waiting.pop(i, None)
            self.cv.notify_all()

    def run(self, deadline=30.0):
        t0 = time.time()
        step = 0
        while True:
            with self.cv:
                # wait until nobody is 'new' and every released thread is waiting / done / demonstrably blocked
                end = time.time() + 0.05
                while any(s == "new" for s in self.state) or (any(s == "running" for s in self.state) and time.time() < end):
                    self.cv.wait(0.01)
                    if time.time() - t0 > deadline:
                        return False
                opts = sorted(self.waiting)
                if not opts:
                    if all(s == "done" for s in self.state):
                        return True
                    if time.time() - t0 > deadline:
                        return False
                    continue
                if step < len(self.prefix) and self.prefix[step] in opts:
                    c = self.prefix[step]
                else:
                    c = opts[0]
                self.choices.append((c, opts))
                step += 1
                ev = self.waiting.pop(c)
                self.state[c] = "running"
            ev.set()


def next_prefix(choices):
    """depth-first successor of a schedule given the options seen at each decision"""
    for k in range(len(choices) - 1, -1, -1):
        c, opts = choices[k]
        later = [o for o in opts if o > c]
        if later:
            return [x for x, _ in choices[:k]] + [later[0]]
    return None


def install(TFS, sched_holder):
    """make the tracing filesystem's file operations yield to the current scheduler"""
    if getattr(TFS, "_sched_installed", False):
        return
    orig_open = TFS._open

    def _open(self, path, mode="rb", **kw):
        s = sched_holder.get("s")
        if s is not None and "IMG-" in path:
            s.yield_point(("open", path[-12:]))
        f = orig_open(self, path, mode=mode, **kw)
        if "IMG-" not in path or "r" not in mode:
            return f
        # always wrap: a handle opened outside a scheduled run may be reused inside one
        return _Y(f, path, sched_holder)
    TFS._open = _open
    TFS._sched_installed = True


class _Y:
    def __init__(self, f, path, holder):
        self._f, self._p, self._h = f, path, holder

    def __enter__(self):
        return self

    def __exit__(self, *a):
        return self._f.__exit__(*a)

    def seek(self, *a, **k):
        s = self._h.get("s")
        if s is not None:
            s.yield_point(("seek", a))
        return self._f.seek(*a, **k)

    def read(self, *a, **k):
        s = self._h.get("s")
        if s is not None:
            s.yield_point(("read", a))
        if self._h.get("fault"):
            self._h["fault"] -= 1
            raise OSError("injected transient read failure")
        return self._f.read(*a, **k)

    def __getattr__(self, n):
        return getattr(self._f, n)


HOLDER = {}


def check_c19(seed, tier):
    import ceos_alos2
    rng = random.Random(seed + 19)
    TFS = common.register_trace_protocol()
    install(TFS, HOLDER)
    viol, evals, distinct, samples = [], 0, set(), []
    budget = 40 if tier == "quick" else 700
    for scenario in ("same-variable", "different-variables", "pickled-copy", "three-threads", "single-chunks", "same-selection"):
        level = rng.choice(["1.1", "1.5"])
        cfg = {"seed": rng.randrange(10**9), "level": level, "images": [("HH", None), ("HV", None)], "n_lines": 6, "n_pixels": 3}
        prod = products.build(cfg)
        path, clean = products.place(prod, "tracemem")
        try:
            HOLDER["s"] = None
            t = ceos_alos2.open_alos2(path, backend_options={"use_cache": False, "records_per_chunk": 2})
            sels = [("HH", {"rows": slice(0, 3)}), ("HH", {"rows": slice(3, 6), "columns": slice(None, None, -1)})]
            if scenario == "different-variables":
                sels = [("HH", {"rows": slice(1, 5)}), ("HV", {"rows": slice(0, 4, 2)})]
            if scenario == "three-threads":
                sels = [("HH", {"rows": slice(0, 2)}), ("HH", {"rows": slice(4, 6)}), ("HV", {"rows": 3})]
            if scenario == "single-chunks":
                sels = [("HH", {"rows": slice(2, 4)}), ("HV", {"rows": slice(2, 4)})]
            if scenario == "same-selection":
                sels = [("HH", {"rows": slice(4, 6)}), ("HH", {"rows": slice(4, 6)})]
            trees = [t] * len(sels)
            if scenario == "pickled-copy":
                try:
                    trees = [t, pickle.loads(pickle.dumps(t))]
                except Exception as e:  # noqa: BLE001
                    evals += 1
                    viol.append({"case": {"cfg": cfg, "scenario": scenario},
                                 "what": f"the opened tree cannot be pickled / unpickled (loads from pickled copies are part of the property): {type(e).__name__}: {e}"[:250]})
                    continue
            want = [tr[f"imagery/{g}/data"].isel(**ix).values for tr, (g, ix) in zip(trees, sels)]
            prefix = []
            count = 0
            while prefix is not None and count < budget:
                # primer: a sequential load of some OTHER selection right before the concurrent phase (whatever a previous
                # load leaves behind — a memo, a handle — must not leak into the racing loads)
                for g0 in {g for g, _ in sels}:
                    trees[0][f"imagery/{g0}/data"].isel(rows=slice(0, 2)).values
                s = Sched(len(sels), prefix)
                HOLDER["s"] = s
                got = [None] * len(sels)
                errs = [None] * len(sels)

                def work(i):
                    s.register(i)
                    s.yield_point(("start", i))
                    try:
                        g, ix = sels[i]
                        got[i] = trees[i][f"imagery/{g}/data"].isel(**ix).values
                    except Exception as e:  # noqa: BLE001
                        errs[i] = e
                    finally:
                        s.finished(i)
                ths = [threading.Thread(target=work, args=(i,), daemon=True) for i in range(len(sels))]
                for th in ths:
                    th.start()
                ok = s.run()
                HOLDER["s"] = None
                for th in ths:
                    th.join(timeout=5)
                evals += 1
                count += 1
                sched = [c for c, _ in s.choices]
                distinct.add((scenario, tuple(sched)))
                case = {"cfg": cfg, "scenario": scenario, "selections": [(g, {k: repr(v) for k, v in ix.items()}) for g, ix in sels], "schedule": sched}
                if not ok:
                    viol.append({"case": case, "what": "threads did not complete under this schedule (deadlock or hang)"})
                else:
                    for i in range(len(sels)):
                        if errs[i] is not None:
                            viol.append({"case": case, "what": f"thread {i} raised {type(errs[i]).__name__}: {errs[i]}"[:200]})
                        elif not products.same_bits(got[i], want[i]):
                            viol.append({"case": case, "what": f"thread {i} loaded values that differ from its sequential load"})
                if ok:
                    # aftermath: a single-threaded load issued after the concurrent phase is the trivial interleaving "later" —
                    # state left behind by the racing loads must not change what it returns
                    # (only the first load after the race can see e.g. a one-entry memo left inconsistent: rotate who goes first)
                    for i in [(count + j) % len(sels) for j in range(len(sels))]:
                        try:
                            g, ix = sels[i]
                            again = trees[i][f"imagery/{g}/data"].isel(**ix).values
                            if not products.same_bits(again, want[i]):
                                viol.append({"case": case, "what": f"a sequential load of selection {i} issued after the concurrent loads differs from the reference"})
                        except Exception as e:  # noqa: BLE001
                            viol.append({"case": case, "what": f"sequential load {i} after the concurrent loads raised {type(e).__name__}: {e}"[:200]})
                if len(samples) < 2 and ok:
                    samples.append({"scenario": scenario, "schedule": sched, "yield_points": [w[0] for _, w in s.trace][:10]})
                prefix = next_prefix(s.choices)
        finally:
            HOLDER["s"] = None
            clean()
    # "without deadlock", the interleaving where one of the loads FAILS: a read of one load raises once (a transient I/O error);
    # the loads issued afterwards — same variable, other variable, in parallel — must complete with the sequential values
    # (a lock or a handle left behind by the failed load would block or poison them)
    rng2 = random.Random(seed + 1919)
    for trial in range(2 if tier == "quick" else 12):
        level = rng2.choice(["1.1", "1.5"])
        cfg = {"seed": rng2.randrange(10**9), "level": level, "images": [("HH", None), ("HV", None)], "n_lines": 6, "n_pixels": 3}
        prod = products.build(cfg)
        path, clean = products.place(prod, "tracemem")
        try:
            HOLDER["s"] = None
            HOLDER["fault"] = 0
            rpc = rng2.choice([1, 2, 1024])
            t = ceos_alos2.open_alos2(path, backend_options={"use_cache": False, "records_per_chunk": rpc})
            sels = [("HH", {"rows": slice(0, 3)}), ("HH", {"rows": slice(3, 6)}), ("HV", {"rows": slice(1, 5)})]
            want = [t[f"imagery/{g}/data"].isel(**ix).values for g, ix in sels]
            failed = None

            def failing():
                nonlocal failed
                try:
                    HOLDER["fault"] = 1
                    t["imagery/HH/data"].isel(rows=slice(0, 6)).values
                except BaseException as e:  # noqa: BLE001
                    failed = e
                finally:
                    HOLDER["fault"] = 0
            th0 = threading.Thread(target=failing, daemon=True)
            th0.start()
            th0.join(timeout=20)
            evals += 1
            case = {"cfg": cfg, "scenario": "after-failed-load", "rpc": rpc}
            distinct.add(("after-failed-load", trial))
            if th0.is_alive():
                viol.append({"case": case, "what": "a load whose read raised OSError never returned"})
                continue
            got = [None] * len(sels)
            errs = [None] * len(sels)

            def work2(i):
                try:
                    g, ix = sels[i]
                    got[i] = t[f"imagery/{g}/data"].isel(**ix).values
                except Exception as e:  # noqa: BLE001
                    errs[i] = e
            ths = [threading.Thread(target=work2, args=(i,), daemon=True) for i in range(len(sels))]
            for th in ths:
                th.start()
            for th in ths:
                th.join(timeout=20)
            for i, th in enumerate(ths):
                if th.is_alive():
                    viol.append({"case": case, "what": f"load {i} ({sels[i][0]}) issued after a load that failed with {type(failed).__name__} did not complete (deadlock: a lock left held by the failed load)"})
                elif errs[i] is not None:
                    viol.append({"case": case, "what": f"load {i} after a failed load raised {type(errs[i]).__name__}: {errs[i]}"[:200]})
                elif not products.same_bits(got[i], want[i]):
                    viol.append({"case": case, "what": f"load {i} after a failed load differs from its sequential load"})
        finally:
            HOLDER["s"] = None
            HOLDER["fault"] = 0
            clean()
    # loads from another PROCESS: a worker forked after the parent has already read from the tree (the default start method of
    # `multiprocessing` on Linux), a worker given a pickled copy — each load, in the worker and in the parent afterwards, must
    # equal the sequential load (a handle or a position kept across loads would be shared through the fork)
    import os as _os
    for trial in range(3 if tier == "quick" else 20):
        level = rng.choice(["1.1", "1.5"])
        # (a file several read-ahead buffers long: a short one is served from the parent's buffer whatever the worker did)
        n = rng.randint(90, 160)
        cfg = {"seed": rng.randrange(10**9), "level": level, "images": [("HH", None)], "n_lines": n, "n_pixels": 24,
               "n_att": 1, "n_chan": 1, "mapproj": None}
        prod = products.build(cfg)
        path, clean = products.place(prod, "local")
        try:
            rpc = rng.choice([1, 2, 3])
            t = ceos_alos2.open_alos2(path, backend_options={"use_cache": False, "records_per_chunk": rpc})
            full = products.twin(prod.images[0])
            da = t["imagery/HH/data"]
            for how in ("fork", "pickled-copy-in-fork"):
                a = rng.randrange(0, 4)
                b = rng.randrange(4, n - 2)
                c = rng.randrange(n // 2, n - 1)     # the parent reads on, sequentially, across several buffer lengths
                evals += 1
                distinct.add(("process", how, n, rpc, a, b, c))
                case = {"cfg": cfg, "scenario": f"worker process ({how})", "rpc": rpc, "parent_rows": [a, c], "worker_row": b}
                first = da.isel(rows=slice(a, a + 1)).values                     # the parent has read before the fork
                try:
                    blob = pickle.dumps(t) if how != "fork" else None
                except Exception as e:  # noqa: BLE001
                    viol.append({"case": case, "what": f"the opened tree cannot be pickled: {type(e).__name__}: {e}"[:250]})
                    continue
                r_fd, w_fd = _os.pipe()
                pid = _os.fork()
                if pid == 0:
                    try:
                        import signal as _signal
                        _signal.alarm(30)   # a child of a multi-threaded parent may inherit a held lock: never hang the check
                        src = pickle.loads(blob)["imagery/HH/data"] if blob is not None else da
                        out = src.isel(rows=slice(b, n)).values
                        _os.write(w_fd, b"ok" if products.same_bits(out, full[b:n]) else b"differs")
                    except BaseException as e:  # noqa: BLE001
                        _os.write(w_fd, ("raised " + type(e).__name__).encode())
                    finally:
                        _os._exit(0)
                _os.close(w_fd)
                _os.waitpid(pid, 0)
                verdict = _os.read(r_fd, 100).decode()
                _os.close(r_fd)
                if verdict and verdict != "ok":   # no verdict at all: the child was stopped by its alarm — inconclusive, not judged
                    viol.append({"case": case, "what": f"the worker's load of rows {b}..{n} {verdict}"})
                try:
                    after = da.isel(rows=slice(a + 1, c + 1)).values                # ... and reads on after the worker is gone
                    if not products.same_bits(first, full[a:a + 1]) or not products.same_bits(after, full[a + 1:c + 1]):
                        viol.append({"case": case, "what": f"the parent's load of rows {a + 1}..{c} after a worker process loaded from the same tree differs from the samples in the file"})
                except Exception as e:  # noqa: BLE001
                    viol.append({"case": case, "what": f"the parent's load after the worker raised {type(e).__name__}: {e}"[:200]})
        finally:
            clean()
    # copies of the lazily read array must address the SAME bytes as the original: pickle / deepcopy / copy of `Array` objects
    # with synthetic byte ranges — small files, and files beyond 2**31 / 2**32 / 2**40 bytes (real scenes exceed 4 GiB)
    import copy as _copy
    import fsspec
    from ceos_alos2.array import Array
    fs = fsspec.filesystem("memory")
    for trial in range(24 if tier == "quick" else 300):
        n = rng.randint(1, 12)
        m = rng.randint(1, 5)
        tc = rng.choice(["IU2", "C*8"])
        bpp = 2 if tc == "IU2" else 8
        P = 192 if tc == "IU2" else 544
        L = P + m * bpp + rng.choice([0, 0, 7])
        base = rng.choice([720, 720, 2**31 - 5 * L, 2**32 - 3 * L, 2**32 + 11, 2**40 + 1, 3 * 2**32 - L])
        ranges = [(base + i * L + P, base + i * L + P + m * bpp) for i in range(n)]
        arr = Array(fs=fs, url="IMG-x", byte_ranges=ranges, shape=(n, m), dtype="uint16" if tc == "IU2" else "complex64",
                    type_code=tc, records_per_chunk=rng.choice([1, 2, 3, n, 1024]))
        evals += 1
        distinct.add(("array-copy", n, m, tc, base))
        for how, cp in (("pickle", lambda a: pickle.loads(pickle.dumps(a))), ("deepcopy", _copy.deepcopy), ("copy", _copy.copy)):
            try:
                c = cp(arr)
                same = (list(map(tuple, c.byte_ranges)) == ranges and tuple(c.shape) == (n, m) and c.type_code == tc
                        and c.records_per_chunk == arr.records_per_chunk and str(c.dtype) == str(arr.dtype) and c.url == arr.url
                        and {int(k_): (int(o["offset"]), int(o["size"])) for k_, o in dict(c.chunk_offsets).items()}
                        == {int(k_): (int(o["offset"]), int(o["size"])) for k_, o in dict(arr.chunk_offsets).items()})
                if not same:
                    viol.append({"case": {"lines": n, "pixels": m, "type_code": tc, "first_record_at": base, "copy_by": how},
                                 "what": f"a {how} copy of the image array addresses other bytes than the original (byte ranges / chunk offsets differ)"})
            except Exception as e:  # noqa: BLE001
                viol.append({"case": {"lines": n, "pixels": m, "type_code": tc, "first_record_at": base, "copy_by": how},
                             "what": f"{how} copy of the image array raised {type(e).__name__}: {e}"[:200]})
    return {"name": "oracle:C19 interleavings", "evaluations": evals, "distinct": len(distinct), "violations": viol, "samples": samples}


if __name__ == "__main__":
    import json
    import sys
    t0 = time.time()
    r = check_c19(int(sys.argv[1]) if len(sys.argv) > 1 else 0, sys.argv[2] if len(sys.argv) > 2 else "quick")
    print(r["name"], r["evaluations"], r["distinct"], "violations:", len(r["violations"]), f"{time.time() - t0:.1f}s")
    for v in r["violations"][:5]:
        print("  ", json.dumps(v, default=str)[:500])
    print(json.dumps(r["samples"], default=str)[:600])

"""Canonical, bit-exact fingerprints of xarray DataTrees (and of ceos_alos2 Groups) for comparisons."""
import datetime
import math

import numpy as np


def canon_value(v):
    """attribute values / small arrays -> JSON-able canonical form that distinguishes types and bit patterns"""
    if isinstance(v, (bool, np.bool_)):
        return {"bool": bool(v)}
    if isinstance(v, (int, np.integer)):
        return {"int": int(v)}
    if isinstance(v, (float, np.floating)):
        f = float(v)
        return {"float": "nan" if math.isnan(f) else f.hex()}
    if isinstance(v, (complex, np.complexfloating)):
        c = complex(v)
        return {"complex": [canon_value(c.real), canon_value(c.imag)]}
    if isinstance(v, str):
        return {"str": v}
    if isinstance(v, bytes):
        return {"bytes": v.hex()}
    if isinstance(v, tuple):
        return {"tuple": [canon_value(x) for x in v]}
    if isinstance(v, list):
        return {"list": [canon_value(x) for x in v]}
    if isinstance(v, dict):
        return {"dict": [[str(k), canon_value(x)] for k, x in v.items()]}
    if isinstance(v, np.ndarray):
        return {"ndarray": canon_array(v)}
    if isinstance(v, (datetime.datetime, np.datetime64)):
        return {"datetime": str(np.datetime64(v, "ns").astype("int64"))}
    if v is None:
        return {"none": None}
    return {"other": f"{type(v).__module__}.{type(v).__name__}:{v!r}"}


def canon_array(a):
    a = np.asarray(a)
    kind = a.dtype.kind
    out = {"dtype": f"{kind}{a.dtype.itemsize}", "shape": list(a.shape)}
    if kind in "biu":
        out["data"] = a.astype("int64" if kind != "u" else "uint64").ravel().tolist()
    elif kind == "f":
        out["data"] = np.ascontiguousarray(a.astype("float64")).view("uint64").ravel().tolist() if a.dtype.itemsize == 8 else np.ascontiguousarray(a).view(f"uint{8 * a.dtype.itemsize}").ravel().tolist()
    elif kind == "c":
        out["data"] = np.ascontiguousarray(a).view(f"uint{4 * a.dtype.itemsize}").ravel().tolist()
    elif kind in "Mm":
        out["dtype"] = str(a.dtype)
        out["data"] = a.astype("int64").ravel().tolist()
    elif kind in "US":
        out["dtype"] = kind
        out["data"] = [str(x) for x in a.ravel().tolist()]
    elif kind == "O":
        out["data"] = [canon_value(x) for x in a.ravel().tolist()]
    else:
        out["data"] = repr(a.tolist())
    return out


def fingerprint_tree(tree, load_values=True, with_encoding=True, skip_encoding_keys=()):
    """{node path: {attrs, coords: [...], vars: {name: {...}}}} in tree order"""
    out = []
    for node in tree.subtree:
        ds = node.to_dataset(inherit=False) if hasattr(node, "to_dataset") else node.ds
        entry = {"path": node.path, "attrs": [[k, canon_value(v)] for k, v in ds.attrs.items()],
                 "coords": list(ds.coords), "data_vars": list(ds.data_vars), "vars": {}}
        for name, var in ds.variables.items():
            e = {"dims": list(var.dims), "attrs": [[k, canon_value(v)] for k, v in var.attrs.items()],
                 "declared_dtype": str(np.dtype(var.dtype)) if _is_dtype(var.dtype) else f"NOT-A-DTYPE:{var.dtype!r}",
                 "declared_shape": list(var.shape)}
            if with_encoding:
                e["encoding"] = [[k, canon_value(v)] for k, v in sorted(var.encoding.items()) if k not in skip_encoding_keys]
            if load_values:
                e["values"] = canon_array(var.values)
            entry["vars"][name] = e
        out.append(entry)
    return out


def _is_dtype(d):
    return isinstance(d, np.dtype)


def diff(a, b, path=""):
    """first difference between two JSON-like structures, or None"""
    if type(a) is not type(b):
        return f"{path}: type {type(a).__name__} vs {type(b).__name__}"
    if isinstance(a, dict):
        if list(a.keys()) != list(b.keys()):
            return f"{path}: keys {list(a.keys())[:8]} vs {list(b.keys())[:8]}"
        for k in a:
            d = diff(a[k], b[k], f"{path}/{k}")
            if d:
                return d
        return None
    if isinstance(a, list):
        if len(a) != len(b):
            return f"{path}: length {len(a)} vs {len(b)}"
        for i, (x, y) in enumerate(zip(a, b)):
            d = diff(x, y, f"{path}[{i}]")
            if d:
                return d
        return None
    if a != b:
        return f"{path}: {str(a)[:80]} vs {str(b)[:80]}"
    return None

"""Correspondence (H1): `to_dict(record.parse(bytes))` of every record layout of /repo  vs  the Lean layout
interpreter (`Model/Construct.lean` on the regenerated `Gen/Layouts.lean`).

Streams: (a) well-formed records from the independent spec encoder with random/extreme field values,
(b) malformed: random byte flips (incl. non-ASCII), truncations at field boundaries +-1, blanks, junk text.
"""
import datetime
import math
import random

import synth
from common import err_name, run_model

EPOCH = datetime.datetime(1970, 1, 1)


def dt_ns(d):
    delta = d - EPOCH
    return (delta.days * 86400 + delta.seconds) * 10**9 + delta.microseconds * 1000


def same_float(a, b):
    if isinstance(a, float) and isinstance(b, float):
        if math.isnan(a) or math.isnan(b):
            return math.isnan(a) and math.isnan(b)
        return a == b and math.copysign(1, a) == math.copysign(1, b)
    return a == b and type(a) is type(b)


def match(m, py, path=""):
    """compare model JSON with the python object; returns None or a description of the first difference"""
    if "d" in m:
        if not isinstance(py, dict):
            return f"{path}: model dict, python {type(py).__name__}"
        keys = [kv[0] for kv in m["d"]]
        if keys != list(py.keys()):
            return f"{path}: keys {keys[:6]}.. vs {list(py.keys())[:6]}.."
        for k, v in m["d"]:
            r = match(v, py[k], path + "." + k)
            if r:
                return r
        return None
    if "l" in m:
        if not isinstance(py, list) or len(py) != len(m["l"]):
            return f"{path}: list mismatch"
        for i, (a, b) in enumerate(zip(m["l"], py)):
            r = match(a, b, f"{path}[{i}]")
            if r:
                return r
        return None
    if "m" in m:
        if not isinstance(py, tuple) or len(py) != 2:
            return f"{path}: model (value, attrs), python {type(py).__name__}"
        if [list(kv) for kv in m["m"][1]] != [[k, str(v)] for k, v in py[1].items()]:
            return f"{path}: attrs {m['m'][1]} vs {py[1]}"
        return match(m["m"][0], py[0], path)
    if "i" in m:
        ok = type(py) is int and py == int(m["i"]) or (isinstance(py, int) and not isinstance(py, bool) and py == int(m["i"]))
        return None if ok else f"{path}: int {m['i']} vs {py!r}"
    if "f" in m:
        ok = isinstance(py, float) and same_float(float(m["f"]), py)
        return None if ok else f"{path}: float {m['f']} vs {py!r}"
    if "sf" in m:
        want = float(m["sf"][0]) * float(m["sf"][1])
        ok = isinstance(py, float) and same_float(want, py)
        return None if ok else f"{path}: scaled float {m['sf']} vs {py!r}"
    if "si" in m:
        want = int(m["si"][0]) * float(m["si"][1])
        ok = isinstance(py, float) and same_float(want, py)
        return None if ok else f"{path}: scaled int {m['si']} vs {py!r}"
    if "c" in m:
        want = float(m["c"][0]) + 1j * float(m["c"][1])
        ok = isinstance(py, complex) and same_float(want.real, py.real) and same_float(want.imag, py.imag)
        return None if ok else f"{path}: complex {m['c']} vs {py!r}"
    if "s" in m:
        return None if (isinstance(py, str) and py == m["s"]) else f"{path}: str {m['s']!r} vs {py!r}"
    if "y" in m:
        return None if (isinstance(py, bytes) and py.hex() == m["y"]) else f"{path}: bytes"
    if "b" in m:
        return None if (isinstance(py, bool) and py == m["b"]) else f"{path}: bool {m['b']} vs {py!r}"
    if "t" in m:
        ok = isinstance(py, datetime.datetime) and dt_ns(py) == int(m["t"])
        return None if ok else f"{path}: datetime {m['t']} vs {py!r}"
    return f"{path}: unknown model node {list(m)}"


LAYOUTS = {
    "recordPreamble": "record_preamble",
    "imageFileDescriptor": "image_file_descriptor",
    "signalDataRecord": "signal_data_record",
    "processedDataRecord": "processed_data_record",
    "sarLeaderRecord": "sar_leader_record",
    "volumeDirectoryRecord": "volume_directory_record",
    "trailerFileDescriptor": "trailer_file_descriptor",
}


def live_records():
    import sys, os
    sys.path.insert(0, os.path.join(os.path.dirname(os.path.dirname(os.path.abspath(__file__))), "tools"))
    import walk
    return walk.records()


def real_parse(con, data):
    from ceos_alos2.utils import to_dict
    try:
        return {"ok": to_dict(con.parse(data))}
    except Exception as e:  # noqa: BLE001
        return {"err": err_name(e), "msg": str(e)[:80]}


def well_formed(rng, lname, layouts, required, blank_prob):
    key = LAYOUTS[lname]
    req = {"signal_data_record": "line", "processed_data_record": "line"}.get(key, key)
    ov = {}
    if key == "sar_leader_record":
        n_att = rng.choice([0, 1, 2, 5, rng.randint(1, 136)])
        att_len = rng.choice([16384, 16 + 120 * n_att, 16 + 120 * n_att + rng.randint(0, 300)])
        ov = {"file_descriptor.map_projection.number_of_records": rng.choice([0, 1]),
              "attitude.preamble.record_length": att_len, "attitude.number_of_points": n_att,
              "data_quality_summary.number_of_channels": rng.randint(0, 16)}
        for i in range(1, 5):
            ov[f"facility_related_data_{i}.preamble.record_length"] = rng.choice([66, 67, 100, rng.randint(66, 3000)])
    elif key == "volume_directory_record":
        ov = {"volume_descriptor.number_of_file_pointer_records": rng.randint(0, 9)}
    elif key == "trailer_file_descriptor":
        ov = {"number_of_low_resolution_images": rng.randint(0, 7)}
    elif key in ("signal_data_record", "processed_data_record"):
        P = 544 if key.startswith("signal") else 192
        ov = {"preamble.record_length": P + rng.choice([0, 8, 16, 40])}
    b = synth.Builder(rng, overrides=ov, required=required.get(req, {}), blank_prob=blank_prob,
                      unknown_enum_prob=0.1)
    data, tree, _ = b.build(layouts[key])
    if key in ("signal_data_record", "processed_data_record"):
        data = data + rng.randbytes(ov["preamble.record_length"] - len(data) + rng.choice([0, 0, 3]))
    return data


def mutate(rng, data, kind):
    d = bytearray(data)
    if kind == "flip" and d:
        for _ in range(rng.randint(1, 4)):
            i = rng.randrange(len(d))
            d[i] = rng.choice([0, 0x20, 0x80, 0xFF, 0x2D, 0x2B, 0x5F, 0x2E, 0x45, 0x65, 0x31, 0x09, 0x1F, rng.randrange(256)])
    elif kind == "cut":
        d = d[:rng.randrange(len(d) + 1)]
    elif kind == "junk" and d:
        i = rng.randrange(len(d))
        w = rng.randint(1, 12)
        junk = rng.choice([b"1e5", b"1_0", b"+ 1", b"--1", b"1.", b".5", b"inf", b"NaN", b"1E+", b"1D5", b"0x10", b"1,5", b" 1 2 ", b"-", b"+", b"_1", b"1__2", b"Infinity", b"-nan", b"YES", b"12"])
        d[i:i + len(junk)] = junk[:max(0, min(len(junk), len(d) - i))]
    elif kind == "blank" and d:
        i = rng.randrange(len(d))
        w = rng.randint(1, 40)
        d[i:i + w] = (b" " if rng.random() < 0.7 else b"\x00") * min(w, len(d) - i)
    return bytes(d)


def check(seed, tier, only=None):
    rng = random.Random(seed + 7)
    layouts, required = synth.load_layouts(), synth.load_required()
    recs = live_records()
    cases = []
    per = {"quick": {"sarLeaderRecord": 12, "default": 40}, "thorough": {"sarLeaderRecord": 150, "default": 600}}[tier if tier in ("quick", "thorough") else "quick"]
    for lname, key in LAYOUTS.items():
        if only and lname not in only:
            continue
        count = per.get(lname, per["default"])
        for i in range(count):
            try:
                data = well_formed(rng, lname, layouts, required, blank_prob=rng.choice([0.0, 0.1, 0.6]))
            except ValueError:
                continue  # generator asked for an inadmissible combination (negative padding) — skip
            cases.append((lname, "well-formed", data))
            for kind in ("flip", "cut", "junk", "blank"):
                if rng.random() < (0.5 if lname != "sarLeaderRecord" else 0.3):
                    cases.append((lname, kind, mutate(rng, data, kind)))
        cases.append((lname, "random", rng.randbytes(rng.randint(0, 800))))
        cases.append((lname, "empty", b""))
    ops = [{"op": "parse", "layout": ln, "data": d.hex()} for ln, _, d in cases]
    outs = run_model(ops)
    bad, dist, distinct = [], {"ok": 0, "err": {}, "kinds": {}}, set()
    sample = None
    for (ln, kind, d), m in zip(cases, outs):
        r = real_parse(recs[LAYOUTS[ln]], d)
        dist["kinds"][f"{ln}:{kind}"] = dist["kinds"].get(f"{ln}:{kind}", 0) + 1
        distinct.add((ln, d))
        if "ok" in r:
            dist["ok"] += 1
            if "ok" not in m:
                bad.append({"layout": ln, "kind": kind, "len": len(d), "real": "ok", "model": m, "data": d.hex() if len(d) < 2000 else d.hex()[:200] + "..."})
                continue
            diff = match(m["ok"], r["ok"])
            if diff:
                bad.append({"layout": ln, "kind": kind, "len": len(d), "diff": diff, "data": d.hex() if len(d) < 2000 else "..."})
            elif sample is None and kind == "well-formed" and ln == "recordPreamble":
                sample = {"layout": ln, "data": d.hex(), "parsed": r["ok"]}
        else:
            dist["err"][r["err"]] = dist["err"].get(r["err"], 0) + 1
            if m.get("err") != r["err"]:
                bad.append({"layout": ln, "kind": kind, "len": len(d), "real": r, "model": str(m)[:200], "data": d.hex() if len(d) < 2000 else "..."})
    return {"name": "construct-layouts", "cases": len(cases), "distinct": len(distinct), "disagreements": bad, "distribution": dist,
            "sample": sample or {"layout": cases[0][0], "len": len(cases[0][2])}}


if __name__ == "__main__":
    import json
    import sys
    r = check(int(sys.argv[1]) if len(sys.argv) > 1 else 0, sys.argv[2] if len(sys.argv) > 2 else "quick")
    print(r["cases"], r["distinct"], json.dumps(r["distribution"]["err"]), "ok", r["distribution"]["ok"])
    print("disagreements", len(r["disagreements"]))
    seen = set()
    for b in r["disagreements"]:
        k = (b["layout"], b.get("diff", "")[:60], str(b.get("real"))[:60], str(b.get("model"))[:40])
        if k in seen:
            continue
        seen.add(k)
        b = dict(b)
        b["data"] = b["data"][:80]
        print(json.dumps(b, default=str)[:500])
        if len(seen) > 12:
            break

"""End-to-end oracle for the pixel properties (C01, C02, C06, C11, C12-shape clause).

Products are synthesised from the frozen spec, opened with the real `open_alos2`, and compared with
the in-memory twin built from the very bit patterns that were written.  Search engine for failing
inputs; never a substitute for a theorem.
"""
import itertools
import random

import numpy as np

import common
import products


def _open(path, **opts):
    import ceos_alos2

    o = {"use_cache": False}
    o.update(opts)
    return ceos_alos2.open_alos2(path, backend_options=o)


def geometries(rng, tier):
    geos = [(1, 1), (1, 5), (5, 1), (2, 3), (4, 4), (7, 3)]
    if tier != "quick":
        geos += [(rng.randint(1, 40), rng.randint(1, 9)) for _ in range(12)] + [(64, 2), (33, 1)]
    return geos


def rpcs_for(n):
    return sorted({1, 2, 3, max(1, n - 1), n, n + 1, 1024, 10**9})


def check_c01(seed, tier):
    """values and shape of fully loaded images, all geometries x levels x rpc x filesystems"""
    rng = random.Random(seed)
    viol, evals, distinct = [], 0, set()
    samples = []
    fss = ["local", "memory", "tracemem", "file"]
    for (n, m) in geometries(rng, tier):
        for level in ("1.1", "1.5"):
            cfg = {"seed": rng.randrange(10**9), "level": level, "images": [("HH", None)], "n_lines": n, "n_pixels": m}
            prod = products.build(cfg)
            im = prod.images[0]
            want = products.twin(im)
            rl = rpcs_for(n)
            if tier == "quick":
                rl = rng.sample(rl, 3)
            for k, rpc in enumerate(rl):
                fsk = fss[(k + n + m) % len(fss)]
                path, clean = products.place(prod, fsk)
                try:
                    t = _open(path, records_per_chunk=rpc)
                    da = t["imagery/HH/data"]
                    got = da.values
                    ok = da.shape == (n, m) and products.same_bits(got, want)
                    err = None
                except Exception as e:  # noqa: BLE001
                    ok, err = False, f"{type(e).__name__}: {e}"
                finally:
                    clean()
                evals += 1
                distinct.add((n, m, level, rpc, fsk))
                case = {"cfg": cfg, "rpc": rpc, "fs": fsk}
                if not ok:
                    viol.append({"case": case, "what": "loaded image differs from the samples written" if err is None else err})
                elif len(samples) < 2:
                    samples.append({**case, "shape": [n, m], "first_sample_bits": hex(int(products.bits(got).ravel()[0]))})
    return {"name": "oracle:C01 pixel fidelity", "evaluations": evals, "distinct": len(distinct), "violations": viol, "samples": samples}


def index_space(n, m, rng, tier):
    """(label, indexer dict for isel) over rows/columns"""
    def axis_keys(size):
        keys = list(range(-size, size))
        for a, b, c in itertools.product([None, 0, 1, -1, size, -size, size - 1], [None, 0, 1, -1, size, -size - 1], [None, 1, 2, -1, -2, size + 1]):
            keys.append(slice(a, b, c))
        # integer arrays (outer) incl. unsorted, repeated, negative; boolean masks
        for L in range(1, min(3, size) + 1):
            for tup in itertools.product(range(-size, size), repeat=L):
                if rng.random() < (0.15 if tier == "quick" else 0.6):
                    keys.append(np.array(tup, dtype=int))
        for _ in range(3):
            keys.append(np.array([rng.random() < 0.5 for _ in range(size)], dtype=bool))
        return keys
    rows, cols = axis_keys(n), axis_keys(m)
    out = []
    for r in rows:
        out.append({"rows": r})
    for c in cols:
        out.append({"columns": c})
    for _ in range(len(rows) if tier == "quick" else 4 * len(rows)):
        out.append({"rows": rng.choice(rows), "columns": rng.choice(cols)})
    return out


def _describe(ix):
    return {k: (repr(v) if not isinstance(v, np.ndarray) else v.tolist()) for k, v in ix.items()}


def check_c02(seed, tier):
    import xarray as xr

    rng = random.Random(seed)
    viol, evals, distinct, samples = [], 0, set(), []
    known = []
    geos = [(3, 2), (4, 3), (5, 4)] if tier == "quick" else [(1, 1), (2, 2), (3, 2), (4, 3), (5, 4), (9, 5), (17, 3)]
    for (n, m) in geos:
        for level in ("1.1", "1.5"):
            cfg = {"seed": rng.randrange(10**9), "level": level, "images": [("HV", None)], "n_lines": n, "n_pixels": m}
            prod = products.build(cfg)
            im = prod.images[0]
            path, clean = products.place(prod, "memory")
            try:
                for rpc in ([1, 2, n + 1] if tier == "quick" else list(range(1, n + 3))):
                    t = _open(path, records_per_chunk=rpc)
                    da = t["imagery/HV/data"]
                    tw = xr.DataArray(products.twin(im), dims=da.dims, coords={k: v.values for k, v in da.coords.items() if v.dims and set(v.dims) <= set(da.dims) and len(v.dims) == 1 and False})
                    # coordinates: the twin carries the same (loaded) coordinates as the lazily opened array
                    tw = tw.assign_coords({k: (v.dims, v.values, v.attrs) for k, v in da.coords.items()})
                    space = index_space(n, m, rng, tier)
                    if tier == "quick":
                        space = rng.sample(space, min(len(space), 120))
                    for ix in space:
                        evals += 1
                        distinct.add((n, m, level, rpc, str(_describe(ix))))
                        want_err = got_err = None
                        try:
                            want = tw.isel(**ix)
                        except Exception as e:  # noqa: BLE001
                            want_err = type(e).__name__
                        try:
                            got = da.isel(**ix)
                            gv = got.values
                        except Exception as e:  # noqa: BLE001
                            got_err = type(e).__name__ + ": " + str(e)[:100]
                            fkey = common.failure_site(e)
                        case = {"cfg": cfg, "rpc": rpc, "isel": _describe(ix)}
                        if want_err is not None:
                            if got_err is None:
                                viol.append({"case": case, "what": f"twin raises {want_err}, lazy array returns"})
                            continue
                        if got_err is not None:
                            viol.append({"case": case, "what": f"lazy selection raises {got_err}", "key": fkey})
                            continue
                        ok = (got.dims == want.dims and got.shape == want.shape and products.same_bits(gv, want.values)
                              and list(got.coords) == list(want.coords)
                              and all(np.array_equal(got.coords[c].values, want.coords[c].values) for c in want.coords))
                        if not ok:
                            viol.append({"case": case, "what": f"shape/dims/values differ: got {got.dims}{got.shape} want {want.dims}{want.shape}"})
                        elif len(samples) < 3 and rng.random() < 0.01:
                            samples.append({**case, "shape": list(got.shape)})
                    # [...] and vectorised indexing
                    for _ in range(10 if tier == "quick" else 60):
                        evals += 1
                        L = rng.randint(1, 4)
                        r = xr.DataArray([rng.randrange(-n, n) for _ in range(L)], dims="z")
                        c = xr.DataArray([rng.randrange(-m, m) for _ in range(L)], dims="z")
                        try:
                            got = da.isel(rows=r, columns=c)
                            want = tw.isel(rows=r, columns=c)
                            ok = got.dims == want.dims and products.same_bits(got.values, want.values)
                        except Exception as e:  # noqa: BLE001
                            ok = False
                        distinct.add((n, m, level, rpc, "vec", tuple(r.values), tuple(c.values)))
                        if not ok:
                            viol.append({"case": {"cfg": cfg, "rpc": rpc, "vectorized": [r.values.tolist(), c.values.tolist()]}, "what": "vectorised selection differs"})
            finally:
                clean()
    if not samples:
        samples.append({"note": "see rule", "geos": geos})
    return {"name": "oracle:C02 indexing equivalence", "evaluations": evals, "distinct": len(distinct), "violations": viol, "samples": samples}


if __name__ == "__main__":
    import json
    import sys
    for fn in (check_c01, check_c02):
        r = fn(int(sys.argv[1]) if len(sys.argv) > 1 else 0, "quick")
        print(r["name"], r["evaluations"], r["distinct"], len(r["violations"]))
        seen = set()
        for v in r["violations"]:
            if v["what"] in seen:
                continue
            seen.add(v["what"])
            print(json.dumps(v, default=str)[:400])

"""End-to-end oracle for the pixel properties (C01, C02, C06, C11, C12-shape clause).

Products are synthesised from the frozen spec, opened with the real `open_alos2`, and compared with
the in-memory twin built from the very bit patterns that were written.  Search engine for failing
inputs; never a substitute for a theorem.
"""
import itertools
import random

import numpy as np

import common
import products


def _open(path, **opts):
    import ceos_alos2

    o = {"use_cache": False}
    o.update(opts)
    return ceos_alos2.open_alos2(path, backend_options=o)


def geometries(rng, tier):
    geos = [(1, 1), (1, 5), (5, 1), (2, 3), (4, 4), (7, 3)]
    if tier != "quick":
        geos += [(rng.randint(1, 40), rng.randint(1, 9)) for _ in range(12)] + [(64, 2), (33, 1)]
    return geos


def rpcs_for(n):
    return sorted({1, 2, 3, max(1, n - 1), n, n + 1, 1024, 10**9})


def check_c01(seed, tier):
    """values and shape of fully loaded images, all geometries x levels x rpc x filesystems"""
    rng = random.Random(seed)
    viol, evals, distinct = [], 0, set()
    samples = []
    fss = ["local", "memory", "tracemem", "file"]
    for (n, m) in geometries(rng, tier):
        for level in ("1.1", "1.5"):
            cfg = {"seed": rng.randrange(10**9), "level": level, "images": [("HH", None)], "n_lines": n, "n_pixels": m}
            prod = products.build(cfg)
            im = prod.images[0]
            want = products.twin(im)
            rl = rpcs_for(n)
            if tier == "quick":
                rl = rng.sample(rl, 3)
            for k, rpc in enumerate(rl):
                fsk = fss[(k + n + m) % len(fss)]
                path, clean = products.place(prod, fsk)
                try:
                    t = _open(path, records_per_chunk=rpc)
                    da = t["imagery/HH/data"]
                    got = da.values
                    ok = da.shape == (n, m) and products.same_bits(got, want)
                    err = None
                    # the same opened image read again after partial reads: earlier loads must leave no trace
                    for sel in ({"rows": slice(1, None)}, {"rows": slice(0, max(1, n // 2)), "columns": slice(0, 1)}, {"rows": n - 1}):
                        part = da.isel(**sel).values
                        if not products.same_bits(part, want[sel["rows"]] if "columns" not in sel else want[sel["rows"], sel["columns"]]):
                            ok, err = False, f"partial load {sel} differs from the samples written"
                    again = t["imagery/HH/data"].values
                    if ok and not products.same_bits(again, want):
                        ok, err = False, "a full load issued after partial loads of the same opened image differs from the samples written"
                except Exception as e:  # noqa: BLE001
                    ok, err = False, f"{type(e).__name__}: {e}"
                finally:
                    clean()
                evals += 1
                distinct.add((n, m, level, rpc, fsk))
                case = {"cfg": cfg, "rpc": rpc, "fs": fsk}
                if not ok:
                    viol.append({"case": case, "what": "loaded image differs from the samples written" if err is None else err})
                elif len(samples) < 2:
                    samples.append({**case, "shape": [n, m], "first_sample_bits": hex(int(products.bits(got).ravel()[0]))})
    # "for any image size": an image file LARGER THAN 4 GiB (a full level-1.1 scene), served by a virtual filesystem whose
    # content is a function of the byte position — lines below, across and beyond the 2**32 byte mark hold their own samples
    v, e, d = huge_image_lines(rng, tier)
    viol += v
    evals += e
    distinct |= d
    return {"name": "oracle:C01 pixel fidelity", "evaluations": evals, "distinct": len(distinct), "violations": viol, "samples": samples}


class _VirtualFile:
    """read-only file object over computed content (byte p = f(p)); seek/read only"""

    def __init__(self, size, salt):
        self.size, self.salt, self.pos, self.closed = size, salt, 0, False

    def __enter__(self):
        return self

    def __exit__(self, *a):
        self.closed = True

    def close(self):
        self.closed = True

    def seek(self, pos, whence=0):
        self.pos = pos if whence == 0 else (self.pos + pos if whence == 1 else self.size + pos)
        return self.pos

    def tell(self):
        return self.pos

    def read(self, n=-1):
        stop = self.size if n is None or n < 0 else min(self.size, self.pos + n)
        out = virtual_bytes(self.salt, self.pos, max(self.pos, stop))
        self.pos = max(self.pos, stop)
        return out


def virtual_bytes(salt, start, stop):
    p = np.arange(start, stop, dtype=np.uint64)
    return (((p * np.uint64(2654435761) + np.uint64(salt)) >> np.uint64(11)) & np.uint64(0xFF)).astype(np.uint8).tobytes()


class _VirtualFS:
    """the two things `Array` needs from a filesystem"""

    def __init__(self, size, salt):
        self.size, self.salt, self.path = size, salt, "/virtual"

    def open(self, url, mode="rb", **kw):
        return _VirtualFile(self.size, self.salt)


def huge_image_lines(rng, tier):
    from ceos_alos2.array import Array
    viol, evals, distinct = [], 0, set()
    for _ in range(2 if tier == "quick" else 8):
        tc = rng.choice(["IU2", "C*8"])
        bpp, P = (2, 192) if tc == "IU2" else (8, 544)
        m = rng.randint(40000, 90000) if tc == "IU2" else rng.randint(12000, 24000)
        L = P + m * bpp
        n = (2**32 + rng.randint(2**27, 2**29)) // L
        size = 720 + n * L
        salt = rng.randrange(2**31)
        rpc = rng.choice([1, 2, 3, 7])       # (a request is rpc lines long: keep the computed content per request small)
        ranges = [(720 + i * L + P, 720 + (i + 1) * L) for i in range(n)]
        arr = Array(fs=_VirtualFS(size, salt), url="IMG-virtual", byte_ranges=ranges, shape=(n, m),
                    dtype="uint16" if tc == "IU2" else "complex64", type_code=tc, records_per_chunk=rpc)
        mark = (2**32 - 720) // L          # the line that straddles byte 2**32
        probes = [0, 1, mark - 1, mark, mark + 1, mark + rpc, n - 2, n - 1, rng.randrange(n), rng.randrange(mark, n)]
        for i in sorted(set(j for j in probes if 0 <= j < n)):
            evals += 1
            distinct.add(("huge", tc, L, n, rpc, i))
            case = {"type_code": tc, "record_length": L, "lines": n, "file_bytes": size, "rpc": rpc, "line": i,
                    "content": f"byte p = ((p * 2654435761 + {salt}) >> 11) & 0xFF"}
            try:
                got = np.asarray(arr[(slice(i, i + 2), slice(None))])
                want_raw = [virtual_bytes(salt, *ranges[j]) for j in range(i, min(i + 2, n))]
                if tc == "IU2":
                    want = np.stack([np.frombuffer(r, dtype=">u2") for r in want_raw])
                else:
                    want = np.stack([np.frombuffer(r, dtype=">u4").astype("<u4").view("<f4").view("complex64") if False else
                                     np.frombuffer(r, dtype=">f4").astype("<f4").view("complex64") for r in want_raw])
                ok = got.shape == want.shape and (np.array_equal(got.astype(">u2").view("u1"), want.astype(">u2").view("u1")) if tc == "IU2"
                                                  else np.array_equal(np.ascontiguousarray(got).view("<u4"), np.ascontiguousarray(want).view("<u4")))
                if not ok:
                    viol.append({"case": case, "what": f"lines {i}..{i + 1} of a {size}-byte image ({'beyond' if ranges[i][0] >= 2**32 else 'below'} byte 2**32): shape {got.shape} vs {want.shape}, or samples differ from the file content"})
            except Exception as ex:  # noqa: BLE001
                viol.append({"case": case, "what": f"loading lines {i}..{i + 1} of a {size}-byte image raised {type(ex).__name__}: {ex}"[:250],
                             "key": common.failure_site(ex)})
    return viol, evals, distinct


def index_space(n, m, rng, tier):
    """(label, indexer dict for isel) over rows/columns"""
    def axis_keys(size):
        keys = list(range(-size, size))
        for a, b, c in itertools.product([None, 0, 1, -1, size, -size, size - 1], [None, 0, 1, -1, size, -size - 1], [None, 1, 2, -1, -2, size + 1]):
            keys.append(slice(a, b, c))
        # integer arrays (outer) incl. unsorted, repeated, negative; boolean masks
        for L in range(1, min(3, size) + 1):
            for tup in itertools.product(range(-size, size), repeat=L):
                if rng.random() < (0.15 if tier == "quick" else 0.6):
                    keys.append(np.array(tup, dtype=int))
        for _ in range(3):
            keys.append(np.array([rng.random() < 0.5 for _ in range(size)], dtype=bool))
        return keys
    rows, cols = axis_keys(n), axis_keys(m)
    out = []
    for r in rows:
        out.append({"rows": r})
    for c in cols:
        out.append({"columns": c})
    for _ in range(len(rows) if tier == "quick" else 4 * len(rows)):
        out.append({"rows": rng.choice(rows), "columns": rng.choice(cols)})
    return out


def _describe(ix):
    return {k: (repr(v) if not isinstance(v, np.ndarray) else v.tolist()) for k, v in ix.items()}


def check_c02(seed, tier):
    import xarray as xr

    rng = random.Random(seed)
    viol, evals, distinct, samples = [], 0, set(), []
    known = []
    geos = [(3, 2), (4, 3), (5, 4)] if tier == "quick" else [(1, 1), (2, 2), (3, 2), (4, 3), (5, 4), (9, 5), (17, 3)]
    for (n, m) in geos:
        for level in ("1.1", "1.5"):
            cfg = {"seed": rng.randrange(10**9), "level": level, "images": [("HV", None)], "n_lines": n, "n_pixels": m}
            prod = products.build(cfg)
            im = prod.images[0]
            path, clean = products.place(prod, "memory")
            try:
                for rpc in ([1, 2, n + 1] if tier == "quick" else list(range(1, n + 3))):
                    t = _open(path, records_per_chunk=rpc)
                    da = t["imagery/HV/data"]
                    tw = xr.DataArray(products.twin(im), dims=da.dims, coords={k: v.values for k, v in da.coords.items() if v.dims and set(v.dims) <= set(da.dims) and len(v.dims) == 1 and False})
                    # coordinates: the twin carries the same (loaded) coordinates as the lazily opened array
                    tw = tw.assign_coords({k: (v.dims, v.values, v.attrs) for k, v in da.coords.items()})
                    space = index_space(n, m, rng, tier)
                    if tier == "quick":
                        space = rng.sample(space, min(len(space), 120))
                    elif n > 5:
                        # exhaustive on the small images, sampled on the larger ones (keeps the thorough tier within minutes)
                        space = rng.sample(space, min(len(space), 1500))
                    for ix in space:
                        evals += 1
                        distinct.add((n, m, level, rpc, str(_describe(ix))))
                        want_err = got_err = None
                        try:
                            want = tw.isel(**ix)
                        except Exception as e:  # noqa: BLE001
                            want_err = type(e).__name__
                        try:
                            got = da.isel(**ix)
                            gv = got.values
                        except Exception as e:  # noqa: BLE001
                            got_err = type(e).__name__ + ": " + str(e)[:100]
                            fkey = common.failure_site(e)
                        case = {"cfg": cfg, "rpc": rpc, "isel": _describe(ix)}
                        if want_err is not None:
                            if got_err is None:
                                viol.append({"case": case, "what": f"twin raises {want_err}, lazy array returns"})
                            continue
                        if got_err is not None:
                            viol.append({"case": case, "what": f"lazy selection raises {got_err}", "key": fkey})
                            continue
                        ok = (got.dims == want.dims and got.shape == want.shape and products.same_bits(gv, want.values)
                              and list(got.coords) == list(want.coords)
                              and all(np.array_equal(got.coords[c].values, want.coords[c].values) for c in want.coords))
                        if not ok:
                            viol.append({"case": case, "what": f"shape/dims/values differ: got {got.dims}{got.shape} want {want.dims}{want.shape}"})
                        elif len(samples) < 3 and rng.random() < 0.01:
                            samples.append({**case, "shape": list(got.shape)})
                    # [...] and vectorised indexing
                    for _ in range(10 if tier == "quick" else 60):
                        evals += 1
                        L = rng.randint(1, 4)
                        r = xr.DataArray([rng.randrange(-n, n) for _ in range(L)], dims="z")
                        c = xr.DataArray([rng.randrange(-m, m) for _ in range(L)], dims="z")
                        try:
                            got = da.isel(rows=r, columns=c)
                            want = tw.isel(rows=r, columns=c)
                            ok = got.dims == want.dims and products.same_bits(got.values, want.values)
                        except Exception as e:  # noqa: BLE001
                            ok = False
                        distinct.add((n, m, level, rpc, "vec", tuple(r.values), tuple(c.values)))
                        if not ok:
                            viol.append({"case": {"cfg": cfg, "rpc": rpc, "vectorized": [r.values.tolist(), c.values.tolist()]}, "what": "vectorised selection differs"})
            finally:
                clean()
    # longer index arrays on a taller image: sorted subsets, repeats, NEARLY regular progressions (regular ends, irregular
    # interior), permutations, masks — several selected lines fall into one chunk
    for level in ("1.5", "1.1"):
        n, m = (12, 3) if tier == "quick" else (23, 4)
        cfg = {"seed": rng.randrange(10**9), "level": level, "images": [("HV", None)], "n_lines": n, "n_pixels": m}
        prod = products.build(cfg)
        path, clean = products.place(prod, "memory")
        try:
            full = products.twin(prod.images[0])
            for rpc in ([5, 1024] if tier == "quick" else [1, 2, 5, 7, n, 1024]):
                da = _open(path, records_per_chunk=rpc)["imagery/HV/data"]
                # slices with larger strides, crossing several chunks with every phase of start against the chunk grid
                for step in (3, 4, 5, 7, -3, -4, -5, -7):
                    for start in (None, 0, 1, 2, n - 1, n - 2):
                        for stop in (None, n - 1, 1):
                            key = slice(start, stop, step)
                            if step < 0 and len(range(*key.indices(n))) == 0:
                                continue   # empty negative-step selections fail inside xarray (recorded known finding)
                            evals += 1
                            distinct.add((n, m, level, rpc, "rows", "strided", start, stop, step))
                            case = {"cfg": cfg, "rpc": rpc, "isel": {"rows": repr(key)}, "kind": "strided-slice"}
                            try:
                                gv = da.isel(rows=key).values
                            except Exception as e:  # noqa: BLE001
                                viol.append({"case": case, "what": f"lazy selection raises {type(e).__name__}: {str(e)[:100]}", "key": common.failure_site(e)})
                                continue
                            want = full[key]
                            if gv.shape != want.shape or not products.same_bits(gv, want):
                                viol.append({"case": case, "what": f"rows[{key.start}:{key.stop}:{key.step}]: shape {gv.shape} vs {want.shape} or values differ from NumPy indexing of the loaded image"})
                for _ in range(60 if tier == "quick" else 400):
                    size, axis = (n, "rows") if rng.random() < 0.8 else (m, "columns")
                    L = rng.randint(4, 8)
                    kind = rng.choice(["subset", "repeats", "nearly-regular", "permutation", "mask", "negative"])
                    if kind == "subset":
                        key = sorted(rng.sample(range(size), min(L, size)))
                    elif kind == "repeats":
                        key = sorted(rng.choice(range(size)) for _ in range(L))
                    elif kind == "nearly-regular":
                        step = rng.randint(1, max(1, (size - 1) // 3))
                        cnt = min(L, (size - 1) // step + 1)
                        start = rng.randint(0, size - 1 - step * (cnt - 1))
                        key = [start + step * i for i in range(cnt)]
                        for i in range(2, cnt - 1):
                            key[i] = rng.randint(key[i - 1], key[-1])
                        key[2:cnt - 1] = sorted(key[2:cnt - 1])
                    elif kind == "permutation":
                        key = rng.sample(range(size), min(L, size))
                    elif kind == "negative":
                        key = [rng.randrange(-size, size) for _ in range(L)]
                    else:
                        key = [rng.random() < 0.5 for _ in range(size)]
                    arr = np.array(key, dtype=bool if kind == "mask" else int)
                    evals += 1
                    distinct.add((n, m, level, rpc, axis, tuple(key)))
                    case = {"cfg": cfg, "rpc": rpc, "isel": {axis: list(key)}, "kind": kind}
                    try:
                        gv = da.isel(**{axis: arr}).values
                    except Exception as e:  # noqa: BLE001
                        viol.append({"case": case, "what": f"lazy selection raises {type(e).__name__}: {str(e)[:100]}", "key": common.failure_site(e)})
                        continue
                    want = full[arr] if axis == "rows" else full[:, arr]
                    if gv.shape != want.shape or not products.same_bits(gv, want):
                        viol.append({"case": case, "what": f"index array {list(key)} on {axis}: values differ from NumPy indexing of the loaded image"})
        finally:
            clean()
    if not samples:
        samples.append({"note": "see rule", "geos": geos})
    return {"name": "oracle:C02 indexing equivalence", "evaluations": evals, "distinct": len(distinct), "violations": viol, "samples": samples}


if __name__ == "__main__":
    import json
    import sys
    for fn in (check_c01, check_c02):
        r = fn(int(sys.argv[1]) if len(sys.argv) > 1 else 0, "quick")
        print(r["name"], r["evaluations"], r["distinct"], len(r["violations"]))
        seen = set()
        for v in r["violations"]:
            if v["what"] in seen:
                continue
            seen.add(v["what"])
            print(json.dumps(v, default=str)[:400])


# ---------------------------------------------------------------------------------------------
def check_c06(seed, tier):
    """pairwise identical trees for different records_per_chunk, except preferred_chunksizes = min(rpc, n)"""
    import treecmp

    rng = random.Random(seed + 6)
    viol, evals, distinct, samples = [], 0, set(), []
    geos = [(5, 3), (6, 2), (1, 4)] if tier == "quick" else [(1, 1), (1, 4), (5, 3), (6, 2), (12, 3), (31, 2)]
    for (n, m) in geos:
        for level in ("1.1", "1.5"):
            cfg = {"seed": rng.randrange(10**9), "level": level, "images": [("HH", None), ("HV", None)], "n_lines": n, "n_pixels": m}
            prod = products.build(cfg)
            where = "local" if (level == "1.5") == (n % 2 == 1) else "memory"   # both placements for both levels in every run
            path, clean = products.place(prod, where)
            try:
                rl = sorted({1, 2, 3, max(1, n - 1), n, n + 1, 2 * n, 1024, 10**9})
                if tier == "quick":
                    rl = rng.sample(rl, 4)
                fps = {}
                for rpc in rl:
                    t = _open(path, records_per_chunk=rpc)
                    fps[rpc] = treecmp.fingerprint_tree(t, skip_encoding_keys=("preferred_chunksizes",))
                    for g in ("HH", "HV"):
                        evals += 1
                        enc = t[f"imagery/{g}/data"].encoding.get("preferred_chunksizes")
                        want = {"rows": min(rpc, n), "columns": m}
                        distinct.add((n, m, level, rpc, g))
                        if enc != want:
                            viol.append({"case": {"cfg": cfg, "rpc": rpc, "group": g}, "what": f"preferred_chunksizes {enc} != {want}"})
                base = rl[0]
                for rpc in rl[1:]:
                    evals += 1
                    distinct.add((n, m, level, base, rpc))
                    d = treecmp.diff(fps[base], fps[rpc])
                    if d:
                        viol.append({"case": {"cfg": cfg, "rpc_pair": [base, rpc]}, "what": "trees differ: " + d})
                    elif len(samples) < 2:
                        samples.append({"cfg": cfg, "rpc_pair": [base, rpc], "nodes": len(fps[base])})
                # the same through an index cache: written once (with one chunk size), read with every other one — what is
                # read (every pixel, every coordinate, every attribute) may not depend on either
                import oracle_cache
                oracle_cache.wipe_user_cache()
                try:
                    w = rng.choice(rl)
                    # (local products: on other filesystems the stored root loses its protocol — known finding of C07)
                    if where == "local":
                        _open(path, use_cache=True, create_cache=True, records_per_chunk=w)
                    for rpc in (rl if where == "local" else []):
                        evals += 1
                        distinct.add((n, m, level, "cached", w, rpc))
                        t = _open(path, use_cache=True, records_per_chunk=rpc)
                        d = treecmp.diff(fps[base], treecmp.fingerprint_tree(t, skip_encoding_keys=("preferred_chunksizes",)))
                        if d:
                            viol.append({"case": {"cfg": cfg, "cache_written_with": w, "read_with": rpc},
                                         "what": "tree read through the index cache differs from the uncached one: " + d})
                    # the VALUE of the chunk size matters, not the Python type that carries it: where the reader accepts a NumPy
                    # integer at all (it rejects some — not judged here), the tree and the advertised chunking are those of the
                    # plain int
                    for rpc in rl:
                        for np_rpc in (np.int64(rpc), np.int32(min(rpc, 2**31 - 1))):
                            for cached in ((True, False) if where == "local" else (False,)):
                                evals += 1
                                distinct.add((n, m, level, "numpy-rpc", type(np_rpc).__name__, int(np_rpc), cached))
                                try:
                                    t = _open(path, use_cache=cached, records_per_chunk=np_rpc)
                                except Exception:  # noqa: BLE001
                                    continue
                                want_t = _open(path, use_cache=False, records_per_chunk=int(np_rpc))
                                d = treecmp.diff(treecmp.fingerprint_tree(want_t), treecmp.fingerprint_tree(t))
                                if d:
                                    viol.append({"case": {"cfg": cfg, "records_per_chunk": f"{type(np_rpc).__name__}({int(np_rpc)})", "use_cache": cached},
                                                 "what": "a NumPy-integer chunk size is accepted but not treated as that integer: " + d})
                finally:
                    oracle_cache.wipe_user_cache()
            except Exception as e:  # noqa: BLE001
                viol.append({"case": {"cfg": cfg}, "what": f"{type(e).__name__}: {e}"[:300], "key": common.failure_site(e)})
            finally:
                clean()
    # an image with more lines than the default chunk size (1024) — chunk sizes below, at and above the line count and above
    # 1024 must all read the same pixels (sampled lines incl. the chunk boundaries) and the same line metadata
    import time
    for level in (("1.5",) if tier == "quick" else ("1.1", "1.5")):
        n, m = rng.choice([1100, 1537]) if tier == "quick" else rng.choice([2049, 2500]), 1
        cfg = {"seed": rng.randrange(10**9), "level": level, "images": [("HH", None)], "n_lines": n, "n_pixels": m, "n_att": 1, "n_chan": 1, "mapproj": None}
        prod = products.build(cfg)
        im = prod.images[0]
        want = products.twin(im)
        path, clean = products.place(prod, "memory")
        try:
            probes = sorted({0, 1, 1023, 1024, 1025, n // 2, n - 2, n - 1} | ({2047, 2048} if n > 2048 else set()))
            ref_meta = None
            for rpc in ([1024, 1500, 2048] if tier == "quick" else [1, 1000, 1024, 1025, 1500, 2048, 4096, 10**6]):
                evals += 1
                distinct.add(("large", n, level, rpc))
                t = _open(path, records_per_chunk=rpc)
                da = t["imagery/HH/data"]
                got = da.isel(rows=probes).values
                if not products.same_bits(got, want[probes]):
                    bad = [p for p, a, b in zip(probes, got, want[probes]) if not products.same_bits(a, b)]
                    viol.append({"case": {"cfg": cfg, "rpc": rpc, "lines_probed": probes}, "what": f"lines {bad[:6]} of a {n}-line image do not hold the samples written (records_per_chunk={rpc})"})
                meta = t["imagery/HH"].rows.values.tolist()
                if ref_meta is None:
                    ref_meta = meta
                elif meta != ref_meta:
                    viol.append({"case": {"cfg": cfg, "rpc": rpc}, "what": "per-line coordinate 'rows' depends on records_per_chunk"})
        except Exception as e:  # noqa: BLE001
            viol.append({"case": {"cfg": cfg}, "what": f"{type(e).__name__}: {e}"[:300], "key": common.failure_site(e)})
        finally:
            clean()
    return {"name": "oracle:C06 records_per_chunk independence", "evaluations": evals, "distinct": len(distinct), "violations": viol, "samples": samples}


# ---------------------------------------------------------------------------------------------
def _img_events(events, name):
    return [e for e in events if e[1].endswith(name)]


def check_c11(seed, tier):
    """I/O trace on an instrumented filesystem: open pass and data loads"""
    import math

    rng = random.Random(seed + 11)
    TFS = common.register_trace_protocol()
    viol, evals, distinct, samples = [], 0, set(), []
    geos = [(5, 3), (7, 2)] if tier == "quick" else [(1, 3), (5, 3), (7, 2), (12, 4), (30, 2)]
    for (n, m) in geos:
        for level in ("1.1", "1.5"):
            cfg = {"seed": rng.randrange(10**9), "level": level, "images": [("HH", None), ("VV", None)], "n_lines": n, "n_pixels": m}
            prod = products.build(cfg)
            im = prod.images[0]
            L, P = im.record_len, im.prefix_len
            path, clean = products.place(prod, "tracemem")
            try:
                for rpc in ([1, 2, n, n + 3] if tier == "quick" else sorted({1, 2, 3, n - 1 or 1, n, n + 1, 1024})):
                    del TFS.events[:]
                    t = _open(path, records_per_chunk=rpc)
                    ev = _img_events(TFS.events, im.name)
                    reads = [e for e in ev if e[0] == "read"]
                    evals += 1
                    distinct.add((n, m, level, rpc, "open"))
                    want_sizes = [720] + [min(rpc, n - i * rpc) * L for i in range(math.ceil(n / rpc))]
                    pos = 0
                    ok = len(reads) == len(want_sizes)
                    for r, w in zip(reads, want_sizes):
                        ok = ok and r[2] == pos and r[3] == w
                        pos += w
                    if not ok:
                        viol.append({"case": {"cfg": cfg, "rpc": rpc}, "what": f"open pass reads {[(r[2], r[3]) for r in reads]} != sequential {want_sizes}"})
                    # the same bounds hold for loads through COPIES of the tree (pickled, deep-copied): a copy reads like the original
                    import copy as _copy
                    import pickle as _pickle
                    das = {"original": t["imagery/HH/data"]}
                    for how, mk in (("pickled tree", lambda: _pickle.loads(_pickle.dumps(t))["imagery/HH/data"]),
                                    ("deep-copied tree", lambda: _copy.deepcopy(t)["imagery/HH/data"]),
                                    ("tree.copy(deep=True)", lambda: t.copy(deep=True)["imagery/HH/data"]),
                                    ("pickled data array", lambda: _pickle.loads(_pickle.dumps(t["imagery/HH/data"])))):
                        try:
                            das[how] = mk()
                        except Exception as e:  # noqa: BLE001
                            viol.append({"case": {"cfg": cfg, "rpc": rpc, "copy": how}, "what": f"copying the opened tree failed: {type(e).__name__}: {e}"[:200]})
                    space = index_space(n, m, rng, "quick")
                    space = [ix for ix in space if not any(isinstance(v, np.ndarray) and v.size == 0 for v in ix.values())]
                    for k_ix, ix in enumerate(rng.sample(space, min(len(space), 40 if tier == "quick" else 200))):
                        how = list(das)[k_ix % len(das)]
                        da = das[how]
                        del TFS.events[:]
                        try:
                            sel = da.isel(**ix)
                            sel.values
                        except Exception:  # noqa: BLE001
                            continue
                        evals += 1
                        distinct.add((n, m, level, rpc, str(_describe(ix))))
                        others = [e for e in TFS.events if not e[1].endswith(im.name)]
                        ev = _img_events(TFS.events, im.name)
                        rd = [e for e in ev if e[0] == "read"]
                        # selected line span
                        rows = np.arange(n)[ix["rows"]] if "rows" in ix else np.arange(n)
                        rows = np.atleast_1d(rows)
                        case = {"cfg": cfg, "rpc": rpc, "isel": _describe(ix), "loaded_through": how}
                        if others:
                            viol.append({"case": case, "what": f"other files touched while loading pixels: {others[:3]}"})
                        if rows.size == 0:
                            if rd:
                                viol.append({"case": case, "what": f"reads for an empty selection: {rd[:3]}"})
                            continue
                        rchunk = min(rpc, n)
                        lo_g, hi_g = int(rows.min()) // rchunk, int(rows.max()) // rchunk
                        seen = set()
                        for e in rd:
                            off, size = e[2], e[3]
                            g = (off - 720) // (rchunk * L)
                            g_lo = 720 + g * rchunk * L
                            g_hi = 720 + min((g + 1) * rchunk, n) * L
                            bad = None
                            if g in seen:
                                bad = f"second read for group {g}"
                            elif not (lo_g <= g <= hi_g):
                                bad = f"read for group {g} outside the selected span of groups [{lo_g}, {hi_g}]"
                            elif not (g_lo <= off and off + size <= g_hi and off + size <= len(im.data)):
                                bad = f"read [{off}, {off + size}) not confined to group {g} = [{g_lo}, {g_hi})"
                            seen.add(g)
                            if bad:
                                viol.append({"case": case, "what": bad})
                                break
                        if len(samples) < 2:
                            samples.append({**case, "reads": [(e[2], e[3]) for e in rd]})
            except Exception as e:  # noqa: BLE001
                viol.append({"case": {"cfg": cfg}, "what": f"{type(e).__name__}: {e}"[:300], "key": common.failure_site(e)})
            finally:
                clean()
    return {"name": "oracle:C11 bounded grouped reads", "evaluations": evals, "distinct": len(distinct), "violations": viol, "samples": samples}


# ---------------------------------------------------------------------------------------------
def check_successive(seed, tier):
    """Several products handled by ONE process — the state a long-running session reaches:
    (a) a product replaced in place by another one with the same file names and geometry, then opened afresh;
    (b) two products with the same file names under different roots, opened and loaded alternately.
    Every fresh open must return the samples of the file that is there NOW (C01), and loading pixels of a product may
    only touch that product's image file (C11)."""
    rng = random.Random(seed + 101)
    TFS = common.register_trace_protocol()
    viol, evals, distinct, samples = [], 0, set(), []
    trials = 3 if tier == "quick" else 24
    for trial in range(trials):
        level = rng.choice(["1.1", "1.5"])
        n, m = rng.choice([(3, 2), (5, 3), (7, 2), (4, 4)])
        pols = rng.choice([[("HH", None)], [("HH", None), ("HV", None)]])
        rpc = rng.choice([1, 2, 3, n, 1024])
        fsk = ["tracemem", "local", "memory"][trial % 3]
        cfgs = [{"seed": rng.randrange(10**9), "level": level, "images": pols, "n_lines": n, "n_pixels": m} for _ in range(3)]
        prods = [products.build(c) for c in cfgs]
        case0 = {"cfgs": cfgs, "rpc": rpc, "fs": fsk}

        def load_all(path, prod, what, case):
            nonlocal evals
            evals += 1
            try:
                t = _open(path, records_per_chunk=rpc)
                for im in prod.images:
                    del TFS.events[:]
                    got = t[f"imagery/{im.pol}/data"].values
                    if not products.same_bits(got, products.twin(im)):
                        viol.append({"case": case, "what": f"{what}: /imagery/{im.pol}/data does not hold the samples stored in the file now at {path}"})
                    if fsk == "tracemem":
                        root = path[len("tracemem://"):]
                        foreign = [e for e in TFS.events if not e[1].startswith(root + "/") or not e[1].endswith(im.name)]
                        if foreign:
                            viol.append({"case": case, "what": f"{what}: loading pixels touched other files: {foreign[:3]}"})
                        if not any(e[0] == "read" and e[1].startswith(root + "/") for e in TFS.events):
                            viol.append({"case": case, "what": f"{what}: no read of {root}/{im.name} although its pixels were loaded"})
            except Exception as e:  # noqa: BLE001
                viol.append({"case": case, "what": f"{what}: {type(e).__name__}: {e}"[:300], "key": common.failure_site(e)})

        # (a) replaced in place
        path, clean = products.place(prods[0], fsk)
        try:
            load_all(path, prods[0], "first product", {**case0, "scenario": "replace-in-place", "step": 0})
            for step, pr in enumerate(prods[1:], 1):
                if fsk == "local":
                    import synth
                    synth.write_product(pr, path)
                else:
                    import fsspec
                    import synth
                    synth.write_product(pr, path.split("://", 1)[1], fs=fsspec.filesystem(fsk))
                load_all(path, pr, f"after replacing the files in place ({step})", {**case0, "scenario": "replace-in-place", "step": step})
        finally:
            clean()
        distinct.add(("replace", level, n, m, rpc, fsk, len(pols)))
        # (b) same names, different roots, alternating
        placed = [products.place(pr, fsk) for pr in prods[:2]]
        try:
            for step in range(4):
                k = step % 2
                load_all(placed[k][0], prods[k], f"product {k} of two with equal file names (step {step})", {**case0, "scenario": "same-names-two-roots", "step": step})
        finally:
            for _, c in placed:
                c()
        distinct.add(("two-roots", level, n, m, rpc, fsk, len(pols)))
        if len(samples) < 1:
            samples.append(case0)
    return {"name": "oracle:successive products in one process", "evaluations": evals, "distinct": len(distinct), "violations": viol, "samples": samples}


# ---------------------------------------------------------------------------------------------
def check_c18(seed, tier):
    """truncated / missing component files: open_alos2 raises (OSError family for missing files); it never returns a
    tree whose image has fewer readable lines than its declared shape; it terminates promptly"""
    import time

    rng = random.Random(seed + 18)
    viol, evals, distinct, samples = [], 0, set(), []
    outcomes = {}

    def attempt(files, rpc, case, expect_raise=True, missing=None):
        nonlocal evals
        import synth
        prod_like = type("P", (), {"files": files})()
        path, clean = products.place(prod_like, "local" if rng.random() < 0.5 else "memory")
        t0 = time.time()
        try:
            try:
                t = _open(path, records_per_chunk=rpc)
                exc = None
            except Exception as e:  # noqa: BLE001
                res, exc = "raised", e
            if exc is None:
                # the open returned: every declared line must be loadable
                ok_tree = True
                try:
                    for node in t["imagery"].children.values():
                        da = node["data"]
                        v = da.values
                        if v.shape != da.shape or any(node[c].shape[0] != da.shape[0] for c in node.coords if node[c].dims == ("rows",)):
                            ok_tree = False
                except Exception:  # noqa: BLE001
                    ok_tree = False
                res = "returned-consistent" if ok_tree else "returned-inconsistent"
        finally:
            clean()
        dt = time.time() - t0
        evals += 1
        outcomes[res if exc is None else type(exc).__name__] = outcomes.get(res if exc is None else type(exc).__name__, 0) + 1
        if dt > 20:
            viol.append({"case": case, "what": f"took {dt:.1f}s"})
        if res == "returned-inconsistent":
            viol.append({"case": case, "what": "open_alos2 returned a tree whose image has fewer readable lines than declared"})
        elif expect_raise and res != "raised":
            viol.append({"case": case, "what": "damaged product opened without an exception"})
        elif missing and exc is not None and not isinstance(exc, OSError):
            viol.append({"case": case, "what": f"missing {missing} reported as {type(exc).__name__}, not an OSError"})
        return res

    geos = [(5, 3)] if tier == "quick" else [(1, 2), (5, 3), (9, 2)]
    for (n, m) in geos:
        for level in ("1.1", "1.5"):
            cfg = {"seed": rng.randrange(10**9), "level": level, "images": [("HH", None), ("HV", None)], "n_lines": n, "n_pixels": m}
            prod = products.build(cfg)
            im = prod.images[1]
            L, P = im.record_len, im.prefix_len
            names = list(prod.files)
            vol = [k for k in names if k.startswith("VOL")][0]
            led = [k for k in names if k.startswith("LED")][0]
            # image truncations
            pts = set()
            for i in range(n + 1):
                for d in (-1, 0, 1):
                    pts.add(720 + i * L + d)
                pts.add(720 + i * L + P)
            pts |= {0, 1, 719, 720, 721} | {rng.randrange(len(im.data)) for _ in range(6)}
            pts = sorted(p for p in pts if 0 <= p < len(im.data))
            if tier == "quick":
                pts = rng.sample(pts, min(len(pts), 14))
            for cut in pts:
                rpc_all = sorted({1, 2, max(1, n - 1), n, n + 1, 1024})
                for rpc in (rpc_all if tier != "quick" else rng.sample(rpc_all, 2)):
                    files = dict(prod.files)
                    files[im.name] = im.data[:cut]
                    distinct.add((n, m, level, "img", cut, rpc))
                    attempt(files, rpc, {"cfg": cfg, "truncate": [im.name, cut], "rpc": rpc})
            # leader / volume truncations
            for name, data in ((led, prod.files[led]), (vol, prod.files[vol])):
                bounds = [0, 1, 12, 360, 719, 720, 721, 720 + 4096, len(data) - 5000, len(data) - 1, len(data) - 360] + [rng.randrange(len(data)) for _ in range(4)]
                for cut in sorted({b for b in bounds if 0 <= b < len(data)}):
                    files = dict(prod.files)
                    files[name] = data[:cut]
                    distinct.add((n, m, level, name[:3], cut))
                    attempt(files, 1024, {"cfg": cfg, "truncate": [name, cut]})
            # missing files
            for name in ["summary.txt", vol, led, prod.images[0].name, im.name]:
                files = {k: v for k, v in prod.files.items() if k != name}
                distinct.add((n, m, level, "missing", name[:3]))
                attempt(files, 1024, {"cfg": cfg, "missing": name}, missing=name)
            # trailer missing: never read -> must still open
            trl = [k for k in names if k.startswith("TRL")][0]
            files = {k: v for k, v in prod.files.items() if k != trl}
            r = attempt(files, 1024, {"cfg": cfg, "missing": trl}, expect_raise=False)
            # control: the undamaged product opens
            r = attempt(dict(prod.files), rng.choice([1, n, 1024]), {"cfg": cfg, "control": True}, expect_raise=False)
            if r != "returned-consistent":
                viol.append({"case": {"cfg": cfg, "control": True}, "what": "undamaged product does not open"})
    samples.append({"outcomes": outcomes})
    return {"name": "oracle:C18 fail-stop", "evaluations": evals, "distinct": len(distinct), "violations": viol, "samples": samples}

import corr_construct
import corr_transform
import oracle_tree

SPEC = {'statement': "header_attrs (present exactly when the header field is non-blank, with its value), line_metadata_11/15 (for ANY number n>=1 of line records every per-line variable has n entries in file order holding that line's field; per-file constants from line 0; nothing else), field_positions (golden offsets/widths/scale factors/units of descriptor and both line-record layouts), line times (C17 lemmas)", 'rule': 'correspondence: construct layouts and the real transform functions vs the Lean interpreter / pipelines on records from the independent encoder (extremes 0, 2^32-1, 2^64-1 us, every enum code, blank vs filled header fields); oracle: whole products, /imagery groups compared field by field with the values the product was synthesised from (frozen provenance spec); distinct = distinct product seed', 'partial': 'numpy dtype inference of the per-line lists and the datetime64 override are third-party; IEEE multiplication by 1e-6 / 1e-3 is checked exactly by the harness (value * factor), not proved', 'assumptions': []}


def corr_layouts(seed, tier):
    return corr_construct.check(seed, tier, only=["imageFileDescriptor", "signalDataRecord", "processedDataRecord", "recordPreamble"])


def corr_transformers(seed, tier):
    return corr_transform.check(seed, tier)


def oracle_c03(seed, tier):
    return oracle_tree.run(seed, tier, 12 if tier == "quick" else 150, "/imagery", ("images",), "oracle:C03 image metadata")


def corr_products(seed, tier):
    import corr_product
    return corr_product.check(seed, tier)


def checks(tier):
    return [corr_layouts, corr_transformers, corr_products, oracle_c03]


def replay(payload):
    import json
    print(json.dumps(payload.get('violation', payload), indent=1)[:3000])
    return 0

import corr_cache
import oracle_cache

SPEC = {'statement': 'prefix_not_json: no proper non-empty prefix of any dumped JSON container is balanced; open_after_crash: in every state whose index files are arbitrary prefixes of documents written for the image, every open returns the uncached group; repair: create_cache=True replaces a torn index by the complete document', 'rule': 'correspondence: json parser on torn texts, flow model incl. crash ops on real files; oracle: byte-length prefixes of the real index documents of a product at both locations (quick: boundaries, every kind of closing bracket, 40 random cuts per image; thorough: every prefix) opened with default options, repair sequence; thorough adds real SIGKILLs of a writer process and two concurrent writers; distinct = distinct (image, location, prefix length)', 'partial': 'that an interrupted write leaves a prefix is OS behaviour (sampled by the SIGKILL runs)', 'assumptions': ['EnvOK incl. contract J2: json.loads rejects unbalanced or empty text']}


def corr_codec(seed, tier):
    return corr_cache.check_codec(seed, tier)


def corr_json(seed, tier):
    return corr_cache.check_json(seed, tier)


def corr_flow(seed, tier):
    return corr_cache.check_flow(seed, tier)


def oracle_c09(seed, tier):
    return oracle_cache.check_c09(seed, tier)


def corr_product_cache_first(seed, tier):
    import corr_product_cached
    return corr_product_cached.check(seed, tier)


def checks(tier):
    return [corr_json,corr_flow, oracle_c09, corr_product_cache_first]


def replay(payload):
    import json
    print(json.dumps(payload.get("violation", payload), indent=1)[:3000])
    return 0

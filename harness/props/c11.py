import corr_array
import oracle_image

SPEC = {
    "statement": "one_read_per_touched_chunk, read_confined, regular_read_bounds, open_reads: the I/O trace of any selection is open, one seek+read per touched "
                 "group of records_per_chunk lines (none for untouched groups), close; each read spans bytes of its own group inside the file; opening issues a prefix of "
                 "the ceil(n/rpc) sequential requests after the 720-byte descriptor",
    "rule": "correspondence compares the *event sequence* (open/seek/read/close with offsets and sizes) recorded by a tracing file object under the real "
            "Array.__getitem__ / read_metadata with the model's trace; oracle: instrumented fsspec filesystem under open_alos2 and DataArray.values; "
            "distinct = distinct (geometry, level, rpc, selection)",
    "partial": "xarray may widen a selection to its covering slice before the backend sees it (outer/vectorised indexers): the bound is checked against the line span "
               "of the selection, as the property states",
    "assumptions": [],
}


def corr_getitem(seed, tier):
    return corr_array.check_getitem(seed, tier)


def corr_readmeta(seed, tier):
    from translate import consts
    return corr_array.check_readmeta(seed, tier, [list(x) for x in consts()["recordTypes"]])


def oracle_c11(seed, tier):
    return oracle_image.check_c11(seed, tier)


def oracle_successive(seed, tier):
    return oracle_image.check_successive(seed, tier)


def checks(tier):
    return [corr_getitem, corr_readmeta, oracle_c11, oracle_successive]


def replay(payload):
    import json
    print(json.dumps(payload.get("violation", payload), indent=1)[:3000])
    return 0

import oracle_storage
import corr_text
import oracle_misc

SPEC = {'statement': 'roles_by_number (file roles follow the numbered keys, not line order), imagery_order / group names from (polarisation, scan) injective, metadata_children (for every leader file that parses /metadata has exactly the record groups present in the leader; map_projection iff a map-projection record is present), root attrs (C16)', 'rule': 'oracle: products with 1-8 images over polarisation x scan, with/without map projection, summary lines as-is / fully shuffled / reversed, opened uncached and through a freshly created cache: node paths and order, per-group pixel identity with the right file, root and image attributes; distinct = distinct (image set, order, projection)', 'partial': "DataTree.from_dict / Dataset.set_coords are xarray's", 'assumptions': []}


def corr_decoders(seed, tier):
    return corr_text.check_decoders(seed, tier)


def corr_summary(seed, tier):
    return corr_text.check_summary(seed, tier)


def oracle_c13(seed, tier):
    return oracle_misc.check_c13(seed, tier)


def corr_products(seed, tier):
    import corr_product
    return corr_product.check(seed, tier)


def corr_to_dataset(seed, tier):
    import corr_toxarray
    return corr_toxarray.check(seed, tier)


def oracle_storage_kinds(seed, tier):
    return oracle_storage.check(seed, tier)


def checks(tier):
    return [corr_decoders, corr_products, corr_summary, corr_to_dataset, oracle_c13, oracle_storage_kinds]


def replay(payload):
    import json
    print(json.dumps(payload.get('violation', payload), indent=1)[:3000])
    return 0

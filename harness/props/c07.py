import corr_bridge
import corr_cache
import oracle_cache

SPEC = {'statement': 'read_valid / cache_is_used / no_cache_consulted: with a complete document for ANY write-time rpc at the consulted location, open(use_cache=True, r) returns the uncached group of the CURRENT rpc and comes from the cache (local first, then adjacent); with use_cache=False no file content can influence the result', 'rule': 'correspondence: codec (real encode/decode vs model on generated hierarchies and reader groups), json.dumps/loads vs dump/parser, and the cache-first open on real files vs the flow model over random op sequences (returned group, whether line records were re-read, cache file texts after every step); oracle: products x producer (option / CLI) x location (user dir / adjacent / both) x filesystem x rpc at write x rpc at read, bit-exact tree fingerprints; distinct = distinct combination', 'partial': 'E.U abstracts the filesystem: caches for products on non-local filesystems are a known finding (stored root drops the protocol); json.loads/dumps inverse and bracket contracts are assumed (tested on every document and prefix)', 'assumptions': ['EnvOK: uncached groups are rpc-stable and in the codec domain; json contracts J1, J2']}


def corr_codec(seed, tier):
    return corr_cache.check_codec(seed, tier)


def corr_json(seed, tier):
    return corr_cache.check_json(seed, tier)


def corr_flow(seed, tier):
    return corr_cache.check_flow(seed, tier)


def oracle_c07(seed, tier):
    return oracle_cache.check_c07(seed, tier)


def corr_reader_groups(seed, tier):
    return corr_bridge.check(seed, tier)


def corr_product_cache_first(seed, tier):
    import corr_product_cached
    return corr_product_cached.check(seed, tier)


def checks(tier):
    return [corr_reader_groups, corr_codec,corr_flow,corr_json, oracle_c07, corr_product_cache_first]


def replay(payload):
    import json
    print(json.dumps(payload.get("violation", payload), indent=1)[:3000])
    return 0

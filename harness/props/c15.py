import corr_text
import oracle_misc

SPEC = {'statement': "product_id_total (all 3600 ids of the documented tables decode to the tables' meanings) / product_id_sound (nothing else is accepted), scene_id_total / scene_id_sound (any mission/orbit/frame digits, any valid date; no trailing garbage), scan_info_exact, group_name_injective, documented_tables (regex classes and tables, separately maintained in the source, agree)", 'rule': 'correspondence: decode_* / filename_to_groupname vs the model on the full product-id cross product (thorough; quick samples 400) and generated near misses; oracle: products named with ids from the frozen documented tables, near-miss strings must raise ValueError, group names unique per (polarisation, scan); distinct = distinct string', 'partial': "strptime('%y%m%d') century pivot (69) is a contract", 'assumptions': []}


def corr_decoders(seed, tier):
    return corr_text.check_decoders(seed, tier)


def oracle_c15(seed, tier):
    return oracle_misc.check_c15(seed, tier)


def checks(tier):
    return [corr_decoders, oracle_c15]


def replay(payload):
    import json
    print(json.dumps(payload.get('violation', payload), indent=1)[:3000])
    return 0

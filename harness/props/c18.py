import corr_array
import corr_construct
import oracle_image

SPEC = {
    "statement": "truncated_image: whatever the bytes, an image file shorter than 720 + n*L makes the metadata pass raise or return fewer than n records "
                 "(the latter is rejected by xarray's dimension check); complete_image: a complete well-formed file yields n records",
    "rule": "correspondence: read_metadata and the construct layouts vs the models on truncations at every record/field boundary +-1; oracle: open_alos2 on products with "
            "each component file truncated (record boundaries +-1, sampled elsewhere) or missing, crossed with rpc below/at/above the line count; distinct = distinct damage",
    "partial": "'terminates promptly': the model is total, wall time is measured not proved; xarray.Dataset's dimension check is a third-party contract; "
               "leader/volume truncation is covered by the layout correspondence and parse_static_truncated for the static records",
    "assumptions": [],
}


def corr_readmeta(seed, tier):
    from translate import consts
    return corr_array.check_readmeta(seed, tier, [list(x) for x in consts()["recordTypes"]])


def corr_layouts(seed, tier):
    return corr_construct.check(seed, "quick")


def oracle_c18(seed, tier):
    return oracle_image.check_c18(seed, tier)


def corr_products(seed, tier):
    import corr_product
    return corr_product.check(seed, tier)


def checks(tier):
    return [corr_readmeta, corr_products, corr_layouts, oracle_c18]


def replay(payload):
    import json
    print(json.dumps(payload.get("violation", payload), indent=1)[:3000])
    return 0

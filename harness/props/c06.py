import corr_array
import oracle_image

SPEC = {
    "statement": "metadata_rpc_independent, data_rpc_independent, preferred_chunksize: byte ranges and selected data are the same for any two positive "
                 "records_per_chunk; the advertised chunk size is min(rpc, n)",
    "rule": "correspondence of read_metadata/getitem with the models over rpc in {1..n+2, 1024, 1e9}; oracle: pairwise comparison of complete bit-exact tree "
            "fingerprints (values of every variable, attrs, encoding) for different rpc on synthesised products; distinct = distinct (geometry, level, rpc pair)",
    "partial": "math.ceil(n / rpc) uses float division (exact below 2**53); rpc >= 2**1024 raises OverflowError - outside the modelled domain",
    "assumptions": [],
}


def corr_readmeta(seed, tier):
    from translate import consts
    return corr_array.check_readmeta(seed, tier, [list(x) for x in consts()["recordTypes"]])


def corr_getitem(seed, tier):
    return corr_array.check_getitem(seed, "quick")


def oracle_c06(seed, tier):
    return oracle_image.check_c06(seed, tier)


def checks(tier):
    return [corr_readmeta, corr_getitem, oracle_c06]


def replay(payload):
    import json
    print(json.dumps(payload.get("violation", payload), indent=1)[:3000])
    return 0

import corr_construct
import corr_transform
import oracle_tree

SPEC = {'statement': 'root_attrs: for EVERY volume directory that parses (any contents, any number of file-pointer records) the root attributes are the frozen documented list evaluated on the parsed record; field_positions; framing 360*(k+2); padded_text', 'rule': 'correspondence: volume directory parse + transform_record vs the models (random printable contents of every width, 0..9 file pointers, odd timestamps); oracle: open_alos2(...).attrs vs the synthesised values; distinct = distinct product seed', 'partial': "strptime's backtracking on non-canonical digit strings is not modelled (valid 16-digit timestamps only)", 'assumptions': []}


def corr_layouts(seed, tier):
    return corr_construct.check(seed, tier, only=["volumeDirectoryRecord"])


def corr_transformers(seed, tier):
    return corr_transform.check(seed, tier)


def oracle_c16(seed, tier):
    return oracle_tree.run(seed, tier, 14 if tier == "quick" else 200, "/", ("root",), "oracle:C16 root attributes", level="1.5", images=[("HH", None)], n_lines=1, n_pixels=1, n_att=1)


def checks(tier):
    return [corr_layouts, corr_transformers, oracle_c16]


def replay(payload):
    import json
    print(json.dumps(payload.get('violation', payload), indent=1)[:3000])
    return 0

import corr_construct
import corr_transform
import oracle_tree

SPEC = {'statement': 'metadata: for EVERY leader file that parses, transform_metadata (which records become groups and under which names, the seven record pipelines, the attitude time fix-up) yields the frozen documented /metadata tree evaluated on the parsed leader record - every leaf is the documented field (path), with the documented name, dims, unit attributes and group path, and there are no other leaves; per-record theorems dataset_summary / radiometric_data / transformations / platform_position / map_projection (per designator class) / attitude (every n >= 1) / data_quality_summary (1..16 channels); field_positions (golden offset/width/conversion of every live field of the fixed-size leader records); framing; numeric_text', 'rule': 'correspondence: leader layout parse, the per-record transform functions and transform_metadata on whole leader files vs the models; oracle: every field given random admissible values at once (E/F notation, padding, signs, extremes, leap-second stamps), 1..136 attitude points, 1..16 channels, map projection absent or each designator, compared with the frozen provenance spec over all ~900 fields; distinct = distinct product seed', 'partial': 'text->binary64 (float()), x*1e24, strptime / timedelta(seconds=float) of the first-point time and numpy timedelta arithmetic are CPython / IEEE / numpy contracts, evaluated exactly by the harness (the model keeps the operands)', 'assumptions': ['0 attitude points / 0 channels are inadmissible (the code raises); stated as hypotheses 0 < na, 0 < nc of `metadata`']}


def corr_layouts(seed, tier):
    return corr_construct.check(seed, tier, only=["sarLeaderRecord"])


def corr_transformers(seed, tier):
    return corr_transform.check(seed, tier)


def oracle_c04(seed, tier):
    return oracle_tree.run(seed, tier, 14 if tier == "quick" else 200, "/metadata", ("leader",), "oracle:C04 leader metadata")


def checks(tier):
    return [corr_layouts, corr_transformers, oracle_c04]


def replay(payload):
    import json
    print(json.dumps(payload.get('violation', payload), indent=1)[:3000])
    return 0

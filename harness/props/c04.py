import corr_construct
import corr_transform
import oracle_tree

SPEC = {'statement': 'field_positions (golden offset/width/conversion of every live field of the fixed-size leader records), dataset_summary / radiometric_data / transformations (for EVERY file content the group is the frozen documented tree evaluated on the parsed record), framing, numeric_text', 'rule': 'correspondence: leader layout parse and the per-record transform functions vs the models; oracle: every field given random admissible values at once (E/F notation, padding, signs, extremes), 1..136 attitude points, 1..16 channels, map projection absent or each designator, compared with the frozen provenance spec over all ~900 fields; distinct = distinct product seed', 'partial': 'attitude, data-quality (dynamic counts), platform-position and map-projection pipelines: layout theorems + correspondence + oracle only; text->binary64 (float()) and x*1e24 are CPython/IEEE contracts checked exactly by the harness', 'assumptions': []}


def corr_layouts(seed, tier):
    return corr_construct.check(seed, tier, only=["sarLeaderRecord"])


def corr_transformers(seed, tier):
    return corr_transform.check(seed, tier)


def oracle_c04(seed, tier):
    return oracle_tree.run(seed, tier, 14 if tier == "quick" else 200, "/metadata", ("leader",), "oracle:C04 leader metadata")


def checks(tier):
    return [corr_layouts, corr_transformers, oracle_c04]


def replay(payload):
    import json
    print(json.dumps(payload.get('violation', payload), indent=1)[:3000])
    return 0

import oracle_storage
import corr_cache
import oracle_cache

SPEC = {'statement': 'history_independent: for every operation sequence over {open x use_cache x create_cache x rpc, CLI create, delete local, delete adjacent, interrupted writes}, every open returns the uncached group of its own rpc (induction over the history, no length bound); inv_step; writes', 'rule': 'correspondence: random op sequences executed on real files vs the flow model (group, source, file texts after each step); oracle: histories on whole two-image products with tree fingerprint vs fresh uncached open at every step, content hashes of the product directory and the user cache dir before/after each step, deep-copy comparison of the option dict; distinct = distinct history', 'partial': "'never mutates the caller's option dictionaries' is aliasing: observed by the harness only", 'assumptions': ['EnvOK']}


def corr_codec(seed, tier):
    return corr_cache.check_codec(seed, tier)


def corr_json(seed, tier):
    return corr_cache.check_json(seed, tier)


def corr_flow(seed, tier):
    return corr_cache.check_flow(seed, tier)


def oracle_c10(seed, tier):
    return oracle_cache.check_c10(seed, tier)


def oracle_storage_kinds(seed, tier):
    return oracle_storage.check(seed, tier)


def corr_product_cache_first(seed, tier):
    import corr_product_cached
    return corr_product_cached.check(seed, tier)


def checks(tier):
    return [corr_flow,corr_codec, oracle_c10, oracle_storage_kinds, corr_product_cache_first]


def replay(payload):
    import json
    print(json.dumps(payload.get("violation", payload), indent=1)[:3000])
    return 0

import corr_array
import corr_transform
import oracle_consumer
import oracle_misc

SPEC = {'statement': 'well_typed_trees: every variable of the documented trees holds leaves or (nested) lists of leaves - never a dict or a (value, attrs) pair - and every attribute is a scalar/str/list/tuple of those, for any number of lines; declared_shape: the loaded full image has exactly the declared n rows of m samples; real numpy dtypes re-read from the source tables', 'rule': 'oracle: dtype (isinstance np.dtype), shape, nbytes, repr() of every node/variable, python types of every attribute, declared vs loaded dtype/shape of random selections of the image (byte-order insensitive); distinct = distinct product seed', 'partial': "numpy's dtype inference for lists of python scalars is third-party (observed)", 'assumptions': []}


def corr_getitem(seed, tier):
    return corr_array.check_getitem(seed, "quick")


def corr_transformers(seed, tier):
    return corr_transform.check(seed, tier)


def oracle_c12(seed, tier):
    return oracle_misc.check_c12(seed, tier)


def oracle_consumer_ops(seed, tier):
    return oracle_consumer.check(seed, tier)


def checks(tier):
    return [corr_getitem, corr_transformers, oracle_c12, oracle_consumer_ops]


def replay(payload):
    import json
    print(json.dumps(payload.get('violation', payload), indent=1)[:3000])
    return 0

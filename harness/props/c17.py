import corr_time
import oracle_misc

SPEC = {'statement': "one_calendar_partial: line time, us line time, first orbit point, scene-centre and creation texts all denote instant(year, day-of-year with 1 = 1 January, time of day) for all years 2014-2049 incl. 29 February / day 366; attitude_one_day_late: the attitude time is that instant PLUS ONE DAY for every input (the property's attitude clause is false: known finding)", 'rule': 'correspondence: the five decoders vs Model/Time on boundary days x boundary times x years; oracle: products with the same instant written into every time-bearing field; distinct = distinct instant', 'partial': 'timedelta(seconds=float) rounding and strptime are CPython contracts (boundary-tested)', 'assumptions': []}


def corr_time_decoders(seed, tier):
    return corr_time.check(seed, tier)


def oracle_c17(seed, tier):
    return oracle_misc.check_c17(seed, tier)


def corr_transformers(seed, tier):
    # every pipeline that builds or carries a time value (line records, dataset summary, platform position, attitude, the
    # attitude fix-up in whole leaders, volume directory) against its model
    import corr_transform
    return corr_transform.check(seed, tier)


def oracle_line_times(seed, tier):
    # every line of images whose line times are independent (not ascending), field by field
    import oracle_tree
    return oracle_tree.run(seed + 170, tier, 6 if tier == "quick" else 60, "/imagery", ("images",), "oracle:C17 per-line times of whole images")


def checks(tier):
    return [corr_time_decoders, corr_transformers, oracle_c17, oracle_line_times]


def replay(payload):
    import json
    print(json.dumps(payload.get('violation', payload), indent=1)[:3000])
    return 0

import corr_text
import oracle_misc

SPEC = {'statement': "parseLine_sound / parseLine_complete (line grammar incl. '=' and quotes in values), errors_exact (fails iff some line is malformed and reports exactly those line numbers), crlf, perm_invariant", 'rule': 'correspondence: parse_summary + transform_summary vs the model on generated summaries (random key order, interleaved sections, CR/LF/CRLF, quoted values, 3-10 product files, several shape indices, all corruption kinds, semantic errors); oracle: whole products with permuted / CRLF summaries and corrupted line subsets; distinct = distinct text', 'partial': "none beyond the regex engine contract (the matcher model is tied to CPython's re by correspondence)", 'assumptions': []}


def corr_summary(seed, tier):
    return corr_text.check_summary(seed, tier)


def corr_decoders(seed, tier):
    return corr_text.check_decoders(seed, 'quick')


def oracle_c14(seed, tier):
    return oracle_misc.check_c14(seed, tier)


def checks(tier):
    return [corr_summary, corr_decoders, oracle_c14]


def replay(payload):
    import json
    print(json.dumps(payload.get('violation', payload), indent=1)[:3000])
    return 0

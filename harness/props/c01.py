import oracle_storage
import oracle_consumer
import corr_array
import corr_construct
import oracle_image

SPEC = {
    "statement": "wf_ranges + pixel_fidelity: on every well-formed image file the metadata pass finds the byte ranges "
                 "[720+i*L+P, 720+(i+1)*L) for every positive records_per_chunk, and loading the whole image returns at (i, j) "
                 "exactly the bpp bytes stored at 720+i*L+P+j*bpp; prefix lengths 544/192 and sample sizes 8/2 recomputed from the regenerated layouts",
    "rule": "correspondence: read_metadata / Array.__getitem__ / construct parse of the image descriptor and both line-record layouts vs the Lean models "
            "(truncations at every record boundary +-1, corrupted preambles, random bytes); oracle: synthesised products of all geometries x levels x rpc x "
            "{local, file://, memory://, custom protocol}, special bit patterns in every position class; distinct = distinct generated case; every case compares a whole result",
    "partial": "numpy's reinterpretation of big-endian bytes as >u2 / two >f4 of a complex64 and fsspec's open/seek/read returning the requested bytes are contracts: tested end-to-end, not proved",
    "assumptions": ["math.ceil(n / rpc) is exact for n, rpc < 2**53 (float division)"],
}


def corr_readmeta(seed, tier):
    from translate import consts
    return corr_array.check_readmeta(seed, tier, [list(x) for x in consts()["recordTypes"]])


def corr_getitem(seed, tier):
    return corr_array.check_getitem(seed, "quick")


def corr_layouts(seed, tier):
    return corr_construct.check(seed, tier, only=["recordPreamble", "imageFileDescriptor", "signalDataRecord", "processedDataRecord"])


def oracle_c01(seed, tier):
    return oracle_image.check_c01(seed, tier)


def oracle_successive(seed, tier):
    return oracle_image.check_successive(seed, tier)


def oracle_consumer_ops(seed, tier):
    return oracle_consumer.check(seed, tier)


def oracle_storage_kinds(seed, tier):
    return oracle_storage.check(seed, tier)


def checks(tier):
    return [corr_readmeta, corr_getitem, corr_layouts, oracle_c01, oracle_successive, oracle_consumer_ops, oracle_storage_kinds]


def replay(payload):
    import json
    print(json.dumps(payload.get("violation", payload), indent=1)[:3000])
    return 0

import corr_bridge
import corr_cache
import oracle_cache

SPEC = {'statement': 'decode_encode: for every group in the decidable codec domain, decodeDoc r (encodeDoc g) = g with the image arrays at rpc r (structural induction, no size bound); tuple_tag; document_is_json', 'rule': 'correspondence: real caching.encode text == model text, real decode == model decode, json.loads == model parser, on generated hierarchies of every dtype kind b,i,u,f,U,M,m, rank 0-2, NaT/NaN/inf/extreme ints/non-ASCII units/nested tuples, and on real reader groups; oracle: decode(encode(g)) vs g object by object; distinct = distinct document text', 'partial': 'json round trip of floats/ints and ndarray.tolist / np.array(list, dtype) are third-party contracts (tested); zero-size arrays of rank >= 2 lose their shape (known finding)', 'assumptions': []}


def corr_codec(seed, tier):
    return corr_cache.check_codec(seed, tier)


def corr_json(seed, tier):
    return corr_cache.check_json(seed, tier)


def corr_flow(seed, tier):
    return corr_cache.check_flow(seed, tier)


def oracle_c08(seed, tier):
    return oracle_cache.check_c08(seed, tier)


def corr_reader_groups(seed, tier):
    return corr_bridge.check(seed, tier)


def checks(tier):
    return [corr_reader_groups, corr_codec,corr_json, oracle_c08]


def replay(payload):
    import json
    print(json.dumps(payload.get("violation", payload), indent=1)[:3000])
    return 0

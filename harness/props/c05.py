import corr_construct
import oracle_tree

SPEC = {
    "statement": "trailer_images / trailer_samples (read_sar_trailer decodes image i from the bytes between the running sums of the declared record lengths, any number of images, each sample at its row-major position); attitude / data_quality / facility_1_4 / volume_directory / trailer / leader: on the layouts regenerated from /repo, a successful parse of each "
                 "variable record consumes exactly the declared bytes for EVERY count and length (success forces 16+120n<=L, n<=16, 66<=L, k<=7); the leader ends at the sum of the declared lengths",
    "rule": "correspondence: construct parse vs the Lean layout interpreter on all seven record layouts (well-formed from the independent encoder with random counts/lengths, "
            "truncated, flipped, blanked); oracle: every attitude count 1..136 (thorough; quick samples incl. 1,135,136), every channel count 1..16 x map projection 0/1, facility lengths from 66, "
            "file-pointer counts 0..11, trailer images 0..7, each compared field by field after the variable record; distinct = distinct count/length combination",
    "partial": "numpy frombuffer/reshape of the trailer images and the meaning of construct classes are contracts (tied by the trailer / layout correspondences)",
    "assumptions": [],
}


def corr_layouts(seed, tier):
    return corr_construct.check(seed, tier)


def corr_trailer(seed, tier):
    import corr_trailer as ct
    return ct.check(seed, tier)


def oracle_c05(seed, tier):
    return oracle_tree.check_c05(seed, tier)


def checks(tier):
    return [corr_layouts, corr_trailer, oracle_c05]


def replay(payload):
    import json
    print(json.dumps(payload.get("violation", payload), indent=1)[:3000])
    return 0

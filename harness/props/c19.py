import oracle_consumer
import corr_array
import oracle_threads

SPEC = {
    "statement": "noninterference: under EVERY interleaving of any number of loads each thread reads exactly what it would read alone (a finished load returns its solo result); no_deadlock / completes; handle_is_private, lock_per_variable: the source facts the model rests on (the only open is the `with self.fs.open` inside __getitem__, nothing is assigned to self there, the raw access is `with self.lock: return self.array[key]`, one fresh lock per variable), re-read from the AST on every run",
    "rule": "correspondence: the I/O program of a load = the event sequence of Array.__getitem__ (tracing file object) vs the model trace; oracle: a deterministic scheduler owning the filesystem's open/seek/read yield points enumerates interleavings (depth-first by replay) of 2-3 real threads - same variable, different variables, pickled copy - and compares every thread's values with its sequential load; distinct = distinct (scenario, schedule)",
    "partial": "real thread schedules, the GIL and the lock implementation are only enumerated at the filesystem yield points",
    "assumptions": [],
}


def corr_getitem(seed, tier):
    return corr_array.check_getitem(seed, "quick")


def oracle_c19(seed, tier):
    return oracle_threads.check_c19(seed, tier)


def oracle_consumer_ops(seed, tier):
    return oracle_consumer.check(seed, tier)


def checks(tier):
    return [corr_getitem, oracle_c19, oracle_consumer_ops]


def replay(payload):
    import json
    print(json.dumps(payload.get("violation", payload), indent=1)[:3000])
    return 0

import corr_construct
import corr_transform
import oracle_misc

SPEC = {'statement': "blank_int / blank_float / blank_text (a blank field - whitespace then NUL padding - reads -1 / nan / ''), no derived attribute (provenance trees apply the identity to every nullable field), padding_inert: two records that parse and agree on the bytes of the live fields give equal outputs (leaf_window + provenance)", 'rule': 'oracle: random subsets of nullable fields blanked (up to all), each nullable leader/volume/header field blanked individually (quick samples 40, thorough all), every spare/blank/reserved area overwritten with random content of its class and the bit-exact tree fingerprint compared; distinct = distinct blanked field / seed', 'partial': "line records (context-dependent microsecond stamp) and dynamic-count records: padding inertness by oracle only; bool(-1)=True for blank flag columns is exempt by the property's wording", 'assumptions': []}


def corr_layouts(seed, tier):
    return corr_construct.check(seed, tier)


def corr_transformers(seed, tier):
    return corr_transform.check(seed, tier)


def oracle_c20(seed, tier):
    return oracle_misc.check_c20(seed, tier)


def checks(tier):
    return [corr_layouts, corr_transformers, oracle_c20]


def replay(payload):
    import json
    print(json.dumps(payload.get('violation', payload), indent=1)[:3000])
    return 0

import corr_construct
import corr_transform
import oracle_influence
import oracle_misc

SPEC = {'statement': "blank_int / blank_float / blank_text (a blank field - whitespace then NUL padding - reads -1 / nan / ''), no derived attribute (provenance trees apply the identity to every nullable field), padding_inert: two records that parse and agree on the bytes of the live fields give equal outputs (leaf_window + provenance)", 'rule': 'oracle: random subsets of nullable fields blanked (up to all), each nullable leader/volume/header field blanked individually (quick samples 40, thorough all), every spare/blank/reserved area overwritten with random content of its class and the bit-exact tree fingerprint compared; byte influence map: for byte k of the volume directory, leader, image descriptor and line prefixes of a level-1.1 and a level-1.5 product (quick: 320 sampled positions; thorough: every position) the byte is changed within its character class, the product re-opened, and the set of changed output leaves compared with the one the layout + provenance spec predict (padding: nothing changes and the open succeeds; live field: only the leaves derived from it); distinct = distinct blanked field / seed / byte position', 'partial': "line records (context-dependent microsecond stamp) and dynamic-count records: padding inertness by oracle only; bool(-1)=True for blank flag columns is exempt by the property's wording", 'assumptions': []}


def corr_layouts(seed, tier):
    return corr_construct.check(seed, tier)


def corr_transformers(seed, tier):
    return corr_transform.check(seed, tier)


def oracle_c20(seed, tier):
    return oracle_misc.check_c20(seed, tier)


def oracle_influence_map(seed, tier):
    return oracle_influence.check(seed, tier)


def checks(tier):
    return [corr_layouts, corr_transformers, oracle_c20, oracle_influence_map]


def replay(payload):
    import json
    print(json.dumps(payload.get('violation', payload), indent=1)[:3000])
    return 0

import oracle_consumer
import corr_array
import oracle_image

SPEC = {
    "statement": "getitem_eq_np: for every image, positive records_per_chunk and basic key (int | slice on both axes), "
                 "the model of Array.__getitem__ equals NumPy basic indexing of the loaded image (shape, values, errors)",
    "rule": "correspondence: Array.__getitem__ vs Lean `getitem` on the exhaustive (start,stop,step) cube for small images plus random larger ones, "
            "distinct = distinct (n, ncols, rpc, key0, key1, type); oracle: DataArray.isel/vectorised selections on synthesised products vs an in-memory twin, "
            "distinct = distinct (geometry, level, rpc, indexer); non-trivial = every case (each compares a full result array or an exception class)",
    "partial": "xarray's decomposition of outer/vectorised/boolean indexers into a BASIC key plus NumPy post-indexing "
               "(explicit_indexing_adapter) and the dims/coords bookkeeping are third-party: exercised end-to-end, not proved",
    "assumptions": ["numpy basic indexing semantics as modelled by `selectAxis`/`indexColumns` (validated by the same correspondence run)"],
}


def corr_getitem(seed, tier):
    return corr_array.check_getitem(seed, tier)


def oracle_c02(seed, tier):
    return oracle_image.check_c02(seed, tier)


def oracle_consumer_ops(seed, tier):
    return oracle_consumer.check(seed, tier)


def checks(tier):
    return [corr_getitem, oracle_c02, oracle_consumer_ops]


def replay(payload):
    import json
    print(json.dumps(payload.get("violation", payload), indent=1)[:3000])
    return 0

"""End-to-end oracles for C12, C13, C14, C15, C17, C20 (whole products through the real `open_alos2`)."""
import itertools
import json
import os
import random

import numpy as np

import common
import expect
import oracle_tree
import products
import synth
import treecmp

PAD_PREFIXES = ("spare", "blanks", "blank", "reserved", "system_reserve", "local_use_segment")


def _open(path, **opts):
    import ceos_alos2
    o = {"use_cache": False}
    o.update(opts)
    return ceos_alos2.open_alos2(path, backend_options=o)


# ---------------------------------------------------------------------------------------------
# C20


def is_padding(path):
    return any(seg.split("[")[0].startswith(PAD_PREFIXES) for seg in path.split(":")[-1].split("."))


def rewrite_padding(rng, prod):
    """same product with every spare / blank / reserved area overwritten with random content of its character class"""
    files = {k: bytearray(v) for k, v in prod.files.items()}
    names = {"VOL": [k for k in files if k.startswith("VOL")][0], "LED": [k for k in files if k.startswith("LED")][0]}
    count = 0
    for key, leaf in expect.input_leaves(prod).items():
        if not isinstance(leaf, synth.Leaf) or not is_padding(key) or leaf.off < 0 or not leaf.raw:
            continue
        if key.startswith("VOL:"):
            target, base = files[names["VOL"]], 0
        elif key.startswith("LED:"):
            target, base = files[names["LED"]], 0
        else:
            k = int(key[3:key.index(":")])
            im = prod.images[k]
            target = files[im.name]
            if ":hdr:" in key:
                base = 0
            else:
                i = int(key.split("line[")[1].split("]")[0])
                base = 720 + i * im.record_len
        n = len(leaf.raw)
        kind = leaf.kind.split(":")[-1]
        if kind in ("pstr",):
            new = "".join(rng.choice(synth.PRINTABLE + " ") for _ in range(n)).encode()
        elif kind in ("aint",):
            new = synth.pad_text(synth.gen_int_text(n, rng)[0], n, rng)
        elif kind in ("afloat",):
            new = synth.pad_text(synth.gen_float_text(n, rng)[0], n, rng)
        elif kind in ("uint", "bytes", "flag"):
            new = rng.randbytes(n)
        else:
            continue
        target[base + leaf.off:base + leaf.off + n] = new
        count += 1
    return {k: bytes(v) for k, v in files.items()}, count


def check_c20(seed, tier):
    rng = random.Random(seed + 20)
    viol, evals, distinct, samples = [], 0, set(), []
    # (a) random subsets of nullable fields blanked: every value is nan / -1 / '' as the synthesiser recorded, no exception
    for _ in range(6 if tier == "quick" else 60):
        cfg = oracle_tree.random_cfg(rng, tier, blank_prob=rng.choice([0.3, 0.6, 0.95, 1.0]))
        diffs, key, prod = oracle_tree.check_product(cfg)
        evals += 1
        distinct.add(("blank-subset", cfg["seed"], cfg["blank_prob"]))
        if diffs:
            viol.append({"case": {"cfg": cfg}, "what": "; ".join(diffs[:3])[:500], "key": key or oracle_tree.classify(diffs[0])})
    # (b) each nullable field blanked individually (leader + volume + image header)
    base_cfg = {"seed": rng.randrange(10**9), "level": "1.5", "images": [("HH", None)], "n_lines": 2, "n_pixels": 1, "n_att": 2, "n_chan": 2,
                "mapproj": rng.choice(["UTM", "UPS", "LCC", "MER"])}
    prod = products.build(base_cfg)
    leaves = expect.input_leaves(prod)
    nullable = [k for k, lf in leaves.items() if isinstance(lf, synth.Leaf) and lf.nullable and lf.kind.split(":")[-1] in ("aint", "afloat", "pstr", "acomplex")
                and not is_padding(k) and ":line[" not in k]
    pick = nullable if tier != "quick" else rng.sample(nullable, 40)
    for key in pick:
        lf = leaves[key]
        blank = (b" " if rng.random() < 0.7 else b"\x00") * len(lf.raw)
        ov_key = key.split(":", 1)[1].replace("hdr:", "")
        cfg = dict(base_cfg)
        if key.startswith("LED:"):
            cfg["leader_overrides"] = {ov_key: blank}
        elif key.startswith("VOL:"):
            cfg["volume_overrides"] = {ov_key: blank}
        else:
            cfg["image_overrides"] = {0: {"header": {ov_key: blank}}}
        diffs, fkey, _ = oracle_tree.check_product(cfg)
        evals += 1
        distinct.add(("blank-one", key))
        if diffs:
            viol.append({"case": {"cfg": {k: (v if not isinstance(v, dict) else str(v)) for k, v in cfg.items()}, "blanked": key},
                         "what": "; ".join(diffs[:3])[:500], "key": fkey or oracle_tree.classify(diffs[0])})
    # (c) padding rewritten: the tree must not change in any way
    for _ in range(4 if tier == "quick" else 40):
        cfg = oracle_tree.random_cfg(rng, tier, blank_prob=0.0)
        prod = products.build(cfg)
        path, clean = products.place(prod, "memory")
        try:
            ref = treecmp.fingerprint_tree(_open(path))
        except Exception as e:  # noqa: BLE001
            evals += 1
            viol.append({"case": {"cfg": cfg, "padding": "as synthesised (random content of the declared class)"},
                         "what": f"open raised on a well-formed product: {type(e).__name__}: {e}"[:300], "key": common.failure_site(e)})
            continue
        finally:
            clean()
        files2, n = rewrite_padding(rng, prod)
        prod2 = type("P", (), {"files": files2})()
        path, clean = products.place(prod2, "memory")
        evals += 1
        distinct.add(("padding", cfg["seed"]))
        try:
            got = treecmp.fingerprint_tree(_open(path))
            d = treecmp.diff(ref, got)
            if d:
                viol.append({"case": {"cfg": cfg, "padding_areas_rewritten": n}, "what": "tree changed after rewriting padding: " + d})
            elif len(samples) < 1:
                samples.append({"cfg": cfg, "padding_areas_rewritten": n})
        except Exception as e:  # noqa: BLE001
            viol.append({"case": {"cfg": cfg, "padding_areas_rewritten": n}, "what": f"open raised after rewriting padding: {type(e).__name__}: {e}"[:300], "key": common.failure_site(e)})
        finally:
            clean()
    return {"name": "oracle:C20 blanks and padding", "evaluations": evals, "distinct": len(distinct), "violations": viol, "samples": samples}


# ---------------------------------------------------------------------------------------------
# C12

PLAIN = (bool, int, float, complex, str, np.bool_, np.integer, np.floating, np.complexfloating, np.str_)


def plain_attr(v):
    if isinstance(v, PLAIN):
        return True
    if isinstance(v, (list, tuple)):
        return all(plain_attr(x) for x in v)
    if isinstance(v, np.ndarray):
        return v.dtype.kind in "biufcUMm"
    return False


def check_c12(seed, tier):
    rng = random.Random(seed + 12)
    viol, evals, distinct, samples = [], 0, set(), []
    for _ in range(6 if tier == "quick" else 50):
        cfg = oracle_tree.random_cfg(rng, tier)
        prod = products.build(cfg)
        path, clean = products.place(prod, "memory")
        try:
            t = _open(path, records_per_chunk=rng.choice([1, 2, 1024]))
            evals += 1
            distinct.add(cfg["seed"])
            try:
                repr(t)
                for node in t.subtree:
                    node.to_dataset(inherit=False).nbytes
            except Exception as e:  # noqa: BLE001
                viol.append({"case": {"cfg": cfg}, "what": f"repr / nbytes failed: {type(e).__name__}: {e}"[:200]})
            for node in t.subtree:
                ds = node.to_dataset(inherit=False)
                for k, v in ds.attrs.items():
                    if not plain_attr(v):
                        viol.append({"case": {"cfg": cfg}, "what": f"{node.path}@{k}: attribute of type {type(v).__name__} is not a plain scalar / str / nested list"})
                for name, var in ds.variables.items():
                    evals += 1
                    if not isinstance(var.dtype, np.dtype):
                        viol.append({"case": {"cfg": cfg}, "what": f"{node.path}/{name}: advertised dtype {var.dtype!r} is not a numpy dtype"})
                        continue
                    declared = (var.dtype, var.shape)
                    vals = var.values
                    if vals.dtype.kind not in "biufcMmU":
                        viol.append({"case": {"cfg": cfg}, "what": f"{node.path}/{name}: loaded dtype {vals.dtype} (kind {vals.dtype.kind}) is not a plain numeric / time / string dtype"})
                    if vals.shape != declared[1] or vals.dtype.newbyteorder("=") != declared[0].newbyteorder("="):
                        viol.append({"case": {"cfg": cfg}, "what": f"{node.path}/{name}: declared {declared} but loaded {vals.dtype}{vals.shape}"})
                    for k, v in var.attrs.items():
                        if not plain_attr(v):
                            viol.append({"case": {"cfg": cfg}, "what": f"{node.path}/{name}@{k}: attribute of type {type(v).__name__}"})
                # selections of the image: declared shape/dtype of the lazy selection equal the loaded ones
                if "data" in ds.variables:
                    da = node["data"]
                    n, m = da.shape
                    for _ in range(6):
                        ix = {"rows": rng.choice([slice(None), slice(0, 0), slice(1, None), rng.randrange(n), slice(None, None, -1), slice(n, 0)]),
                              "columns": rng.choice([slice(None), slice(0, 0), rng.randrange(m), slice(1, 3), slice(None, None, 2)])}
                        sel = da.isel(**ix)
                        evals += 1
                        try:
                            v = sel.values
                            if v.shape != sel.shape or v.dtype.newbyteorder("=") != np.dtype(sel.dtype).newbyteorder("="):
                                viol.append({"case": {"cfg": cfg, "isel": {k: repr(x) for k, x in ix.items()}},
                                             "what": f"selection declares {sel.dtype}{sel.shape} but loads {v.dtype}{v.shape}"})
                        except Exception as e:  # noqa: BLE001
                            fk = common.failure_site(e)
                            if not fk.startswith("thirdparty:xarray"):
                                viol.append({"case": {"cfg": cfg, "isel": {k: repr(x) for k, x in ix.items()}}, "what": f"{type(e).__name__}: {e}"[:200], "key": fk})
            if len(samples) < 1:
                samples.append({"cfg": cfg, "nodes": len(list(t.subtree))})
        except Exception as e:  # noqa: BLE001
            viol.append({"case": {"cfg": cfg}, "what": f"{type(e).__name__}: {e}"[:300], "key": common.failure_site(e)})
        finally:
            clean()
    return {"name": "oracle:C12 well-typed tree", "evaluations": evals, "distinct": len(distinct), "violations": viol, "samples": samples}


# ---------------------------------------------------------------------------------------------
# C13

LEADER_GROUPS = ["dataset_summary", "platform_position", "attitude", "radiometric_data", "data_quality_summary", "transformations"]


def check_c13(seed, tier):
    rng = random.Random(seed + 13)
    viol, evals, distinct, samples = [], 0, set(), []
    pols = ["HH", "HV", "VH", "VV"]
    for trial in range(8 if tier == "quick" else 80):
        k = rng.randint(1, 8)
        scansar = rng.random() < 0.5
        if trial == 1:
            k, scansar = rng.randint(8, 12), True   # ten and more product files: two-digit file numbering in the summary
        combos = list(itertools.product(pols, [m + str(n) for m in "F" for n in range(1, 6)] if scansar else [None]))
        k = min(k, len(combos))
        images = rng.sample(combos, k)
        cfg = oracle_tree.random_cfg(rng, tier, images=images, n_lines=rng.randint(1, 3), n_pixels=rng.randint(1, 3), blank_prob=0.0)
        prod = products.build(cfg)
        # any order of sections / lines in the summary
        lines = prod.summary_text.split("\n")[:-1]
        mode = rng.choice(["as-is", "shuffle-all", "sections-reversed"])
        if mode == "shuffle-all":
            rng.shuffle(lines)
        elif mode == "sections-reversed":
            lines = lines[::-1]
        prod.files["summary.txt"] = ("\n".join(lines) + "\n").encode()
        fsk = rng.choice(["memory", "local", "local"])
        path, clean = products.place(prod, fsk)
        evals += 1
        distinct.add((tuple(images), mode, cfg["mapproj"]))
        want_names = [im.pol + (f"_scan{im.scan[1]}" if im.scan else "") for im in prod.images]

        def verify(t, case):
            top = list(t.children)
            if sorted(top) != ["imagery", "metadata", "summary"]:
                viol.append({"case": case, "what": f"root children {top}"})
            got_names = list(t["imagery"].children) if "imagery" in t.children else []
            if got_names != want_names:
                viol.append({"case": case, "what": f"/imagery children {got_names} != {want_names} (summary order)"})
            for im, name in zip(prod.images, want_names):
                if name in got_names:
                    if not products.same_bits(t[f"imagery/{name}/data"].values, products.twin(im)):
                        viol.append({"case": case, "what": f"/imagery/{name} does not hold the pixels of {im.name}"})
            want_meta = [g for g in LEADER_GROUPS] + (["map_projection"] if cfg["mapproj"] else [])
            if "metadata" in t.children and sorted(t["metadata"].children) != sorted(want_meta):
                viol.append({"case": case, "what": f"/metadata children {sorted(t['metadata'].children)} != {sorted(want_meta)}"})
            diffs = expect.compare_tree(t, expect.expected_nodes(prod, ("root", "images")))
            if diffs:
                viol.append({"case": case, "what": "; ".join(diffs[:3])[:400]})
            for node in t.subtree:
                if "coordinates" in node.attrs:
                    viol.append({"case": case, "what": f"{node.path}: bookkeeping attribute 'coordinates' left in the tree"})
            return got_names

        case = {"cfg": cfg, "summary_order": mode, "fs": fsk}
        try:
            got_names = verify(_open(path), {**case, "open": "uncached"})
            if len(samples) < 2:
                samples.append({"images": images, "summary_order": mode, "children": got_names})
            if fsk == "local":
                # the same product through the index cache: written by this open, used by the next ones
                import oracle_cache
                oracle_cache.wipe_user_cache()
                try:
                    evals += 2
                    verify(_open(path, use_cache=rng.random() < 0.5, create_cache=True), {**case, "open": "create_cache=True"})
                    verify(_open(path, use_cache=True), {**case, "open": "use_cache=True after create_cache=True"})
                    distinct.add((tuple(images), mode, "cached"))
                    # PARTIAL cache states: an index (written by the command line tool, next to the image) for SOME images only —
                    # the last one, a middle one, every second one: the tree is assembled as without any cache
                    names_ = [im.name for im in prod.images]
                    subsets = [names_[-1:], names_[len(names_) // 2:len(names_) // 2 + 1], names_[1::2]] if len(names_) > 1 else []
                    for sub in subsets:
                        oracle_cache.wipe_user_cache()
                        for nm in sub:
                            oracle_cache.run_cli(os.path.join(path, nm), rng.choice([1, 2, 1024]))
                        evals += 1
                        verify(_open(path, use_cache=True), {**case, "open": f"use_cache=True with index files for {len(sub)} of {len(names_)} images only", "cached_images": sub})
                        for nm in sub:
                            if os.path.exists(os.path.join(path, nm + ".index")):
                                os.remove(os.path.join(path, nm + ".index"))
                finally:
                    oracle_cache.wipe_user_cache()
        except Exception as e:  # noqa: BLE001
            viol.append({"case": case, "what": f"{type(e).__name__}: {e}"[:300], "key": common.failure_site(e)})
        finally:
            clean()
    return {"name": "oracle:C13 tree assembly", "evaluations": evals, "distinct": len(distinct), "violations": viol, "samples": samples}


# ---------------------------------------------------------------------------------------------
# C17


def check_c17(seed, tier):
    rng = random.Random(seed + 17)
    viol, evals, distinct, samples = [], 0, set(), []
    years = list(range(2014, 2050)) if tier != "quick" else sorted(set(rng.sample(range(2014, 2050), 5) + [2016, 2048]))
    for y in years:
        yl = synth.year_len(y)
        for doy in sorted({1, 59, 60, 365, yl} | ({rng.randint(1, yl)} if tier != "quick" else set())):
            for ms in (0, 86399999) if tier == "quick" else (0, 86399999, rng.randint(0, 86399999)):
                level = rng.choice(["1.1", "1.5"])
                cfg = {"seed": rng.randrange(10**9), "level": level, "images": [("HH", None)], "n_lines": 2, "n_pixels": 1, "n_att": 2, "n_chan": 1,
                       "same_instant": (y, doy, ms), "mapproj": None}
                extra_us = 0
                if rng.random() < 0.4:
                    # the scene-centre field is wide enough for microseconds ("ms, us, or decimal seconds"): 4..6 fraction digits
                    y_, m_, d_ = synth.civil_from_doy(y, doy)
                    hh, rem = divmod(ms, 3600000)
                    mi, rem = divmod(rem, 60000)
                    ss, msec = divmod(rem, 1000)
                    nd = rng.choice([1, 2, 3])
                    extra = rng.randrange(1, 10 ** nd)
                    extra_us = extra * 10 ** (3 - nd)
                    cfg["leader_overrides"] = {"dataset_summary.scene_center_time": f"{y_:04d}{m_:02d}{d_:02d}{hh:02d}{mi:02d}{ss:02d}{msec:03d}{extra:0{nd}d}"}
                extra_us_fp = 0
                if rng.random() < 0.5 and ms < 86399999:
                    # the first orbit point's time of day is a DECIMAL number of seconds: digits below the millisecond belong to it
                    extra_us_fp = rng.choice([1, 250, 456, 500, 999, rng.randint(1, 999)])
                    us_ = ms * 1000 + extra_us_fp
                    cfg.setdefault("leader_overrides", {})["platform_position.datetime_of_first_point.seconds_of_day"] = \
                        rng.choice([f"{us_ / 10**6:.6f}", f"{us_ / 10**6:.15E}"])
                prod = products.build(cfg)
                path, clean = products.place(prod, "memory")
                evals += 1
                distinct.add((y, doy, ms))
                want = np.datetime64(synth.instant_ns(y, doy, ms * 10**6), "ns")
                case = {"cfg": cfg}
                try:
                    t = _open(path)
                    got = {
                        "line": t["imagery/HH/sensor_acquisition_date"].values[0],
                        "first_point": np.datetime64(t["metadata/platform_position"].attrs["datetime_of_first_point"], "ns"),
                        "scene_center": np.datetime64(t["metadata/dataset_summary"].attrs["scene_center_time"], "ns"),
                        "creation": np.datetime64(t.attrs["creation_datetime"], "ns"),
                        "attitude": t["metadata/attitude/attitude/time"].values[0],
                    }
                    if level == "1.1":
                        got["line_us"] = t["imagery/HH/sensor_acquisition_date_microseconds"].values[0]
                    for k, v in got.items():
                        w = want if k != "creation" else np.datetime64(int(want.astype("int64")) // 10**7 * 10**7, "ns")
                        if k == "scene_center":
                            w = want + np.timedelta64(extra_us, "us")
                        if k == "first_point":
                            w = want + np.timedelta64(extra_us_fp, "us")
                        if np.datetime64(v, "ns") != w:
                            viol.append({"case": case, "what": f"{k} time reads {np.datetime64(v, 'ns')} but the instant written is {w}",
                                         "key": "attitude-time" if k == "attitude" and np.datetime64(v, "ns") == w + np.timedelta64(1, "D") else None})
                    if len(samples) < 1:
                        samples.append({"instant": str(want), "fields": {k: str(v) for k, v in got.items()}})
                except Exception as e:  # noqa: BLE001
                    viol.append({"case": case, "what": f"{type(e).__name__}: {e}"[:300], "key": common.failure_site(e)})
                finally:
                    clean()
    # an acquisition straddling New Year: orbit data and attitude points on 31 December of year Y, scene centre and image lines
    # on 1 January of Y+1 — the attitude year is that of the platform-position first point (the code's documented reference)
    for y in (years[:2] if tier == "quick" else years[::4]):
        yl = synth.year_len(y)
        ms = rng.choice([0, 86399000, rng.randint(0, 86399999)])
        cfg = {"seed": rng.randrange(10**9), "level": "1.5", "images": [("HH", None)], "n_lines": 1, "n_pixels": 1, "n_att": 2, "n_chan": 1,
               "same_instant": (y, yl, ms), "mapproj": None,
               "leader_overrides": {"dataset_summary.scene_center_time": f"{y + 1:04d}0101000512345"}}
        prod = products.build(cfg)
        path, clean = products.place(prod, "memory")
        evals += 1
        distinct.add(("new-year", y, ms))
        want = np.datetime64(synth.instant_ns(y, yl, ms * 10**6), "ns")
        try:
            t = _open(path)
            for sec in ("attitude", "rates"):
                v = np.datetime64(t[f"metadata/attitude/{sec}/time"].values[0], "ns")
                if v != want:
                    viol.append({"case": {"cfg": cfg}, "what": f"attitude ({sec}) time reads {v} but the instant written is {want} (first orbit point in {y}, scene centre in {y + 1})",
                                 "key": "attitude-time" if v == want + np.timedelta64(1, "D") else None})
            sc = t["metadata/dataset_summary"].attrs["scene_center_time"]
            if sc != f"{y + 1:04d}-01-01T00:05:12.345000":
                viol.append({"case": {"cfg": cfg}, "what": f"scene centre time reads {sc}"})
        except Exception as e:  # noqa: BLE001
            viol.append({"case": {"cfg": cfg}, "what": f"{type(e).__name__}: {e}"[:300], "key": common.failure_site(e)})
        finally:
            clean()
    return {"name": "oracle:C17 one calendar convention", "evaluations": evals, "distinct": len(distinct), "violations": viol, "samples": samples}


# ---------------------------------------------------------------------------------------------
# C15 / C14 end-to-end


def documented_tables():
    with open(os.path.join(synth.SPEC_DIR, "tables.json"), encoding="utf-8") as f:
        return json.load(f)


def check_c15(seed, tier):
    """products named with ids composed from the frozen documented tables: /summary attributes and /imagery names"""
    rng = random.Random(seed + 155)
    T = documented_tables()
    viol, evals, distinct, samples = [], 0, set(), []
    ids = ["".join(p) for p in itertools.product(T["observation_modes"], T["observation_directions"], T["processing_levels"],
                                                   T["processing_options"], T["map_projections"], T["orbit_directions"])]
    keys = ["observation_modes", "observation_directions", "processing_levels", "processing_options", "map_projections", "orbit_directions"]
    attr_names = ["observation_mode", "observation_direction", "processing_level", "processing_option", "map_projection", "orbit_direction"]
    for k_pid, pid in enumerate(rng.sample(ids, 12) if tier == "quick" else rng.sample(ids, 150)):
        yy, mm = rng.randint(14, 49), rng.randint(1, 12)
        dd = rng.randint(1, [31, 29 if yy % 4 == 0 else 28, 31, 30, 31, 30, 31, 31, 30, 31, 30, 31][mm - 1])
        if k_pid % 4 == 1:
            yy, mm, dd = rng.choice([16, 20, 24, 28, 32, 36, 40, 44, 48]), 2, 29      # leap days are acquisition days too
        elif k_pid % 4 == 3:
            mm, dd = rng.choice([(1, 31), (3, 31), (12, 31), (4, 30), (2, 28)])
        scene = "".join(rng.choice("ABCDEFGHIJKLMNOPQRSTUVWXYZ0123456789") for _ in range(5)) + f"{rng.randint(0, 99999):05d}{rng.randint(0, 9999):04d}-{yy:02d}{mm:02d}{dd:02d}"
        scan = rng.choice([None, "F" + str(rng.randint(0, 9)), "B" + str(rng.randint(0, 9))])
        pol = rng.choice(["HH", "HV", "VH", "VV"])
        level = pid[4:7] if pid[4:7] in ("1.1",) else "1.5"
        cfg = {"seed": rng.randrange(10**9), "level": level, "images": [(pol, scan)], "n_lines": 1, "n_pixels": 1, "n_att": 1, "n_chan": 1,
               "product_id": pid, "scene": scene, "mapproj": None}
        prod = products.build(cfg)
        path, clean = products.place(prod, "memory")
        evals += 1
        distinct.add((pid, scene, scan, pol))
        case = {"cfg": cfg}
        try:
            t = _open(path)
            ps = t["summary/product_specification"].attrs
            pos = [pid[0:3], pid[3], pid[4:7], pid[7], pid[8], pid[9]]
            for tk, an, code in zip(keys, attr_names, pos):
                if ps.get(an) != T[tk][code]:
                    viol.append({"case": case, "what": f"product_specification.{an} = {ps.get(an)!r}, table says {T[tk][code]!r} for code {code!r}"})
            ss = t["summary/scene_specification"].attrs
            want = {"mission_name": scene[:5], "orbit_accumulation": int(scene[5:10]), "scene_frame": int(scene[10:14]), "date": f"20{yy:02d}-{mm:02d}-{dd:02d}"}
            for k, v in want.items():
                if ss.get(k) != v:
                    viol.append({"case": case, "what": f"scene_specification.{k} = {ss.get(k)!r} != {v!r}"})
            name = pol + (f"_scan{scan[1]}" if scan else "")
            if list(t["imagery"].children) != [name]:
                viol.append({"case": case, "what": f"/imagery children {list(t['imagery'].children)} != [{name!r}]"})
            # decoding is a function of the identifier alone: the same product opened again is named the same
            t2 = _open(path, records_per_chunk=rng.choice([1, 2, 1024]))
            if list(t2["imagery"].children) != [name] or dict(t2["summary/product_specification"].attrs) != dict(ps) \
                    or dict(t2["summary/scene_specification"].attrs) != dict(ss):
                viol.append({"case": {**case, "history": "opened twice in one process"},
                             "what": f"second open of the same product: /imagery children {list(t2['imagery'].children)} (expected [{name!r}]), or summary attributes differ"})
            if len(samples) < 1:
                samples.append({"product_id": pid, "scene": scene, "group": name})
        except Exception as e:  # noqa: BLE001
            viol.append({"case": case, "what": f"{type(e).__name__}: {e}"[:300], "key": common.failure_site(e)})
        finally:
            clean()
    # strings outside the language must be rejected with ValueError, never mis-decoded
    from ceos_alos2 import decoders
    from ceos_alos2.sar_image import filename_to_groupname
    good = set(ids)
    for _ in range(300 if tier == "quick" else 5000):
        base = rng.choice(ids)
        i = rng.randrange(10)
        s = rng.choice([base[:i] + rng.choice("ABCDEFGHIJKLMNOPQRSTUVWXYZ0123456789._x") + base[i + 1:], base + rng.choice("X0 "), base[:-1], " " + base])
        evals += 1
        distinct.add(("near", s))
        if s in good:
            continue
        try:
            r = decoders.decode_product_id(s)
            viol.append({"case": {"string": s}, "what": f"product id outside the documented language decoded to {r}"})
        except ValueError:
            pass
        except Exception as e:  # noqa: BLE001
            viol.append({"case": {"string": s}, "what": f"raised {type(e).__name__} instead of ValueError"})
    for _ in range(200 if tier == "quick" else 3000):
        yy, mm, dd = rng.randint(0, 99), rng.randint(0, 14), rng.randint(0, 33)
        s = f"ALOS2{rng.randint(0, 99999):05d}{rng.randint(0, 9999):04d}-{yy:02d}{mm:02d}{dd:02d}" + rng.choice(["", "", "", "X", "-F1", " "])
        valid = 1 <= mm <= 12 and 1 <= dd <= [31, 29 if yy % 4 == 0 else 28, 31, 30, 31, 30, 31, 31, 30, 31, 30, 31][mm - 1] and len(s) == 21
        evals += 1
        distinct.add(("scene", s))
        try:
            r = decoders.decode_scene_id(s)
            if not valid:
                viol.append({"case": {"string": s}, "what": f"scene id outside the documented language decoded to {r}"})
            elif r["date"].month != mm or r["date"].day != dd or r["date"].year % 100 != yy:
                viol.append({"case": {"string": s}, "what": f"date decoded as {r['date']}"})
        except ValueError:
            if valid:
                viol.append({"case": {"string": s}, "what": "valid scene id rejected"})
    # look-alike characters outside ASCII (other Unicode decimal digits, full-width / Cyrillic letters) are outside the language
    lookalikes = {**{str(d): ["\uff10\uff11\uff12\uff13\uff14\uff15\uff16\uff17\uff18\uff19"[d], "\u0660\u0661\u0662\u0663\u0664\u0665\u0666\u0667\u0668\u0669"[d],
                               "\u0966\u0967\u0968\u0969\u096a\u096b\u096c\u096d\u096e\u096f"[d]] for d in range(10)},
                  "A": ["\u0410", "\uff21"], "B": ["\u0412", "\uff22"], "F": ["\uff26"], "H": ["\u041d", "\uff28"], "V": ["\uff36"],
                  "L": ["\uff2c"], "R": ["\uff32"], "D": ["\uff24"], "U": ["\uff35"], "S": ["\u0405", "\uff33"], "-": ["\u2010", "\u2212"], ".": ["\uff0e"]}
    fns = {"scene_id": decoders.decode_scene_id, "product_id": decoders.decode_product_id, "scan_info": decoders.decode_scan_info,
           "filename": decoders.decode_filename, "groupname": filename_to_groupname}
    for _ in range(150 if tier == "quick" else 3000):
        pid = rng.choice(ids)
        scene_ok = f"ALOS2{rng.randint(0, 99999):05d}{rng.randint(0, 9999):04d}-" + rng.choice(
            [f"{rng.randint(14, 49):02d}{rng.randint(1, 12):02d}{rng.randint(1, 28):02d}", f"{rng.choice([16, 20, 24, 28, 40]):02d}0229",
             f"{rng.randint(14, 49):02d}{rng.choice(['0131', '0331', '1231', '0430', '0228'])}"])
        scan_ok = rng.choice("BF") + str(rng.randint(0, 9))
        kind = rng.choice(list(fns))
        base = {"scene_id": scene_ok, "product_id": pid, "scan_info": scan_ok,
                "filename": f"IMG-{rng.choice(['HH', 'HV', 'VH', 'VV'])}-{scene_ok}-{pid}" + rng.choice(["", "-" + scan_ok]),
                "groupname": f"IMG-{rng.choice(['HH', 'HV'])}-{scene_ok}-{pid}-{scan_ok}"}[kind]
        spots = [i for i, ch in enumerate(base) if ch in lookalikes]
        i = rng.choice(spots)
        s_ = base[:i] + rng.choice(lookalikes[base[i]]) + base[i + 1:]
        evals += 1
        distinct.add(("lookalike", kind, s_))
        try:
            fns[kind](base)
        except Exception as e:  # noqa: BLE001
            viol.append({"case": {"decoder": kind, "string": base}, "what": f"valid {kind} rejected: {type(e).__name__}: {e}"[:200]})
            continue
        try:
            r = fns[kind](s_)
            viol.append({"case": {"decoder": kind, "string": s_, "codepoint": hex(ord(s_[i])), "position": i},
                         "what": f"{kind} with a non-ASCII look-alike character (outside the documented language) decoded to {r!r}"[:300]})
        except ValueError:
            pass
        except Exception as e:  # noqa: BLE001
            viol.append({"case": {"decoder": kind, "string": s_}, "what": f"raised {type(e).__name__} instead of ValueError"})
    # every decoder is a function of its argument alone: repeated and interleaved calls on the same identifier agree
    import copy
    for _ in range(40 if tier == "quick" else 600):
        pid = rng.choice(ids)
        scene_ok = f"ALOS2{rng.randint(0, 99999):05d}{rng.randint(0, 9999):04d}-" + rng.choice(
            [f"{rng.randint(14, 49):02d}{rng.randint(1, 12):02d}{rng.randint(1, 28):02d}", f"{rng.choice([16, 20, 24, 28, 40]):02d}0229",
             f"{rng.randint(14, 49):02d}{rng.choice(['0131', '0331', '1231', '0430', '0228'])}"])
        scan_ok = rng.choice("BF") + str(rng.randint(0, 9))
        pol = rng.choice(["HH", "HV", "VH", "VV"])
        fn = f"IMG-{pol}-{scene_ok}-{pid}" + rng.choice(["", "-" + scan_ok])
        want_group = pol + (f"_scan{scan_ok[1]}" if fn.endswith(scan_ok) else "")
        evals += 1
        distinct.add(("repeat", fn))
        try:
            seq = []
            for step in rng.choice([["filename", "groupname", "filename", "groupname", "filename"],
                                    ["groupname", "groupname", "filename", "groupname"],
                                    ["filename", "filename", "groupname", "filename", "groupname", "groupname"]]):
                seq.append((step, copy.deepcopy(fns[step](fn))))
            for arg, kind in ((scene_ok, "scene_id"), (pid, "product_id"), (scan_ok, "scan_info")):
                seq.append((kind, copy.deepcopy(fns[kind](arg))))
                seq.append((kind, copy.deepcopy(fns[kind](arg))))
            by_kind = {}
            for kind, r in seq:
                by_kind.setdefault(kind, []).append(r)
            for kind, rs in by_kind.items():
                if any(r != rs[0] for r in rs[1:]):
                    viol.append({"case": {"decoder": kind, "string": fn, "calls": [k for k, _ in seq]},
                                 "what": f"{kind} of the same identifier gives different results on repeated calls: {rs[0]!r} then {[r for r in rs if r != rs[0]][0]!r}"[:400]})
            if any(g != want_group for g in by_kind["groupname"]):
                viol.append({"case": {"decoder": "groupname", "string": fn}, "what": f"group name {by_kind['groupname']} != {want_group!r}"})
        except Exception as e:  # noqa: BLE001
            viol.append({"case": {"string": fn}, "what": f"valid identifier rejected: {type(e).__name__}: {e}"[:200]})
    # unique group name per (polarisation, scan)
    names = {}
    for pol in ["HH", "HV", "VH", "VV"]:
        for n in [None] + list(range(10)):
            fn = f"IMG-{pol}-ALOS2290760600-191011-{ids[0]}" + (f"-F{n}" if n is not None else "")
            g = filename_to_groupname(fn)
            evals += 1
            if g in names:
                viol.append({"case": {"files": [names[g], fn]}, "what": f"two (polarisation, scan) combinations share the group name {g!r}"})
            names[g] = fn
    return {"name": "oracle:C15 identifier decoding", "evaluations": evals, "distinct": len(distinct), "violations": viol, "samples": samples}


def check_c14(seed, tier):
    """whole products opened with permuted / CRLF / quoted-value summaries; corrupted lines must all be named"""
    import corr_text
    rng = random.Random(seed + 144)
    viol, evals, distinct, samples = [], 0, set(), []
    for _ in range(6 if tier == "quick" else 60):
        cfg = {"seed": rng.randrange(10**9), "level": rng.choice(["1.1", "1.5"]), "images": rng.sample([("HH", None), ("HV", None), ("VV", None)], rng.randint(1, 3)),
               "n_lines": 1, "n_pixels": 1, "n_att": 1, "n_chan": 1, "mapproj": None}
        if _ == 1:
            # ten and more product files (ScanSAR): the numbered `ProductFileNameNN` keys reach two digits
            cfg["images"] = [(p_, f"F{n_}") for p_ in ("HH", "HV") for n_ in range(1, 6)]
        prod = products.build(cfg)
        path, clean = products.place(prod, "memory")
        evals += 1
        try:
            t_ref = _open(path)
            ref = treecmp.fingerprint_tree(t_ref)
            roles = t_ref["summary/product_information/data_files"].attrs
            names = [n for n in prod.files if n != "summary.txt"]
            want_roles = {"volume_directory": [n for n in names if n.startswith("VOL")][0], "sar_leader": [n for n in names if n.startswith("LED")][0],
                          "sar_imagery": [im.name for im in prod.images], "sar_trailer": [n for n in names if n.startswith("TRL")][0]}
            got_roles = {k_: (list(v_) if isinstance(v_, (list, tuple)) else v_) for k_, v_ in roles.items()}
            if got_roles != want_roles:
                viol.append({"case": {"cfg": cfg}, "what": f"file roles from the numbered ProductFileName entries: {got_roles} != {want_roles}"[:400]})
        except Exception as e:  # noqa: BLE001
            viol.append({"case": {"cfg": cfg}, "what": f"a product with a well-formed summary ({len(prod.files) - 1} product files) failed to open: {type(e).__name__}: {e}"[:300],
                         "key": common.failure_site(e)})
            continue
        finally:
            clean()
        ref_summary = [n for n in ref if n["path"].startswith("/summary")]
        for variant in ("shuffled", "crlf", "sections-interleaved"):
            ls = list(prod.summary_text.split("\n")[:-1])
            eol = "\n"
            if variant == "shuffled":
                rng.shuffle(ls)
            elif variant == "crlf":
                eol = "\r\n"
            else:
                ls.sort(key=lambda s: (s[4:6], rng.random()))
            prod.files["summary.txt"] = (eol.join(ls) + eol).encode()
            path, clean = products.place(prod, "memory")
            evals += 1
            distinct.add((cfg["seed"], variant))
            try:
                got = treecmp.fingerprint_tree(_open(path))

                def norm(fp):
                    return sorted(((n["path"], sorted(map(json.dumps, n["attrs"]))) for n in fp if n["path"].startswith("/summary")))
                if norm(got) != norm(ref):
                    viol.append({"case": {"cfg": cfg, "variant": variant}, "what": "summary attributes depend on line order / line endings"})
                rest = lambda fp: [n for n in fp if not n["path"].startswith("/summary")]  # noqa: E731
                d = treecmp.diff(rest(ref), rest(got))
                if d:
                    viol.append({"case": {"cfg": cfg, "variant": variant}, "what": "tree outside /summary depends on summary line order: " + d})
            except Exception as e:  # noqa: BLE001
                viol.append({"case": {"cfg": cfg, "variant": variant}, "what": f"{type(e).__name__}: {e}"[:300], "key": common.failure_site(e)})
            finally:
                clean()
        # "each entry appears under its section's group": an entry whose line is NOT in the text does not — the same product
        # (same ids) with a random subset of its plain one-key-one-attribute lines removed, opened after the full one
        plain = ("Odi_", "Pds_", "Img_", "Lbi_", "Ach_", "Rad_")
        for trial in range(2):
            ls = list(prod.summary_text.split("\n")[:-1])
            removable = [i for i, l_ in enumerate(ls) if l_.startswith(plain) and not l_.startswith(("Pds_ProductID", "Scs_"))]
            gone = sorted(rng.sample(removable, rng.randint(1, max(1, len(removable) // 2)))) if removable else []
            gone_keys = {ls[i].split("=", 1)[0] for i in gone}
            kept = [l_ for i, l_ in enumerate(ls) if i not in gone]
            prod.files["summary.txt"] = ("\n".join(kept) + "\n").encode()
            path, clean = products.place(prod, "memory")
            evals += 1
            distinct.add((cfg["seed"], "subset", tuple(gone)))
            try:
                got = treecmp.fingerprint_tree(_open(path))
                ref_s = {n["path"]: {json.dumps(a[0]): a for a in n["attrs"]} for n in ref if n["path"].startswith("/summary")}
                got_s = {n["path"]: {json.dumps(a[0]): a for a in n["attrs"]} for n in got if n["path"].startswith("/summary")}
                gone_names = {k_.split("_", 1)[1] for k_ in gone_keys}
                for node, attrs in got_s.items():
                    want = {k_: v_ for k_, v_ in ref_s.get(node, {}).items() if json.loads(k_) not in gone_names}
                    # (an attribute name removed from one section may legitimately exist in another: compare only the nodes
                    #  whose full version held a removed name)
                    if set(ref_s.get(node, {})) - set(want) and attrs != want:
                        stale = sorted(set(attrs) - set(want))
                        viol.append({"case": {"cfg": cfg, "removed_lines": sorted(gone_keys)},
                                     "what": f"{node}: after removing {len(gone)} lines the group holds {stale[:5]} (not in the text) or lost/changed other entries"[:400]})
                        break
            except Exception as e:  # noqa: BLE001
                viol.append({"case": {"cfg": cfg, "removed_lines": sorted(gone_keys)}, "what": f"well-formed summary rejected: {type(e).__name__}: {e}"[:300],
                             "key": common.failure_site(e)})
            finally:
                clean()
        # values may contain spaces, '=' and quotes (in any combination, e.g. `a="b"`): the entry is stored under its key, verbatim
        extra = {}
        for j in range(5):
            alphabet = ['a', 'B', '7', ' ', '=', '"', '="', '"=', ' = ', '""', '_', '.']
            val = "".join(rng.choice(alphabet) for _ in range(rng.randint(0, 8))) if j else 'k="v" and x = "y"'
            if j == 4:
                # valid UTF-8 that is not in a Unicode normal form (as macOS / some editors write it): stored code point for code point
                val = rng.choice(["Cafe\u0301 du Nord", "\u212bngstr\u00f6m \u2126", "\u30af\u3099\u30e9\u30b9", "\u1112\u1161\u11ab", "a\u0323\u0307 o\u0307\u0323"])
            extra[f"Note{j}x{rng.randint(0, 99)}"] = val
        for eol in ("\n", "\r\n"):
            ls = list(prod.summary_text.split("\n")[:-1])
            for k_, v_ in extra.items():
                ls.insert(rng.randint(0, len(ls)), f'Odi_{k_}="{v_}"')
            prod.files["summary.txt"] = (eol.join(ls) + eol).encode()
            path, clean = products.place(prod, "memory")
            evals += 1
            distinct.add((cfg["seed"], "values", eol))
            try:
                got = _open(path)["summary/ordering_information"].attrs
                wrong = {k_: (v_, got.get(k_)) for k_, v_ in extra.items() if got.get(k_) != v_}
                if wrong:
                    viol.append({"case": {"cfg": cfg, "extra_lines": extra, "eol": eol}, "what": f"summary values not stored verbatim under their key (expected, got): {wrong}"[:400]})
            except BaseException as e:  # noqa: BLE001
                viol.append({"case": {"cfg": cfg, "extra_lines": extra, "eol": eol}, "what": f"well-formed summary rejected: {type(e).__name__}: {e}"[:300], "key": common.failure_site(e) if isinstance(e, Exception) else None})
            finally:
                clean()
        # blank / whitespace-only lines are malformed lines like any other — also the first and the last line of the text
        # (whatever "tidying" of the text as a whole would hide them)
        base_lines = list(prod.summary_text.split("\n")[:-1])
        for where, filler in (("end", ""), ("start", ""), ("end", "  "), ("start", " \t"), ("both", ""), ("end-twice", "")):
            ls = list(base_lines)
            if where == "end":
                ls, want_bad = ls + [filler], [len(ls)]
            elif where == "start":
                ls, want_bad = [filler] + ls, [0]
            elif where == "both":
                ls, want_bad = [filler] + ls + [filler], [0, len(ls) + 1]
            else:
                ls, want_bad = ls + [filler, filler], [len(ls), len(ls) + 1]
            for eol in ("\n", "\r\n"):
                prod.files["summary.txt"] = (eol.join(ls) + eol).encode()
                path, clean = products.place(prod, "memory")
                evals += 1
                distinct.add((cfg["seed"], "blank-line", where, filler, eol))
                case = {"cfg": cfg, "blank_line_at": where, "content": repr(filler), "eol": repr(eol)}
                try:
                    _open(path)
                    viol.append({"case": case, "what": f"a summary with blank line(s) {want_bad} was accepted"})
                except BaseException as e:  # noqa: BLE001
                    if type(e).__name__ == "ExceptionGroup":
                        named = sorted(int(str(s_.args[0]).split(":")[0].replace("line", "")) for s_ in e.exceptions)
                        if named != want_bad:
                            viol.append({"case": case, "what": f"error names lines {named}, the blank lines are {want_bad}"})
                    else:
                        viol.append({"case": case, "what": f"raised {type(e).__name__} instead of one error group: {e}"[:200]})
                finally:
                    clean()
        # corrupted lines: one error group naming every offending line and no others
        ls = list(prod.summary_text.split("\n")[:-1])
        badset = sorted(rng.sample(range(len(ls)), rng.randint(1, 4)))
        for i in badset:
            ls[i] = corr_text.corrupt(rng, ls[i])
        truly_bad = [i for i in badset if not __import__("re").fullmatch(r'[A-Za-z]{3}_.*?=".*?"', ls[i])]
        prod.files["summary.txt"] = ("\n".join(ls) + "\n").encode()
        path, clean = products.place(prod, "memory")
        evals += 1
        distinct.add((cfg["seed"], "corrupt", tuple(badset)))
        try:
            _open(path)
            if truly_bad:
                viol.append({"case": {"cfg": cfg, "corrupted_lines": truly_bad}, "what": "malformed summary lines were accepted"})
        except BaseException as e:  # noqa: BLE001
            if type(e).__name__ == "ExceptionGroup":
                named = sorted(int(str(s.args[0]).split(":")[0].replace("line", "")) for s in e.exceptions)
                if named != truly_bad:
                    viol.append({"case": {"cfg": cfg, "corrupted_lines": truly_bad}, "what": f"error names lines {named}, malformed are {truly_bad}"})
                elif len(samples) < 1:
                    samples.append({"corrupted_lines": truly_bad, "reported": named})
            elif truly_bad:
                viol.append({"case": {"cfg": cfg, "corrupted_lines": truly_bad}, "what": f"raised {type(e).__name__} instead of one error group"})
        finally:
            clean()
    return {"name": "oracle:C14 summary parsing", "evaluations": evals, "distinct": len(distinct), "violations": viol, "samples": samples}


if __name__ == "__main__":
    import sys
    import time
    seed = int(sys.argv[1]) if len(sys.argv) > 1 else 0
    tier = sys.argv[2] if len(sys.argv) > 2 else "quick"
    which = sys.argv[3].split(",") if len(sys.argv) > 3 else ["c12", "c13", "c14", "c15", "c17", "c20"]
    for w in which:
        fn = globals()["check_" + w]
        t0 = time.time()
        r = fn(seed, tier)
        print(r["name"], r["evaluations"], r["distinct"], "violations:", len(r["violations"]), f"{time.time() - t0:.1f}s")
        seen = set()
        for v in r["violations"]:
            k = (v.get("key"), v["what"][:50])
            if k in seen:
                continue
            seen.add(k)
            print("   ", json.dumps(v, default=str)[:600])

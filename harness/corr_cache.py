"""Correspondence (H4): the JSON index cache — codec (`encoders.py` / `decoders.py` / `json`) and the cache-first open
(`open_image`, `read_cache`, `create_cache`, the CLI) — vs the Lean models `Model/CacheCodec.lean`, `Model/Json.lean`,
`Model/CacheFlow.lean`."""
import json
import math
import os
import random
import shutil

import numpy as np

import common
from common import err_name, run_model

NAT = -(2**63)


# ---------------------------------------------------------------------------------------------
# python value <-> wire format


def py_to_wire(v):
    if v is None:
        return {"n": None}
    if isinstance(v, (bool, np.bool_)):
        return {"b": bool(v)}
    if isinstance(v, (int, np.integer)):
        return {"i": str(int(v))}
    if isinstance(v, (float, np.floating)):
        f = float(v)
        tok = "NaN" if math.isnan(f) else ("Infinity" if f == math.inf else ("-Infinity" if f == -math.inf else repr(f)))
        return {"f": tok}
    if isinstance(v, str):
        return {"s": v}
    if isinstance(v, tuple):
        return {"t": [py_to_wire(x) for x in v]}
    if isinstance(v, list):
        return {"l": [py_to_wire(x) for x in v]}
    if isinstance(v, dict):
        return {"d": [[str(k), py_to_wire(x)] for k, x in v.items()]}
    raise TypeError(type(v))


def wire_to_py(w):
    if "n" in w:
        return None
    if "b" in w:
        return w["b"]
    if "i" in w:
        return int(w["i"])
    if "f" in w:
        return {"NaN": math.nan, "Infinity": math.inf, "-Infinity": -math.inf}.get(w["f"], None) if w["f"] in ("NaN", "Infinity", "-Infinity") else float(w["f"])
    if "s" in w:
        return w["s"]
    if "t" in w:
        return tuple(wire_to_py(x) for x in w["t"])
    if "l" in w:
        return [wire_to_py(x) for x in w["l"]]
    if "d" in w:
        return {k: wire_to_py(x) for k, x in w["d"]}
    raise ValueError(w)


def same(a, b):
    if type(a) is not type(b):
        return False
    if isinstance(a, float):
        return (math.isnan(a) and math.isnan(b)) or (a == b and math.copysign(1, a) == math.copysign(1, b))
    if isinstance(a, (list, tuple)):
        return len(a) == len(b) and all(same(x, y) for x, y in zip(a, b))
    if isinstance(a, dict):
        return list(a) == list(b) and all(same(a[k], b[k]) for k in a)
    return a == b


def array_to_wire(data):
    from ceos_alos2.array import Array
    if isinstance(data, Array):
        return {"backend": {"root": data.fs.path, "url": data.url, "shape": py_to_wire(data.shape), "dtype": str(data.dtype),
                            "byte_ranges": py_to_wire(data.byte_ranges), "type_code": data.type_code, "rpc": data.records_per_chunk}}
    a = np.asarray(data)
    if a.dtype.kind in "Mm":
        flat = [py_to_wire(int(x)) for x in a.astype("int64").ravel()]
    else:
        flat = [py_to_wire(x) for x in a.ravel().tolist()]
    return {"nd": {"dtype": str(a.dtype), "shape": list(a.shape), "flat": flat}}


def group_to_wire(g):
    from ceos_alos2.hierarchy import Group
    data = []
    for k, v in g.data.items():
        if isinstance(v, Group):
            data.append([k, {"group": group_to_wire(v)}])
        else:
            dims = v.dims
            data.append([k, {"var": {"dims": py_to_wire(dims), "data": array_to_wire(v.data), "attrs": [[a, py_to_wire(x)] for a, x in v.attrs.items()]}}])
    return {"path": g.path, "url": py_to_wire(g.url), "data": data, "attrs": [[a, py_to_wire(x)] for a, x in g.attrs.items()]}


def wire_group_equal(w, g, rpc_expected=None, path=""):
    """model group (wire) vs python Group; returns None or a description"""
    from ceos_alos2.array import Array
    from ceos_alos2.hierarchy import Group
    if not isinstance(g, Group):
        return f"{path}: python object is {type(g).__name__}"
    if w["path"] != g.path:
        return f"{path}: path {w['path']!r} vs {g.path!r}"
    if not same(wire_to_py(w["url"]), g.url):
        return f"{path}: url {w['url']} vs {g.url!r}"
    if [k for k, _ in w["data"]] != list(g.data):
        return f"{path}: members {[k for k, _ in w['data']]} vs {list(g.data)}"
    if not same({k: wire_to_py(v) for k, v in w["attrs"]}, dict(g.attrs)):
        return f"{path}: attrs differ"
    for k, n in w["data"]:
        pv = g.data[k]
        if "group" in n:
            r = wire_group_equal(n["group"], pv, rpc_expected, path + "/" + k)
            if r:
                return r
            continue
        v = n["var"]
        if isinstance(pv, Group):
            return f"{path}/{k}: model variable, python group"
        pd = pv.dims
        if not same(wire_to_py(v["dims"]), pd):
            return f"{path}/{k}: dims {wire_to_py(v['dims'])!r} vs {pd!r}"
        if not same({a: wire_to_py(x) for a, x in v["attrs"]}, dict(pv.attrs)):
            return f"{path}/{k}: attrs differ"
        if "backend" in v["data"]:
            b = v["data"]["backend"]
            if not isinstance(pv.data, Array):
                return f"{path}/{k}: model backend array, python {type(pv.data).__name__}"
            a = pv.data
            got = (a.fs.path, a.url, a.shape, str(a.dtype), a.byte_ranges, a.type_code, a.records_per_chunk)
            want = (b["root"], b["url"], wire_to_py(b["shape"]), b["dtype"], wire_to_py(b["byte_ranges"]), b["type_code"], b["rpc"])
            # records_per_chunk is normalised by Array.__post_init__ (min with the line count)
            wn = list(want)
            wn[6] = min(want[6], want[2][0]) if want[2] else want[6]
            if not same(list(got[:6]), list(wn[:6])) or got[6] != wn[6]:
                return f"{path}/{k}: backend array {got} vs {tuple(wn)}"
        else:
            nd = v["data"]["nd"]
            pa = np.asarray(pv.data)
            if str(pa.dtype) != nd["dtype"] or list(pa.shape) != nd["shape"]:
                return f"{path}/{k}: dtype/shape {pa.dtype}{pa.shape} vs {nd['dtype']}{nd['shape']}"
            pf = [int(x) for x in pa.astype("int64").ravel()] if pa.dtype.kind in "Mm" else pa.ravel().tolist()
            if not same([wire_to_py(x) for x in nd["flat"]], pf):
                return f"{path}/{k}: values differ"
    return None


# ---------------------------------------------------------------------------------------------
# generators


def gen_attr(rng, depth=0):
    r = rng.random()
    if depth > 2 or r < 0.5:
        return rng.choice([0, 1, -1, 2**31, 2**63 - 1, -(2**63), 2**64 + 1, 1.5, -0.0, math.nan, math.inf, -math.inf, 1e-320, 1.7976931348623157e308,
                           0.1, True, False, "", "deg", "Hz/µs^2", "m³ · s⁻¹ 𝛑", "a\"b\\c\n\t\x01", None, rng.randint(-10**6, 10**6), rng.random()])
    if r < 0.7:
        return [gen_attr(rng, depth + 1) for _ in range(rng.randint(0, 3))]
    if r < 0.9:
        return tuple(gen_attr(rng, depth + 1) for _ in range(rng.randint(0, 3)))
    return {rng.choice(["a", "b", "µ", "x y"]) + str(i): gen_attr(rng, depth + 1) for i in range(rng.randint(0, 2))}


def gen_array(rng):
    kind = rng.choice("biufUMm")
    rank = rng.choice([0, 1, 1, 2])
    shape = tuple(rng.randint(1, 3) for _ in range(rank))
    if rank == 1 and rng.random() < 0.15:
        shape = (0,)
    n = int(np.prod(shape)) if shape else 1
    if kind == "b":
        return np.array([rng.random() < 0.5 for _ in range(n)], dtype=bool).reshape(shape)
    if kind == "i":
        dt = rng.choice(["int8", "int32", "int64"])
        info = np.iinfo(dt)
        return np.array([rng.choice([info.min, info.max, 0, rng.randint(int(info.min), int(info.max))]) for _ in range(n)], dtype=dt).reshape(shape)
    if kind == "u":
        dt = rng.choice(["uint16", "uint32", "uint64"])
        info = np.iinfo(dt)
        return np.array([rng.choice([info.max, 0, rng.randint(0, int(info.max))]) for _ in range(n)], dtype=dt).reshape(shape)
    if kind == "f":
        dt = rng.choice(["float32", "float64"])
        vals = [rng.choice([0.0, -0.0, math.nan, math.inf, -math.inf, 1e-45, 3.4028234663852886e38, rng.uniform(-1e6, 1e6), rng.random()]) for _ in range(n)]
        return np.array(vals, dtype=dt).reshape(shape)
    if kind == "U":
        return np.array([rng.choice(["horizontal", "vertical", "", "µm", "a b"]) for _ in range(n)], dtype=str).reshape(shape) if n else np.array([], dtype="<U1")
    unit = rng.choice(["s", "ms", "us", "ns"])
    if kind == "M":
        base = {"s": 1, "ms": 10**3, "us": 10**6, "ns": 10**9}[unit]
        vals = [rng.choice([NAT, 0, 1570804995 * base + rng.randint(0, base - 1), rng.randint(0, 4102444800) * base + rng.randint(0, base - 1)]) for _ in range(n)]
        return np.array(vals, dtype="int64").astype(f"datetime64[{unit}]").reshape(shape)
    vals = [rng.choice([0, 1, -1, 2**40, rng.randint(-10**12, 10**12)]) for _ in range(n)]
    return np.array(vals, dtype="int64").astype(f"timedelta64[{unit}]").reshape(shape)


def gen_group(rng, depth=0, path="/"):
    from ceos_alos2.hierarchy import Group, Variable
    from ceos_alos2.tests.utils import create_dummy_array
    data = {}
    for i in range(rng.randint(0, 3)):
        arr = gen_array(rng)
        dims = [f"d{j}" for j in range(arr.ndim)] if rng.random() < 0.8 else tuple(f"d{j}" for j in range(arr.ndim))
        if arr.ndim == 1 and rng.random() < 0.3:
            dims = "d0"
        data[f"v{i}"] = Variable(dims, arr, {f"a{k}": gen_attr(rng) for k in range(rng.randint(0, 2))})
    if rng.random() < 0.3:
        n = rng.randint(1, 4)
        data["img"] = Variable(["rows", "columns"], create_dummy_array(protocol="file", shape=(n, 3), dtype="uint16", records_per_chunk=rng.randint(1, 5),
                                                                         byte_ranges=[(10 * x + 5, 10 * x + 11) for x in range(n)]), {})
    if depth < 2:
        for i in range(rng.randint(0, 2)):
            data[f"g{i}"] = gen_group(rng, depth + 1, path=None)
    return Group(path=path if depth == 0 else None, url=rng.choice([None, "/some/url", "s3://bucket/x"]) if depth == 0 else rng.choice([None, "u"]),
                 data=data, attrs={f"k{k}": gen_attr(rng) for k in range(rng.randint(0, 3))})


def real_image_group(rng, level):
    """an image group as the reader produces it (local files, as `create_cache` needs them)"""
    import fsspec

    import products
    from ceos_alos2.sar_image import open_image
    prod = products.build({"seed": rng.randrange(10**9), "level": level, "images": [("HH", None)], "n_lines": rng.randint(1, 4), "n_pixels": 2})
    path, clean = products.place(prod, "local")
    mapper = fsspec.get_mapper(path)
    g = open_image(mapper, prod.images[0].name, use_cache=False, records_per_chunk=rng.randint(1, 5))
    return g, clean


# ---------------------------------------------------------------------------------------------


def check_codec(seed, tier):
    from ceos_alos2.sar_image import caching
    rng = random.Random(seed + 8)
    cases, cleans = [], []
    for _ in range(60 if tier == "quick" else 600):
        cases.append(("generated", gen_group(rng)))
    for _ in range(4 if tier == "quick" else 30):
        g, clean = real_image_group(rng, rng.choice(["1.1", "1.5"]))
        cases.append(("reader", g))
        cleans.append(clean)
    ops, texts = [], []
    for kind, g in cases:
        text = caching.encode(g)
        texts.append(text)
        ops.append({"op": "cache_encode", "group": group_to_wire(g)})
    for (kind, g), text in zip(cases, texts):
        ops.append({"op": "cache_decode", "text": text, "rpc": 3})
        ops.append({"op": "json_loads", "text": text})
    outs = run_model(ops)
    n = len(cases)
    bad, dist, distinct = [], {"in_domain": 0, "kinds": {}}, set()
    sample = None
    for i, ((kind, g), text) in enumerate(zip(cases, texts)):
        enc, dec, lo = outs[i], outs[n + 2 * i], outs[n + 2 * i + 1]
        distinct.add(text)
        dist["kinds"][kind] = dist["kinds"].get(kind, 0) + 1
        dist["in_domain"] += 1 if enc.get("in_domain") else 0
        if enc["text"] != text:
            k = next((j for j in range(min(len(text), len(enc["text"]))) if text[j] != enc["text"][j]), -1)
            bad.append({"what": "encode text", "kind": kind, "real": text[max(0, k - 40):k + 60], "model": enc["text"][max(0, k - 40):k + 60]})
            continue
        if "ok" not in lo or not same(wire_to_py(lo["ok"]), json.loads(text)):
            bad.append({"what": "json.loads", "kind": kind, "text": text[:200]})
            continue
        try:
            back = caching.decode(text, records_per_chunk=3)
        except Exception as e:  # noqa: BLE001
            if dec.get("err") != err_name(e):
                bad.append({"what": "decode error", "real": err_name(e), "model": str(dec)[:200]})
            continue
        if "ok" not in dec:
            bad.append({"what": "decode", "real": "ok", "model": dec})
            continue
        r = wire_group_equal(dec["ok"], back)
        if r:
            bad.append({"what": "decode result", "kind": kind, "diff": r})
        elif sample is None and kind == "reader":
            sample = {"kind": kind, "text_len": len(text), "text_head": text[:160]}
    for c in cleans:
        c()
    return {"name": "cache-codec", "cases": len(cases), "distinct": len(distinct), "disagreements": bad, "distribution": dist,
            "sample": sample or {"text_head": texts[0][:160]}}


def check_json(seed, tier):
    """json.dumps / json.loads vs `dump` / the driver's parser on random values and on every kind of torn text"""
    rng = random.Random(seed + 9)
    vals = [gen_attr(rng) for _ in range(200 if tier == "quick" else 3000)]

    def notuple(v):
        if isinstance(v, (list, tuple)):
            return [notuple(x) for x in v]
        if isinstance(v, dict):
            return {k: notuple(x) for k, x in v.items()}
        return v
    vals = [notuple(v) for v in vals]
    ops = [{"op": "json_dump", "val": py_to_wire(v)} for v in vals]
    texts = [json.dumps(v) for v in vals]
    torn = []
    for t in texts:
        if len(t) > 2:
            for _ in range(3):
                torn.append(t[:rng.randrange(len(t))])
    torn += ["", " ", "{", "}", "[1,]", "{\"a\":}", "nul", "1.", "-", "01", "\"\\u12\"", "[1 2]", "{\"a\" 1}", "1e", "tru", "[]]", "{}}"]
    ops += [{"op": "json_loads", "text": t} for t in torn + texts]
    outs = run_model(ops)
    bad = []
    for v, t, o in zip(vals, texts, outs[:len(vals)]):
        if o["text"] != t:
            bad.append({"what": "dump", "real": t[:200], "model": o["text"][:200]})
    for t, o in zip(torn + texts, outs[len(vals):]):
        try:
            r = json.loads(t)
            if "ok" not in o or not same(wire_to_py(o["ok"]), r):
                bad.append({"what": "loads", "text": t[:100], "real": repr(r)[:100], "model": str(o)[:100]})
        except json.JSONDecodeError:
            if "err" not in o:
                bad.append({"what": "loads accepts what python rejects", "text": t[:100], "model": str(o)[:100]})
    return {"name": "json", "cases": len(ops), "distinct": len(set(texts)) + len(set(torn)), "disagreements": bad,
            "distribution": {"values": len(vals), "torn": len(torn)}, "sample": {"value": repr(vals[0])[:100], "text": texts[0][:100]}}


# ---------------------------------------------------------------------------------------------
# cache-first open: real files vs the flow model


class Sandbox:
    """one product on local disk + a private user cache dir"""

    def __init__(self, rng, level):
        import fsspec

        import products
        from ceos_alos2.sar_image.caching import path as cpath
        self.prod = products.build({"seed": rng.randrange(10**9), "level": level, "images": [("HH", None)], "n_lines": rng.randint(2, 5), "n_pixels": 2})
        self.path, self.clean = products.place(self.prod, "local")
        self.name = self.prod.images[0].name
        self.mapper = fsspec.get_mapper(self.path)
        self.local = cpath.local_cache_location(self.mapper.root, self.name)
        self.adjacent = os.path.join(self.path, self.name + ".index")

    def state(self):
        def rd(p):
            return open(p, encoding="utf-8").read() if os.path.isfile(p) else None
        return {"loc": rd(self.local), "adj": rd(self.adjacent)}

    def set_state(self, st):
        for p, t in ((self.local, st["loc"]), (self.adjacent, st["adj"])):
            if t is None:
                if os.path.isfile(p):
                    os.remove(p)
            else:
                os.makedirs(os.path.dirname(p), exist_ok=True)
                with open(p, "w", encoding="utf-8") as f:
                    f.write(t)

    def uncached(self, rpc):
        from ceos_alos2.sar_image import open_image
        return open_image(self.mapper, self.name, use_cache=False, create_cache=False, records_per_chunk=rpc)

    def doc(self, rpc):
        from ceos_alos2.sar_image import caching
        return caching.encode(self.uncached(rpc))

    def apply(self, op):
        """run one op for real; returns the output dict for opens"""
        import pathlib

        from ceos_alos2.sar_image import cli, io as sio, open_image
        k = op["op"]
        if k == "open":
            calls = []
            orig = sio.read_metadata
            import ceos_alos2.sar_image as si

            def spy(f, rpc):
                calls.append(rpc)
                return orig(f, rpc)
            si.read_metadata = spy
            try:
                g = open_image(self.mapper, self.name, use_cache=op["use"], create_cache=op["create"], records_per_chunk=op["rpc"])
                out = {"rpc": op["rpc"], "group": g, "parsed": bool(calls)}
            except Exception as e:  # noqa: BLE001
                out = {"rpc": op["rpc"], "err": err_name(e)}
            finally:
                si.read_metadata = orig
            out.update(self.state())
            return out
        if k == "cli":
            cli.create_cache(pathlib.Path(self.path) / self.name, None, op["rpc"])
        elif k == "delLocal":
            if os.path.isfile(self.local):
                os.remove(self.local)
        elif k == "delAdjacent":
            if os.path.isfile(self.adjacent):
                os.remove(self.adjacent)
        elif k in ("crashLocal", "crashAdjacent"):
            text = self.doc(op["rpc"])[:op["k"]]
            p = self.local if k == "crashLocal" else self.adjacent
            os.makedirs(os.path.dirname(p), exist_ok=True)
            with open(p, "w", encoding="utf-8") as f:
                f.write(text)
        return None


def gen_ops(rng, n, doc_len):
    ops = []
    for _ in range(n):
        r = rng.random()
        rpc = rng.choice([1, 2, 3, 7, 1024])
        if r < 0.55:
            ops.append({"op": "open", "use": rng.random() < 0.75, "create": rng.random() < 0.4, "rpc": rpc})
        elif r < 0.65:
            ops.append({"op": "cli", "rpc": rpc})
        elif r < 0.75:
            ops.append({"op": "delLocal"})
        elif r < 0.85:
            ops.append({"op": "delAdjacent"})
        else:
            ops.append({"op": rng.choice(["crashLocal", "crashAdjacent"]), "rpc": rpc,
                        "k": rng.choice([0, 1, doc_len // 2, doc_len - 1, doc_len, rng.randrange(doc_len + 1)])})
    return ops


def check_flow(seed, tier):
    rng = random.Random(seed + 10)
    bad, evals, distinct = [], 0, set()
    dist = {"sources": {}, "ops": 0}
    sample = None
    for trial in range(6 if tier == "quick" else 60):
        sb = Sandbox(rng, rng.choice(["1.1", "1.5"]))
        try:
            base = sb.uncached(1)
            doc_len = len(sb.doc(1))
            ops = gen_ops(rng, rng.randint(4, 12), doc_len)
            st0 = {"loc": None, "adj": None}
            sb.set_state(st0)
            reals = [r for r in (sb.apply(op) for op in ops) if r is not None]
            m = run_model([{"op": "cache_flow", "base": group_to_wire(base), "state": st0, "ops": ops}])[0]["outs"]
            final = m[-1]["final"]
            mouts = m[:-1]
            evals += len(ops)
            dist["ops"] += len(ops)
            distinct.add(json.dumps(ops))
            if len(mouts) != len(reals):
                bad.append({"what": "number of outputs", "ops": ops})
                continue
            for r, o in zip(reals, mouts):
                if "err" in r or "err" in o:
                    if r.get("err") != o.get("err"):
                        bad.append({"what": "error class", "real": r.get("err"), "model": o.get("err"), "ops": ops})
                    continue
                src = o["source"]
                dist["sources"][src] = dist["sources"].get(src, 0) + 1
                d = wire_group_equal(o["ok"], r["group"])
                if d:
                    bad.append({"what": "returned group", "diff": d, "ops": ops})
                if (src == "parsed") != r["parsed"]:
                    bad.append({"what": "image line records re-read?", "real_parsed": r["parsed"], "model_source": src, "ops": ops})
                if o["loc"] != r["loc"] or o["adj"] != r["adj"]:
                    bad.append({"what": "cache files after the open", "ops": ops,
                                "real": {k: (None if r[k] is None else len(r[k])) for k in ("loc", "adj")},
                                "model": {k: (None if o[k] is None else len(o[k])) for k in ("loc", "adj")}})
            if final != sb.state():
                bad.append({"what": "final cache files", "ops": ops})
            if sample is None:
                sample = {"ops": ops[:5], "sources": [o.get("source", o.get("err")) for o in mouts][:5]}
        finally:
            sb.set_state({"loc": None, "adj": None})
            sb.clean()
    return {"name": "cache-flow", "cases": evals, "distinct": len(distinct), "disagreements": bad, "distribution": dist, "sample": sample}


if __name__ == "__main__":
    import sys
    seed = int(sys.argv[1]) if len(sys.argv) > 1 else 0
    tier = sys.argv[2] if len(sys.argv) > 2 else "quick"
    for fn in (check_json, check_codec, check_flow):
        r = fn(seed, tier)
        print(r["name"], r["cases"], r["distinct"], json.dumps(r["distribution"])[:200], "disagreements:", len(r["disagreements"]))
        seen = set()
        for b in r["disagreements"]:
            k = (b["what"], str(b.get("diff"))[:40])
            if k in seen:
                continue
            seen.add(k)
            print("   ", json.dumps(b, default=str)[:600])

"""Byte-by-byte influence map (C20, the property's thorough-tier quantifier): for byte k of the volume directory, the SAR
leader, an image file's descriptor and its line prefixes, change that byte, re-open the product with the real
`open_alos2` and record WHICH output leaves (attributes / variables of the returned tree, bit-exact fingerprints) change.
The observed influence set is compared with the one the layout predicts:

  * byte k lies in the window of input field F (frozen layout spec: offsets / widths of `synth`'s leaves; bytes no field
    covers are construct `Padding`);
  * F is a spare / blank / reserved area (or anonymous padding): rewritten with content of its character class, NOTHING may
    change and the open may not fail;
  * F is a live field: the changed output leaves must be among the leaves the frozen provenance spec derives from F
    (`expect.expected_nodes(deps=...)` records which input fields each output leaf reads); an open that now fails is not a
    statement about padding (the new content may simply be malformed) and is counted, not judged;
  * F is structural (counts, lengths, record types, designators: they decide how the file is framed): counted, not judged.

Quick tier: a stratified random sample of byte positions; thorough: every byte position of the four files of one level-1.1 and
one level-1.5 product, in parallel worker processes.
"""
import json
import os
import random
import string

import expect
import products
import synth
import treecmp

PAD_PREFIXES = ("spare", "blanks", "blank", "reserved", "system_reserve", "local_use_segment")
PRINTABLE = (string.ascii_letters + string.digits + " .,-+_/:*#").encode()

# fields that decide how the files are framed / which layout or pipeline applies: their influence is not bounded by provenance
STRUCTURAL_SUFFIXES = (
    "number_of_sar_data_records", "sar_data_record_length", "number_of_lines_per_dataset", "number_of_data_groups_per_line",
    "sar_data_format_type_code", "number_of_points", "number_of_channels", "map_projection_designator",
    "number_of_file_pointer_records", "number_of_records", "record_length",
)


def is_padding(key):
    return any(seg.split("[")[0].startswith(PAD_PREFIXES) for seg in key.split(":")[-1].split("."))


def is_structural(key):
    last = key.split(":")[-1]
    return last.endswith(STRUCTURAL_SUFFIXES) or ".preamble." in "." + last or last.startswith("file_descriptor.")


# output leaves that read more input fields than the single field the provenance table names, by the format's definition
def extra_deps(prod, deps):
    for n, im in enumerate(prod.images):
        g = products.group_name(im)
        out = f"/imagery/{g}/sensor_acquisition_date_microseconds"
        if out in deps:
            # the µs stamp counts from midnight of the ms stamp's date (year, day of year)
            deps[out].update(f"IMG{n}:line[{i}]:sensor_acquisition_date" for i in range(im.n_lines))
    return deps


def field_map(prod):
    """per file: list of (start, stop, key, kind), plus the byte -> field index"""
    names = {"VOL": [k for k in prod.files if k.startswith("VOL")][0], "LED": [k for k in prod.files if k.startswith("LED")][0]}
    per_file = {names["VOL"]: [], names["LED"]: []}
    for im in prod.images:
        per_file[im.name] = []
    for key, leaf in expect.input_leaves(prod).items():
        if not isinstance(leaf, synth.Leaf) or leaf.off < 0 or not leaf.raw:
            continue
        if key.startswith("VOL:"):
            f, base = names["VOL"], 0
        elif key.startswith("LED:"):
            f, base = names["LED"], 0
        else:
            k = int(key[3:key.index(":")])
            im = prod.images[k]
            f = im.name
            base = 0 if ":hdr:" in key else 720 + int(key.split("line[")[1].split("]")[0]) * im.record_len
        per_file[f].append((base + leaf.off, base + leaf.off + len(leaf.raw), key, leaf.kind.split(":")[-1]))
    return per_file


def flat_leaves(tree):
    """output leaf -> canonical JSON text"""
    out = {}
    for e in treecmp.fingerprint_tree(tree, load_values=True, with_encoding=False):
        p = e["path"]
        out[p + "#members"] = json.dumps([sorted(e["coords"]), sorted(e["data_vars"])])
        for k, v in e["attrs"]:
            out[f"{p}@{k}"] = json.dumps(v, sort_keys=True)
        for name, var in e["vars"].items():
            out[f"{p.rstrip('/')}/{name}"] = json.dumps(var, sort_keys=True, default=str)
    return out


def candidates(rng, raw, j, kind, pad):
    """replacement contents for a field whose byte j must change, most conservative first"""
    old = raw[j]
    outs = []

    def put(b):
        if b != old:
            outs.append(raw[:j] + bytes([b]) + raw[j + 1:])

    if kind in ("uint", "bytes", "flag"):
        put(old ^ (1 << rng.randrange(8)))
        put(old ^ 0xFF)
    elif kind == "pstr":
        for _ in range(2):
            put(rng.choice(PRINTABLE))
    elif kind in ("aint", "afloat", "acomplex"):
        if chr(old).isdigit():
            put(ord(rng.choice([d for d in "0123456789" if d != chr(old)])))
        if pad:
            # a numeric spare may hold any NUMBER: regenerate the whole area until byte j differs
            n = len(raw)
            for _ in range(40):
                text = (synth.gen_int_text if kind == "aint" else synth.gen_float_text)(n if kind != "acomplex" else n // 2, rng)[0]
                new = synth.pad_text(text, n if kind != "acomplex" else n // 2, rng)
                if kind == "acomplex":
                    new = new + raw[n // 2:] if j < n // 2 else raw[:n // 2] + new
                if len(new) == n and new[j] != old:
                    outs.append(new)
                    break
        else:
            put(ord(rng.choice("0123456789")))
            put(ord(" "))
    else:
        put(old ^ 1)
    return outs


_W = {}


def _worker_init(cfg):
    import fsspec
    prod = products.build(cfg)
    fs = fsspec.filesystem("memory")
    root = f"/inf{os.getpid()}x{random.getrandbits(32):x}"
    synth.write_product(prod, root, fs=fs)
    _W.update(prod=prod, fs=fs, root=root)
    import ceos_alos2
    _W["open"] = lambda: ceos_alos2.open_alos2(f"memory://{root}", backend_options={"use_cache": False})
    _W["base"] = flat_leaves(_W["open"]())


def _probe(task):
    """task: (file name, field start, list of replacement contents) -> ("ok", changed leaves) | ("raise", text)"""
    fname, start, options = task
    fs, root, prod = _W["fs"], _W["root"], _W["prod"]
    orig = prod.files[fname]
    last = None
    for new in options:
        data = orig[:start] + new + orig[start + len(new):]
        with fs.open(f"{root}/{fname}", "wb") as f:
            f.write(data)
        try:
            got = flat_leaves(_W["open"]())
        except Exception as e:  # noqa: BLE001
            last = ("raise", f"{type(e).__name__}: {str(e)[:120]}")
            continue
        finally:
            with fs.open(f"{root}/{fname}", "wb") as f:
                f.write(orig)
        base = _W["base"]
        changed = sorted(k for k in set(base) | set(got) if base.get(k) != got.get(k))
        return ("ok", changed, new.hex())
    return last or ("raise", "no admissible replacement")


def _run_tasks(cfg, task_list, workers, per_task_budget=3.0):
    """probe every task; with several workers: independent SUBPROCESSES (one shard of the task list each, results through
    files) under a hard time limit — no process pool, no fork from a multi-threaded parent, nothing that can hang the check"""
    if workers <= 1 or len(task_list) < 2 * workers:
        _worker_init(cfg)
        try:
            return [_probe(t) for t in task_list]
        finally:
            _W["fs"].rm(_W["root"], recursive=True)
            _W.clear()
    import subprocess
    import sys
    import tempfile
    import common
    d = tempfile.mkdtemp(prefix="influence-", dir=common.SCRATCH)
    with open(os.path.join(d, "tasks.json"), "w") as f:
        json.dump({"cfg": cfg, "tasks": [[fn, st, [o.hex() for o in opts]] for fn, st, opts in task_list]}, f)
    procs = []
    for i in range(workers):
        procs.append(subprocess.Popen([sys.executable, os.path.abspath(__file__), "--shard", d, str(i), str(workers)],
                                      stdout=subprocess.DEVNULL, stderr=subprocess.PIPE))
    deadline = 120 + per_task_budget * (len(task_list) / workers)
    import time
    t0 = time.time()
    results = [("skip", "shard did not finish in time")] * len(task_list)
    for i, p_ in enumerate(procs):
        try:
            _, err = p_.communicate(timeout=max(5.0, deadline - (time.time() - t0)))
        except subprocess.TimeoutExpired:
            p_.kill()
            p_.communicate()
            continue
        out = os.path.join(d, f"out{i}.json")
        if p_.returncode == 0 and os.path.exists(out):
            with open(out) as f:
                for k, r in json.load(f):
                    results[k] = tuple(r)
        else:
            msg = (err or b"").decode("utf-8", "replace")[-300:]
            for k in range(i, len(task_list), workers):
                results[k] = ("skip", f"shard {i} failed (rc={p_.returncode}): {msg}")
    import shutil
    shutil.rmtree(d, ignore_errors=True)
    return results


def _shard_main(d, i, k):
    with open(os.path.join(d, "tasks.json")) as f:
        spec = json.load(f)
    cfg = spec["cfg"]
    cfg["images"] = [tuple(x) for x in cfg["images"]]
    _worker_init(cfg)
    out = []
    for idx in range(i, len(spec["tasks"]), k):
        fn, st, opts = spec["tasks"][idx]
        out.append([idx, list(_probe((fn, st, [bytes.fromhex(o) for o in opts])))])
    with open(os.path.join(d, f"out{i}.json"), "w") as f:
        json.dump(out, f)


def _tasks(rng, prod, per_file, positions):
    """positions: list of (file, byte index) -> list of (meta, task)"""
    out = []
    for fname, k in positions:
        fld = next((x for x in per_file[fname] if x[0] <= k < x[1]), None)
        if fld is None:
            # a member the synthesiser's value tree does not keep (a second `blanks` of the same struct): its class is not
            # recorded — printable text stays printable text, anything else may be any byte
            old = prod.files[fname][k]
            new = rng.choice([c for c in PRINTABLE if c != old]) if 0x20 <= old <= 0x7e else old ^ (1 << rng.randrange(8))
            out.append(({"file": fname[:3], "byte": k, "field": None, "class": "padding"}, (fname, k, [bytes([new])])))
            continue
        a, b, key, kind = fld
        pad = is_padding(key)
        cls = "padding" if pad else ("structural" if is_structural(key) else "live")
        opts = candidates(rng, prod.files[fname][a:b], k - a, kind, pad)
        if opts:
            out.append(({"file": fname[:3], "byte": k, "field": key, "class": cls}, (fname, a, opts)))
    return out


def sweep(cfg, rng, sample=None, workers=1):
    prod = products.build(cfg)
    per_file = field_map(prod)
    deps = {}
    expect.expected_nodes(prod, deps=deps)
    extra_deps(prod, deps)
    dependents = {}
    for out_leaf, ins in deps.items():
        for i in ins:
            dependents.setdefault(i, set()).add(out_leaf)
    positions = []
    for fname in per_file:
        im = next((i for i in prod.images if i.name == fname), None)
        for k in range(len(prod.files[fname])):
            if im is not None and k >= 720:
                # line prefixes only: the pixel area is the data variable's business (C02)
                off = (k - 720) % im.record_len
                if off >= im.prefix_len:
                    continue
            positions.append((fname, k))
    if sample is not None and sample < len(positions):
        # stratified: by file, so that the short image / volume files are not drowned by the leader
        by_file = {}
        for p in positions:
            by_file.setdefault(p[0], []).append(p)
        share = max(1, sample // len(by_file))
        positions = [p for ps in by_file.values() for p in rng.sample(ps, min(share, len(ps)))]
    tasks = _tasks(rng, prod, per_file, positions)
    # the unmodified product must open at all (in this process: a failure here is reported, not left to kill the workers)
    path, clean = products.place(prod, "memory")
    try:
        import ceos_alos2
        flat_leaves(ceos_alos2.open_alos2(path, backend_options={"use_cache": False}))
    except Exception as e:  # noqa: BLE001
        import common
        return [{"case": {"cfg": cfg}, "what": f"the unmodified product does not open: {type(e).__name__}: {str(e)[:200]}",
                 "key": common.failure_site(e)}], 1, {}
    finally:
        clean()
    results = _run_tasks(cfg, [t for _, t in tasks], workers)
    viol = []
    dist = {"padding": 0, "live": 0, "structural": 0, "live_rejected": 0, "live_changed_something": 0, "padding_anonymous": 0}
    for (meta, _), res in zip(tasks, results):
        dist[meta["class"]] += 1
        if meta["field"] is None:
            dist["padding_anonymous"] += 1
        if meta["class"] == "structural":
            continue
        if res[0] == "skip":
            # not evaluated (a worker shard ran out of time or died): no statement either way
            dist["not_evaluated"] = dist.get("not_evaluated", 0) + 1
            continue
        if res[0] == "raise":
            if meta["class"] == "padding":
                viol.append({"case": {"cfg": cfg, **meta}, "what": f"padding byte {meta['byte']} of {meta['file']} ({meta['field']}): open fails: {res[1]}", "key": None})
            else:
                dist["live_rejected"] += 1
            continue
        changed = res[1]
        allowed = set() if meta["class"] == "padding" else dependents.get(meta["field"], set())
        allowed_nodes = {a.split("@")[0] if "@" in a else a.rsplit("/", 1)[0] or "/" for a in allowed}
        bad = [c for c in changed if c not in allowed and not (c.endswith("#members") and c[:-8] in allowed_nodes)]
        if changed and meta["class"] == "live":
            dist["live_changed_something"] += 1
        if bad:
            viol.append({"case": {"cfg": cfg, **meta, "new_field_bytes": res[2]},
                         "what": f"byte {meta['byte']} of {meta['file']} (field {meta['field']}, {meta['class']}) changes {bad[:4]}"
                                 + ("" if meta["class"] == "padding" else f" — the layout allows only {sorted(allowed)[:4]}"),
                         "key": None})
    return viol, len(tasks), dist


def check(seed, tier):
    rng = random.Random(seed + 2020)
    viol, evals, dists = [], 0, {}
    workers = min(16, os.cpu_count() or 1) if tier != "quick" else 4
    for level in ("1.5", "1.1"):
        cfg = {"seed": rng.randrange(10**9), "level": level, "images": [("HH", None)], "n_lines": 2, "n_pixels": 2,
               "n_att": rng.choice([1, 2, 3]), "n_chan": rng.choice([1, 2, 3]), "n_fileptr": rng.choice([1, 2, 3]),
               "mapproj": (rng.choice(["UTM", "UPS", "LCC", "MER"]) if level == "1.5" else None), "blank_prob": 0.0}
        v, n, d = sweep(cfg, rng, sample=(160 if tier == "quick" else None), workers=workers)
        viol += v
        evals += n
        dists[level] = d
    return {"name": "oracle:C20 byte influence map", "evaluations": evals, "distinct": evals, "violations": viol,
            "samples": [{"distribution": dists}]}


if __name__ == "__main__":
    import sys
    if len(sys.argv) > 1 and sys.argv[1] == "--shard":
        _shard_main(sys.argv[2], int(sys.argv[3]), int(sys.argv[4]))
        sys.exit(0)
    r = check(int(sys.argv[1]) if len(sys.argv) > 1 else 0, sys.argv[2] if len(sys.argv) > 2 else "quick")
    print(r["evaluations"], r["samples"], "violations", len(r["violations"]))
    seen = set()
    for v in r["violations"]:
        k = (v["case"].get("field") or "").split("[")[0] + v["what"][-60:]
        if k in seen:
            continue
        seen.add(k)
        print(v["what"][:400])

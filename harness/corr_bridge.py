"""Correspondence (H11): `caching.encode(open_image(mapper, name, use_cache=False, records_per_chunk=rpc))` of the real code vs
the Lean `encodeImage` (`Model/Bridge.lean`: the layout-based reader's image group seen as the object the cache codec works on,
then `encodeDoc`), on synthesised image files (both levels, blanked header fields, special values, damaged files).

Float tokens of the model are markers (`!f:<text>`, `!fm:<text>*<factor>`, `!im:<int>*<factor>`): the arithmetic and `repr`
are CPython's and are evaluated here (the contract `FloatRepr` of the bridge)."""
import json
import math
import random

import fsspec

import synth
from common import err_name, run_model


def wire_to_py(w):
    if "n" in w:
        return None
    if "b" in w:
        return bool(w["b"])
    if "i" in w:
        return int(w["i"])
    if "f" in w:
        t = w["f"]
        if t.startswith("!f:"):
            return float(t[3:])
        if t.startswith("!fm:"):
            a, b = t[4:].rsplit("*", 1)
            return float(a) * float(b)
        if t.startswith("!im:"):
            a, b = t[4:].rsplit("*", 1)
            return int(a) * float(b)
        return float(t)
    if "s" in w:
        return w["s"]
    if "l" in w:
        return [wire_to_py(x) for x in w["l"]]
    if "t" in w:
        return tuple(wire_to_py(x) for x in w["t"])
    if "d" in w:
        return {k: wire_to_py(v) for k, v in w["d"]}
    raise ValueError(w)


def same(a, b, path=""):
    """None if equal (types, dict order, float bits up to NaN payload); else where they differ"""
    if isinstance(a, float) and isinstance(b, float):
        if (math.isnan(a) and math.isnan(b)) or repr(a) == repr(b):
            return None
        return f"{path}: {a!r} vs {b!r}"
    if type(a) is not type(b):
        return f"{path}: {type(a).__name__} {str(a)[:60]!r} vs {type(b).__name__} {str(b)[:60]!r}"
    if isinstance(a, dict):
        if list(a) != list(b):
            return f"{path}: keys {list(a)[:8]} vs {list(b)[:8]}"
        for k in a:
            d = same(a[k], b[k], f"{path}/{k}")
            if d:
                return d
        return None
    if isinstance(a, (list, tuple)):
        if len(a) != len(b):
            return f"{path}: length {len(a)} vs {len(b)}"
        for i, (x, y) in enumerate(zip(a, b)):
            d = same(x, y, f"{path}[{i}]")
            if d:
                return d
        return None
    return None if a == b else f"{path}: {a!r} vs {b!r}"


def real_encode(data, name, rpc):
    from ceos_alos2.sar_image import caching, open_image
    fs = fsspec.filesystem("memory")
    root = "/br" + format(random.getrandbits(40), "x")
    with fs.open(f"{root}/{name}", "wb") as f:
        f.write(data)
    try:
        mapper = fsspec.get_mapper(f"memory://{root}")
        g = open_image(mapper, name, use_cache=False, records_per_chunk=rpc)
        fs_root = g["data"].data.fs.path
        text = caching.encode(g)
        return {"ok": json.loads(text), "root": fs_root}, root
    except Exception as e:  # noqa: BLE001
        return {"err": err_name(e), "msg": str(e)[:100]}, root
    finally:
        fs.rm(root, recursive=True)


def gen_cases(seed, tier):
    import corr_array
    rng = random.Random(seed + 1111)
    layouts, required = corr_array._spec()
    cases = []
    for _ in range(14 if tier == "quick" else 160):
        level = rng.choice(["1.1", "1.5"])
        n, m = rng.randint(1, 6), rng.randint(1, 3)
        pol = rng.choice(["HH", "HV", "VH", "VV"])
        scan = rng.choice([None, None, ("F", rng.randint(1, 5))])
        im = synth.build_image(layouts, required, rng, level, pol, scan, n, m, "WWDR1.5RUA" if level != "1.1" else "WWDR1.1__A",
                               blank_prob=rng.choice([0.0, 0.0, 0.5, 1.0]), vary_constants=rng.random() < 0.3)
        rpc = rng.choice([1, 2, 3, 1024])
        cases.append((bytes(im.data), im.name, rpc, "intact"))
        d = im.data
        for _ in range(1 if tier == "quick" else 2):
            kind = rng.choice(["truncate", "flip-header", "flip-line", "name"])
            if kind == "truncate":
                cases.append((bytes(d[:rng.randrange(len(d))]), im.name, rpc, kind))
            elif kind == "flip-header":
                i = rng.randrange(720)
                cases.append((bytes(d[:i]) + bytes([d[i] ^ (1 << rng.randrange(8))]) + bytes(d[i + 1:]), im.name, rpc, kind))
            elif kind == "flip-line":
                i = 720 + rng.randrange(min(len(d) - 720, im.record_len))
                cases.append((bytes(d[:i]) + bytes([d[i] ^ (1 << rng.randrange(8))]) + bytes(d[i + 1:]), im.name, rpc, kind))
            else:
                cases.append((bytes(d), rng.choice(["IMG-XX-" + im.name[7:], im.name[:-1], "LED-" + im.name[4:], im.name + "-Z9"]), rpc, kind))
    return cases


def check(seed, tier):
    cases = gen_cases(seed, tier)
    reals = []
    for data, name, rpc, _ in cases:
        r, _root = real_encode(data, name, rpc)
        reals.append(r)
    ops = [{"op": "encode_image", "root": r.get("root", "/x"), "file": data.hex(), "name": name, "rpc": rpc}
           for (data, name, rpc, _), r in zip(cases, reals)]
    outs = run_model(ops)
    bad, dist = [], {"ok": 0, "err": {}, "kinds": {}, "leaves_compared": 0}
    for (data, name, rpc, kind), r, m in zip(cases, reals, outs):
        dist["kinds"][kind] = dist["kinds"].get(kind, 0) + 1
        if "ok" in r:
            dist["ok"] += 1
            if "ok" not in m:
                bad.append({"kind": kind, "name": name, "rpc": rpc, "real": "ok", "model": str(m)[:200], "file": data.hex()})
                continue
            d = same(wire_to_py(m["ok"]), r["ok"])
            dist["leaves_compared"] += json.dumps(r["ok"]).count(",")
            if d:
                bad.append({"kind": kind, "name": name, "rpc": rpc, "diff": d[:300], "file": data.hex()})
        else:
            dist["err"][r["err"]] = dist["err"].get(r["err"], 0) + 1
            if m.get("err") != r["err"] and not (r["err"] == "ValueError" and "!invalid:" in str(m)):
                bad.append({"kind": kind, "name": name, "rpc": rpc, "real": r, "model": str(m)[:200], "file": data.hex()})
    return {"name": "encode(open_image) bridge", "cases": len(cases), "distinct": len(cases), "disagreements": bad, "distribution": dist,
            "sample": {"kinds": dist["kinds"]}}


if __name__ == "__main__":
    import sys
    r = check(int(sys.argv[1]) if len(sys.argv) > 1 else 0, sys.argv[2] if len(sys.argv) > 2 else "quick")
    print(r["cases"], r["distribution"], "disagreements", len(r["disagreements"]))
    seen = set()
    for b in r["disagreements"]:
        b.pop("file", None)
        k = str(b.get("diff") or b.get("real"))[:50]
        if k in seen:
            continue
        seen.add(k)
        print(json.dumps(b, default=str)[:500])

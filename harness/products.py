"""Put synthesised products on the filesystems the properties quantify over, and build in-memory twins."""
import os
import shutil
import tempfile
import uuid

import numpy as np

import common
import synth

_LAY = None


def spec():
    global _LAY
    if _LAY is None:
        _LAY = (synth.load_layouts(), synth.load_required())
    return _LAY


def build(cfg):
    lay, req = spec()
    return synth.build_product(cfg, lay, req)


def place(product, kind):
    """returns (path to pass to open_alos2, cleanup function)"""
    import fsspec

    if kind in ("local", "file", "local-unicode"):
        d = tempfile.mkdtemp(prefix="prod-" if (kind != "local-unicode" or common.FS_ASCII) else "prod-donn\u00e9es-\u65e5\u672c-", dir=common.SCRATCH)
        synth.write_product(product, d)
        path = "file://" + d if kind == "file" else d
        return path, lambda: shutil.rmtree(d, ignore_errors=True)
    if kind in ("memory", "tracemem"):
        if kind == "tracemem":
            common.register_trace_protocol()
        fs = fsspec.filesystem(kind)
        root = "/p" + uuid.uuid4().hex[:10]
        synth.write_product(product, root, fs=fs)
        return f"{kind}://{root}", lambda: fs.rm(root, recursive=True)
    raise ValueError(kind)


def twin(image):
    """the in-memory array an image file encodes (bit-exact)"""
    if image.type_code == "C*8":
        flat = np.array([v for row in image.samples for pair in row for v in pair], dtype="<u4")
        return flat.view("<f4").view("complex64").reshape(image.n_lines, image.n_pixels)
    return np.array(image.samples, dtype="uint16").reshape(image.n_lines, image.n_pixels)


def bits(a):
    a = np.ascontiguousarray(np.asarray(a))
    if a.dtype.kind == "c":
        return a.astype("complex64").view("<u4")
    return a.astype("uint16")


def same_bits(a, b):
    a, b = np.asarray(a), np.asarray(b)
    if a.shape != b.shape:
        return False
    if a.dtype.kind != b.dtype.kind:
        return False
    return bool(np.array_equal(bits(a), bits(b)))


def group_name(image):
    return image.pol + (f"_scan{image.scan[1]}" if image.scan else "")

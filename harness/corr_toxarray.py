"""Correspondence (H10): the name-level behaviour of `ceos_alos2.xarray.to_dataset` / `decode_coords` (which variables become
coordinates, which stay data variables, which attributes remain) vs the Lean model `toDatasetNames` (Model/ToXarray.lean)."""
import random

import numpy as np

from common import run_model

NAMES = ["data", "rows", "time", "a", "ab", "abc", "data_record_window_position", "slant_range_to_first_data_sample", "x", "y", "coordinates", "ti"]


def gen_cases(seed, tier):
    rng = random.Random(seed + 51)
    cases = []
    for _ in range(60 if tier == "quick" else 1500):
        vars_ = rng.sample(NAMES, rng.randint(0, 7))
        r = rng.random()
        attrs = [[rng.choice(["units", "note", "k" + str(i)]) + str(i), "v"] for i in range(rng.randint(0, 3))]
        if r < 0.75:
            pool = vars_ if rng.random() < 0.8 else vars_ + [rng.choice(NAMES)]
            coords = rng.sample(pool, rng.randint(0, len(pool))) if pool else []
            attrs.insert(rng.randint(0, len(attrs)), ["coordinates", coords])
        cases.append((vars_, attrs))
    return cases


def real(vars_, attrs):
    from ceos_alos2.hierarchy import Group, Variable
    from ceos_alos2.xarray import to_dataset
    g = Group(path="/", url=None, data={v: Variable(["d"], np.arange(3), {}) for v in vars_}, attrs={k: v for k, v in attrs})
    try:
        ds = to_dataset(g)
        return {"ok": {"data_vars": list(ds.data_vars), "coords": [c for c in ds.coords], "attrs": list(ds.attrs)}}
    except Exception:  # noqa: BLE001
        return {"err": "missing"}


def check(seed, tier):
    cases = gen_cases(seed, tier)
    outs = run_model([{"op": "to_dataset", "vars": v, "attrs": a} for v, a in cases])
    bad, dist = [], {"ok": 0, "err": 0}
    for (v, a), m in zip(cases, outs):
        r = real(v, a)
        dist["ok" if "ok" in r else "err"] += 1
        if "ok" in r and "ok" in m:
            same = (sorted(r["ok"]["data_vars"]) == sorted(m["ok"]["data_vars"]) and sorted(r["ok"]["coords"]) == sorted(m["ok"]["coords"])
                    and sorted(r["ok"]["attrs"]) == sorted(m["ok"]["attrs"]))
        else:
            same = r == m
        if not same:
            bad.append({"vars": v, "attrs": a, "real": r, "model": m})
    return {"name": "to_dataset names", "cases": len(cases), "distinct": len({str(c) for c in cases}), "disagreements": bad, "distribution": dist,
            "sample": {"vars": cases[0][0], "attrs": cases[0][1]}}


if __name__ == "__main__":
    import sys
    r = check(int(sys.argv[1]) if len(sys.argv) > 1 else 0, sys.argv[2] if len(sys.argv) > 2 else "quick")
    print(r["cases"], r["distribution"], "disagreements", len(r["disagreements"]))
    for b in r["disagreements"][:5]:
        print(b)

"""Correspondence (H2): the real `transform_*` / `extract_attrs` functions of /repo applied to parsed records
vs the Lean pipelines (`Model/Transform.lean` over `Model/Dict.lean`, configured by the regenerated `Gen/Config.lean`)."""
import datetime
import json
import random

import numpy as np

import corr_construct
import synth
from common import err_name, run_model


def canon_py(obj):
    """Group / Variable / containers -> the same JSON shape the Lean driver prints, with python leaves kept"""
    from ceos_alos2.hierarchy import Group, Variable

    if isinstance(obj, Group):
        return {"vars": [[k, {"dims": list(v.dims) if not isinstance(v.dims, str) else [v.dims], "data": v.data, "attrs": v.attrs}]
                         for k, v in obj.variables.items()],
                "groups": [[k, canon_py(g)] for k, g in obj.groups.items()],
                "attrs": obj.attrs, "_order": [k for k in obj.data]}
    return obj


COMPOSITE = "!composite:"
FIXTIME = "!fixtime:"


def composite_reference(marker):
    """the contract behind the model's composite-datetime leaf: `strptime` of the blank-separated date text plus
    `timedelta(seconds=float(token))` (CPython); returns the ISO text or 'raises:<class>'"""
    date, tok = marker[len(COMPOSITE):].rsplit("|", 1)
    try:
        d = datetime.datetime.strptime("-".join(date.split()), "%Y-%m-%d")
        return (d + datetime.timedelta(seconds=float(tok))).isoformat()
    except Exception as e:  # noqa: BLE001
        return "raises:" + err_name(e)


def composite_raises(m, err):
    """does the model output hold a composite leaf whose reference evaluation raises `err`?"""
    import re
    return any(composite_reference(x.encode().decode("unicode_escape") if "\\" in x else x) == "raises:" + err
               for x in re.findall(r"!composite:[^\"']*", json.dumps(m)))


def match(m, py, path=""):
    """model JSON (pvalJson) vs python value; None if equal"""
    if isinstance(py, np.ndarray):
        py = [np.datetime64(int(x), "ns") for x in py.astype("datetime64[ns]").astype("int64")] if py.dtype.kind == "M" else py.tolist()
    if "s" in m and isinstance(m["s"], str) and m["s"].startswith(FIXTIME):
        # fix_attitude_time: 1 January of the year of the first-point ISO text + the timedelta (ns)
        first, ns = m["s"][len(FIXTIME):].rsplit("#", 1)
        iso = composite_reference(first)
        if iso.startswith("raises:"):
            return f"{path}: first point not evaluable ({iso})"
        want = np.datetime64(f"{iso[:4]}-01-01", "ns") + np.timedelta64(int(ns), "ns")
        ok = isinstance(py, np.datetime64) and py.astype("datetime64[ns]") == want
        return None if ok else f"{path}: attitude time {want} vs {py!r}"
    if "s" in m and isinstance(m["s"], str) and m["s"].startswith(COMPOSITE):
        want = composite_reference(m["s"])
        return None if (isinstance(py, str) and want == py) else f"{path}: composite datetime {want!r} vs {py!r}"
    if "u" in m:
        if not isinstance(py, tuple) or len(py) != len(m["u"]):
            return f"{path}: tuple mismatch model {len(m['u'])} vs {type(py).__name__}"
        for i, (a, b) in enumerate(zip(m["u"], py)):
            r = match(a, b, f"{path}({i})")
            if r:
                return r
        return None
    if "l" in m:
        if not isinstance(py, list) or len(py) != len(m["l"]):
            return f"{path}: list mismatch ({len(m['l'])} vs {py!r:.60})"
        for i, (a, b) in enumerate(zip(m["l"], py)):
            r = match(a, b, f"{path}[{i}]")
            if r:
                return r
        return None
    if "d" in m:
        if not isinstance(py, dict) or [kv[0] for kv in m["d"]] != list(py.keys()):
            return f"{path}: dict keys {[kv[0] for kv in m['d']][:5]} vs {list(py)[:5] if isinstance(py, dict) else type(py).__name__}"
        for k, v in m["d"]:
            r = match(v, py[k], path + "." + k)
            if r:
                return r
        return None
    if "t" in m and isinstance(py, np.datetime64):
        return None if int(py.astype("datetime64[ns]").astype("int64")) == int(m["t"]) else f"{path}: datetime"
    if "i" in m and isinstance(py, (int, np.integer)) and not isinstance(py, bool):
        return None if int(py) == int(m["i"]) else f"{path}: int {m['i']} vs {py}"
    if "m" in m:  # a Metadata pair surviving as (value, attrs)
        return corr_construct.match(m, py, path)
    return corr_construct.match(m, py, path)


def match_kvs(mkvs, pyd, path):
    if [kv[0] for kv in mkvs] != list(pyd.keys()):
        return f"{path}: keys {[kv[0] for kv in mkvs][:6]} vs {list(pyd)[:6]}"
    for k, v in mkvs:
        r = match(v, pyd[k], f"{path}.{k}")
        if r:
            return r
    return None


def match_group(m, g, path=""):
    if [v[0] for v in m["vars"]] != [v[0] for v in g["vars"]]:
        return f"{path}: variables {[v[0] for v in m['vars']][:6]} vs {[v[0] for v in g['vars']][:6]}"
    if [v[0] for v in m["groups"]] != [v[0] for v in g["groups"]]:
        return f"{path}: groups {[v[0] for v in m['groups']]} vs {[v[0] for v in g['groups']]}"
    if [v[0] for v in m["vars"]] + [v[0] for v in m["groups"]] != g["_order"]:
        return f"{path}: member order"
    r = match_kvs(m["attrs"], g["attrs"], path + "@")
    if r:
        return r
    for (k, mv), (_, gv) in zip(m["vars"], g["vars"]):
        if mv["dims"] != gv["dims"]:
            return f"{path}/{k}: dims {mv['dims']} vs {gv['dims']}"
        r = match(mv["data"], gv["data"], f"{path}/{k}") or match_kvs(mv["attrs"], gv["attrs"], f"{path}/{k}@")
        if r:
            return r
    for (k, mg), (_, gg) in zip(m["groups"], g["groups"]):
        r = match_group(mg, gg, f"{path}/{k}")
        if r:
            return r
    return None


def has_invalid(m):
    return "!invalid:" in str(m)


def real(what, data, n=None):
    from ceos_alos2.utils import to_dict
    recs = corr_construct.live_records()
    import construct
    from ceos_alos2.sar_leader import structure as S

    try:
        if what == "volume":
            from ceos_alos2.volume_directory.metadata import transform_record
            return {"ok": transform_record(to_dict(recs["volume_directory_record"].parse(data))).attrs, "kind": "kvs"}
        if what == "header":
            from ceos_alos2.sar_image.metadata import extract_attrs
            return {"ok": extract_attrs(to_dict(recs["image_file_descriptor"].parse(data))), "kind": "kvs"}
        if what in ("lines10", "lines11"):
            from ceos_alos2.sar_image.metadata import transform_line_metadata
            rec = recs["signal_data_record" if what == "lines10" else "processed_data_record"]
            return {"ok": canon_py(transform_line_metadata(to_dict(list(rec[n].parse(data))))), "kind": "grp"}
        if what == "leader":
            from ceos_alos2.sar_leader.metadata import transform_metadata
            return {"ok": canon_py(transform_metadata(to_dict(S.sar_leader_record.parse(data)))), "kind": "grp"}
        table = {
            "dataset_summary": ("dataset_summary_record", "ceos_alos2.sar_leader.dataset_summary", "transform_dataset_summary"),
            "radiometric": ("radiometric_data_record", "ceos_alos2.sar_leader.radiometric_data", "transform_radiometric_data"),
            "dqs": ("data_quality_summary_record", "ceos_alos2.sar_leader.data_quality_summary", "transform_data_quality_summary"),
            "record5": ("facility_related_data_5_record", "ceos_alos2.sar_leader.facility_related_data", "transform_record5"),
            "platform_position": ("platform_position_record", "ceos_alos2.sar_leader.platform_position", "transform_platform_position"),
            "map_projection": ("map_projection_record", "ceos_alos2.sar_leader.map_projection", "transform_map_projection"),
            "attitude": ("attitude_record", "ceos_alos2.sar_leader.attitude", "transform_attitude"),
        }
        rname, modname, fname = table[what]
        import importlib
        mod = importlib.import_module(modname)
        parsed = to_dict(getattr(S, rname).parse(data))
        return {"ok": canon_py(getattr(mod, fname)(parsed)), "kind": "grp"}
    except Exception as e:  # noqa: BLE001
        return {"err": err_name(e), "msg": str(e)[:100]}


def sub(tree_ir, path):
    cur = tree_ir
    for p in path:
        cur = [c for n, c in cur["fields"] if n == p][0]
    return cur


def gen_cases(seed, tier):
    rng = random.Random(seed + 23)
    lay, req = synth.load_layouts(), synth.load_required()
    leader = lay["sar_leader_record"]
    parts = {
        "dataset_summary": (sub(leader, ["dataset_summary"]), "dataset_summary."),
        "radiometric": (sub(leader, ["radiometric_data"]), "radiometric_data."),
        "dqs": (sub(leader, ["data_quality_summary"]), "data_quality_summary."),
        "record5": (sub(leader, ["facility_related_data_5"]), "facility_related_data_5."),
        "platform_position": (sub(leader, ["platform_position"]), "platform_position."),
        "map_projection": (sub(leader, ["map_projection"])["elem"], "map_projection[]."),
        "attitude": (sub(leader, ["attitude"]), "attitude."),
    }
    cases = []
    k = 6 if tier == "quick" else 60
    for what, (ir, prefix) in parts.items():
        r = {key[len(prefix):]: v for key, v in req["sar_leader_record"].items() if key.startswith(prefix)}
        for _ in range(k):
            ov = {"number_of_channels": rng.randint(1, 16)} if what == "dqs" else {}  # 0 channels is inadmissible (transform_relative raises)
            if what == "attitude":
                npts = rng.choice([1, 1, 2, 3, 5, 8, 22])  # 0 points is inadmissible (transform_nested leaves an empty list)
                ov = {"number_of_points": npts, "preamble.record_length": 16 + npts * 120 + rng.choice([0, 8, 100])}
            if what == "map_projection" and rng.random() < 0.4:  # designators outside the table / in other spellings / without '-'
                ov = {"map_projection_designator": rng.choice(["utm-x", "Ups-PROJECTION", "LCC-", "mer-CATOR", "XYZ-PROJECTION", "-", "UTM", "", "UTM PROJECTION", "lcc-a-b"])}
            if what == "platform_position" and _ < 2:  # a stamp inside a leap second / beyond the day: the carry goes into the date (and the year)
                ov = {"datetime_of_first_point.date": ["2016 12 31", "2015 06 30"][_], "datetime_of_first_point.seconds_of_day": ["86400.75", "8.640000000000000E+04"][_]}
            elif what == "platform_position" and rng.random() < 0.5:  # date / seconds shapes incl. invalid ones and half-microsecond ties
                ov = {"datetime_of_first_point.date": rng.choice(["2019 10 11", "2020  2 29", "2019 02 29", "2019-10-11", "20191011", "", "2016 12 31"]),
                      "datetime_of_first_point.seconds_of_day": rng.choice(["86399.999", "8.639999900000000E+04", "0.0000005", "1.0000015", "12.3456785", "-1", "1e5", "nan", "inf", ""])}
            data, _, _ = synth.Builder(rng, overrides=ov, required=r, blank_prob=rng.choice([0, 0.2, 0.8]), unknown_enum_prob=0.1).build(ir)
            cases.append((what, data, None))
    import oracle_tree
    import products
    for _ in range(k):  # whole leader files through transform_metadata (record selection, renames, attitude time fix-up)
        cfg = oracle_tree.random_cfg(rng, tier, n_lines=1, n_pixels=1, images=[("HH", None)])
        cfg["n_att"] = rng.choice([1, 2, 5, 22])
        if rng.random() < 0.35:
            cfg["leader_overrides"] = {"platform_position.datetime_of_first_point.date": rng.choice(["2016 12 31", "2019 12 31", "2020 02 28"]),
                                       "platform_position.datetime_of_first_point.seconds_of_day": rng.choice(["86400.5", "86399.999", "172800"])}
        prod = products.build(cfg)
        cases.append(("leader", [v for n_, v in prod.files.items() if n_.startswith("LED")][0], None))
    for _ in range(k):
        ov = {"volume_descriptor.number_of_file_pointer_records": rng.randint(0, 5)}
        if rng.random() < 0.2:
            ov["volume_descriptor.logical_volume_creation_datetime"] = rng.choice(["2019101114431552", "abc", "2019022900000000", "2020022923595999"])  # canonical shapes only: strptime backtracking on shorter digit strings is not modelled
        data, _, _ = synth.Builder(rng, overrides=ov, required=req["volume_directory_record"], blank_prob=rng.choice([0, 0.3])).build(lay["volume_directory_record"])
        cases.append(("volume", data, None))
        ho = {}
        data, _, _ = synth.Builder(rng, overrides=ho, required=req["image_file_descriptor"], blank_prob=rng.choice([0, 0.3, 0.9])).build(lay["image_file_descriptor"])
        if rng.random() < 0.3:  # a zero in an optional header field is a value, not "missing"
            d = bytearray(data)
            d[448:452] = b"   0"
            data = bytes(d)
        cases.append(("header", data, None))
    for level, what, key in (("1.1", "lines10", "signal_data_record"), ("1.5", "lines11", "processed_data_record")):
        for _ in range(k):
            n = rng.choice([1, 2, 3, 5])
            im = synth.build_image(lay, req, rng, level, "HH", None, n, rng.randint(0, 2), "WWDR1.5RUA", vary_constants=rng.random() < 0.5)
            cases.append((what, im.data[720:], n))
    return cases


def check(seed, tier):
    cases = gen_cases(seed, tier)
    ops = [{"op": "transform", "what": w, "data": d.hex(), **({"n": n} if n is not None else {})} for w, d, n in cases]
    outs = run_model(ops)
    bad, dist, distinct = [], {"ok": 0, "err": {}, "per": {}}, set()
    sample = None
    for (w, d, n), m in zip(cases, outs):
        r = real(w, d, n)
        dist["per"][w] = dist["per"].get(w, 0) + 1
        distinct.add((w, d))
        if "ok" in r:
            dist["ok"] += 1
            if "ok" not in m:
                bad.append({"what": w, "real": "ok", "model": str(m)[:200]})
                continue
            diff = match_kvs(m["ok"], r["ok"], w) if r["kind"] == "kvs" else match_group(m["ok"], r["ok"], w)
            if diff:
                bad.append({"what": w, "diff": diff, "n": n, "data": d.hex()[:400]})
            elif sample is None and w == "header":
                sample = {"what": w, "result": {k: repr(v) for k, v in r["ok"].items()}}
        else:
            dist["err"][r["err"]] = dist["err"].get(r["err"], 0) + 1
            if (not ("parse-err" in m and m["parse-err"] == r["err"]) and not (r["err"] == "ValueError" and has_invalid(m))
                    and not composite_raises(m, r["err"]) and not (r["err"] == "ValueError" and "uninterpreted" in m and w == "map_projection")):
                bad.append({"what": w, "real": r, "model": str(m)[:200]})
    return {"name": "transformers", "cases": len(cases), "distinct": len(distinct), "disagreements": bad, "distribution": dist,
            "sample": sample or {"what": cases[0][0]}}


if __name__ == "__main__":
    import json
    import sys
    r = check(int(sys.argv[1]) if len(sys.argv) > 1 else 0, sys.argv[2] if len(sys.argv) > 2 else "quick")
    print(r["cases"], r["distribution"])
    print("disagreements", len(r["disagreements"]))
    seen = set()
    for b in r["disagreements"]:
        k = (b["what"], str(b.get("diff"))[:50], str(b.get("real"))[:50])
        if k in seen:
            continue
        seen.add(k)
        b.pop("data", None)
        print(json.dumps(b, default=str)[:500])

"""Correspondence (H6): decoders.py / summary.py / filename_to_groupname vs the Lean models on the regenerated
regular expressions and tables."""
import datetime
import itertools
import math
import random

from common import err_name, run_model


# ---------------------------------------------------------------------------------------------
def tables():
    from ceos_alos2 import decoders as d
    return d


def all_product_ids():
    d = tables()
    for parts in itertools.product(d.observation_modes, d.observation_directions, d.processing_levels,
                                   d.processing_options, d.map_projections, d.orbit_directions):
        yield "".join(parts)


def canon_decoded(res):
    out = []
    for k, v in res.items():
        if isinstance(v, datetime.datetime):
            v = v.isoformat().split("T")[0]
        out.append([k, v])
    return out


def real_decode(fn, s):
    from ceos_alos2 import decoders
    from ceos_alos2.sar_image import filename_to_groupname
    try:
        if fn == "groupname":
            return {"ok": filename_to_groupname(s)}
        f = {"scene_id": decoders.decode_scene_id, "product_id": decoders.decode_product_id,
             "scan_info": decoders.decode_scan_info, "filename": decoders.decode_filename}[fn]
        return {"ok": canon_decoded(f(s))}
    except Exception as e:  # noqa: BLE001
        return {"err": err_name(e)}


def mutate(rng, s):
    if not s:
        return "X"
    r = rng.random()
    i = rng.randrange(len(s))
    alphabet = "ABCDEFGHIJKLMNOPQRSTUVWXYZ0123456789._-abcµ \uff12\u0663\u096b\u0412"  # incl. non-ASCII decimal digits / look-alikes
    if r < 0.4:
        return s[:i] + rng.choice(alphabet) + s[i + 1:]
    if r < 0.6:
        return s[:i] + s[i + 1:]
    if r < 0.8:
        return s[:i] + rng.choice(alphabet) + s[i:]
    return s + rng.choice(["X", "-F1", " ", "\n", "0"])


def rand_scene(rng):
    mission = "".join(rng.choice("ABCDEFGHIJKLMNOPQRSTUVWXYZ0123456789") for _ in range(5))
    yy = rng.choice([14, 19, 20, 24, 30, 49, 0, 75, 76, 99])
    mm = rng.choice([1, 2, 12, rng.randint(1, 12), 0, 13])
    dd = rng.choice([1, 28, 29, 30, 31, 0, 32, rng.randint(1, 28)])
    return f"{mission}{rng.randint(0, 99999):05d}{rng.randint(0, 9999):04d}-{yy:02d}{mm:02d}{dd:02d}"


def gen_decode_cases(seed, tier):
    rng = random.Random(seed + 15)
    d = tables()
    cases = []
    pids = list(all_product_ids())
    for p in (pids if tier != "quick" else rng.sample(pids, 400)):
        cases.append(("product_id", p))
    for _ in range(200 if tier == "quick" else 3000):
        cases.append(("product_id", mutate(rng, rng.choice(pids))))
        cases.append(("scene_id", rand_scene(rng)))
        cases.append(("scene_id", mutate(rng, rand_scene(rng))))
    for a in "BFXbf":
        for b in "0123456789a-":
            cases.append(("scan_info", a + b))
    cases += [("scan_info", None), ("scan_info", ""), ("scan_info", "F10"), ("scan_info", "F")]
    pols = ["HH", "HV", "VH", "VV", None]
    for _ in range(300 if tier == "quick" else 6000):
        ft = rng.choice(["IMG", "LED", "VOL", "TRL", "img", "IM"])
        pol = rng.choice(pols)
        scan = rng.choice([None, None, "F1", "B7", "F0", "X1"])
        name = ft + (f"-{pol}" if pol else "") + "-" + rand_scene(rng) + "-" + rng.choice(pids) + (f"-{scan}" if scan else "")
        if rng.random() < 0.3:
            name = mutate(rng, name)
        cases.append(("filename", name))
        cases.append(("groupname", name))
    if tier != "quick":
        # every (polarisation, scan) combination: group names must be unique
        for pol in ["HH", "HV", "VH", "VV"]:
            for scan in [None] + [m + str(n) for m in "BF" for n in range(10)]:
                cases.append(("groupname", "IMG-" + pol + "-ALOS2290760600-191011-" + pids[0] + (f"-{scan}" if scan else "")))
    return cases


def check_decoders(seed, tier):
    cases = gen_decode_cases(seed, tier)
    outs = run_model([{"op": "decode", "fn": fn, "s": s} for fn, s in cases])
    bad, dist, distinct = [], {"ok": 0, "err": 0, "per": {}}, set()
    sample = None
    for (fn, s), m in zip(cases, outs):
        r = real_decode(fn, s)
        distinct.add((fn, s))
        dist["per"][fn] = dist["per"].get(fn, 0) + 1
        dist["ok" if "ok" in r else "err"] += 1
        if r != m:
            bad.append({"fn": fn, "s": s, "real": r, "model": m})
        elif sample is None and fn == "filename" and "ok" in r:
            sample = {"fn": fn, "s": s, "decoded": r["ok"][:6]}
    return {"name": "decoders", "cases": len(cases), "distinct": len(distinct), "disagreements": bad, "distribution": dist, "sample": sample}


# ---------------------------------------------------------------------------------------------
# summary


def canon_sval(v):
    if isinstance(v, bool):
        return {"other": repr(v)}
    if isinstance(v, int):
        return {"i": str(v)}
    if isinstance(v, float):
        return {"fv": v}
    if isinstance(v, str):
        return {"s": v}
    if isinstance(v, tuple):
        return {"ints": [str(x) for x in v]}
    if isinstance(v, list):
        return {"texts": list(v)}
    return {"other": repr(v)}


def real_summary(text):
    from ceos_alos2.hierarchy import Group
    from ceos_alos2.summary import parse_summary, transform_summary
    try:
        raw = parse_summary(text)
    except BaseException as e:  # noqa: BLE001 (ExceptionGroup)
        if type(e).__name__ == "ExceptionGroup":
            lines = []
            for sub in e.exceptions:
                lines.append(int(str(sub.args[0]).split(":")[0].replace("line", "").strip()))
            return {"lines": lines}
        return {"err": err_name(e)}
    try:
        g = transform_summary(raw)
        out = []
        for name, sub in g.data.items():
            if not isinstance(sub, Group):
                return {"err": "KeyError"}  # an undocumented section code surfaces as a raw dict
            out.append([name, {"attrs": [[k, canon_sval(v)] for k, v in sub.attrs.items()],
                               "groups": [[n, [[k, canon_sval(v)] for k, v in gg.attrs.items()]] for n, gg in sub.groups.items()]}])
        return {"ok": out}
    except Exception as e:  # noqa: BLE001
        return {"err": err_name(e)}


def sval_match(m, r):
    if "fv" in r:
        if "f" not in m:
            return False
        a = float(m["f"])
        return (math.isnan(a) and math.isnan(r["fv"])) or a == r["fv"]
    return m == r


def summary_match(m, r):
    if set(m) != set(r):
        return False
    if "ok" not in m:
        return m == r
    if [g[0] for g in m["ok"]] != [g[0] for g in r["ok"]]:
        return False
    for (_, mg), (_, rg) in zip(m["ok"], r["ok"]):
        if [a[0] for a in mg["attrs"]] != [a[0] for a in rg["attrs"]] or [g[0] for g in mg["groups"]] != [g[0] for g in rg["groups"]]:
            return False
        if not all(sval_match(a[1], b[1]) for a, b in zip(mg["attrs"], rg["attrs"])):
            return False
        for (_, ma), (_, ra) in zip(mg["groups"], rg["groups"]):
            if [a[0] for a in ma] != [a[0] for a in ra] or not all(sval_match(a[1], b[1]) for a, b in zip(ma, ra)):
                return False
    return True


VALUE_ALPHABET = "abcXYZ019 =\"'_-.:/µ"


def gen_summary(rng, n_files=None):
    import synth
    n_files = n_files or rng.randint(3, 10)
    pid = rng.choice(list(all_product_ids()))
    names = [f"F{i}-{rng.randint(0, 999)}" for i in range(n_files)]
    lines = synth.default_summary_lines(pid, names, [], level=rng.choice(["1.1", "1.5"]))
    for i in range(rng.randint(0, 3)):
        lines.append(f'Pdi_NoOfPixels_{i}="{rng.randint(1, 99999)}"')
        lines.append(f'Pdi_NoOfLines_{i}="{rng.randint(1, 99999)}"')
    for _ in range(rng.randint(0, 4)):
        sec = rng.choice(["Odi", "Rad", "Ach", "Lbi"])
        val = "".join(rng.choice(VALUE_ALPHABET) for _ in range(rng.randint(0, 12)))
        lines.append(f'{sec}_Extra{rng.randint(0, 99)}="{val}"')
    return lines


def corrupt(rng, line):
    r = rng.random()
    if r < 0.2:
        return line.replace('="', '"', 1)
    if r < 0.4:
        return line[:-1]
    if r < 0.55:
        return line.replace("_", "", 1)
    if r < 0.7:
        return "X" + line
    if r < 0.8:
        return line + " "
    if r < 0.9:
        return ""
    return line.replace("=", " = ", 1)


def gen_summary_cases(seed, tier):
    rng = random.Random(seed + 14)
    cases = []
    for _ in range(60 if tier == "quick" else 1200):
        lines = gen_summary(rng)
        mode = rng.random()
        kind = "well-formed"
        if mode < 0.35:
            rng.shuffle(lines)
            kind = "shuffled"
        elif mode < 0.5:
            # permute whole sections / within sections
            lines.sort(key=lambda ln: (rng.random(), ln[:3]))
            kind = "interleaved"
        if rng.random() < 0.3:
            k = rng.randint(1, 4)
            for i in rng.sample(range(len(lines)), min(k, len(lines))):
                lines[i] = corrupt(rng, lines[i])
            kind = "corrupted"
        if rng.random() < 0.15:
            i = rng.randrange(len(lines))
            lines[i] = rng.choice(['Pdi_BitPixel="x"', 'Img_OffNadirAngle="1,5"', 'Scs_SceneID="ALOS2290760600-191311"', 'Pds_ProductID="WWDR1.5RUX"',
                                   'Lbi_ProcessFacility="NOPE"', 'Xyz_Key="v"', 'Img_SceneCenterDateTime="20191011"', 'SCS_SceneShift="3"', 'scs_SceneShift="4"',
                                   'Pds_ResamplingMethod="XX"', 'Pdi_NoOfPixels_7="12"'])
            kind = "semantic-error"
        eol = rng.choice(["\n", "\r\n", "\n", "\r"])
        text = eol.join(lines) + (eol if rng.random() < 0.8 else "")
        cases.append((kind, text))
    cases += [("edge", ""), ("edge", "\n"), ("edge", "Abc_k=\"v\""), ("edge", "Abc_k=\"v\"\x0bAbc_j=\"w\""), ("edge", "Ab_k=\"v\""),
              ("edge", "Abc_=\"\""), ("edge", "Abc_a=\"b\"=\"c\""), ("edge", "Abc_a=\"b\"\"")]
    return cases


def check_summary(seed, tier):
    cases = gen_summary_cases(seed, tier)
    outs = run_model([{"op": "summary", "text": t} for _, t in cases])
    bad, dist, distinct = [], {"kinds": {}, "outcomes": {}}, set()
    sample = None
    for (kind, text), m in zip(cases, outs):
        r = real_summary(text)
        distinct.add(text)
        dist["kinds"][kind] = dist["kinds"].get(kind, 0) + 1
        oc = "ok" if "ok" in r else ("lines" if "lines" in r else r["err"])
        dist["outcomes"][oc] = dist["outcomes"].get(oc, 0) + 1
        if not summary_match(m, r):
            bad.append({"kind": kind, "text": text[:300], "real": str(r)[:3000], "model": str(m)[:3000]})
        elif sample is None and "lines" in r:
            sample = {"kind": kind, "malformed_lines": r["lines"], "n_lines": len(text.splitlines())}
    return {"name": "summary", "cases": len(cases), "distinct": len(distinct), "disagreements": bad, "distribution": dist, "sample": sample}


if __name__ == "__main__":
    import json
    import sys
    seed = int(sys.argv[1]) if len(sys.argv) > 1 else 0
    tier = sys.argv[2] if len(sys.argv) > 2 else "quick"
    for fn in (check_decoders, check_summary):
        r = fn(seed, tier)
        print(r["name"], r["cases"], r["distinct"], json.dumps(r["distribution"])[:300], "disagreements:", len(r["disagreements"]))
        for b in r["disagreements"][:8]:
            print("   ", json.dumps(b, default=str, ensure_ascii=False)[:700])

"""Correspondence (H3): ceos_alos2.array.Array.__getitem__ / sar_image.io.read_metadata  vs  the Lean model.

Every random choice derives from one `random.Random(seed)`.
"""
import io
import itertools
import random
import struct

from common import TraceFS, err_name, run_model


# ---------------------------------------------------------------------------------------------
def idx_json(k):
    if isinstance(k, slice):
        return {"slice": [k.start, k.stop, k.step]}
    return {"int": int(k)}


def canon_result(arr, type_code):
    import numpy as np

    be = np.asarray(arr).astype(">c8" if type_code == "C*8" else ">u2")
    size = 8 if type_code == "C*8" else 2

    raw = be.tobytes()
    flat = [raw[i * size:(i + 1) * size].hex() for i in range(be.size)]
    if be.ndim == 2:
        w = be.shape[1]
        return {"d2": [w, [flat[i * w:(i + 1) * w] for i in range(be.shape[0])]]}
    if be.ndim == 1:
        return {"d1": flat}
    return {"d0": flat[0]}


def real_getitem(case):
    from ceos_alos2.array import Array

    fs = TraceFS({"img": case["file"]})
    arr = Array(fs=fs, url="img", byte_ranges=[tuple(r) for r in case["ranges"]],
                shape=(len(case["ranges"]), case["ncols"]), dtype=case["dtype"],
                type_code=case["type_code"], records_per_chunk=case["rpc_raw"])
    tr = []
    try:
        out = arr[(case["k0"], case["k1"])]
        res = {"ok": canon_result(out, case["type_code"])}
    except Exception as e:  # noqa: BLE001
        res = {"err": err_name(e)}
    for ev in fs.log:
        if ev[0] == "open":
            tr.append(["open"])
        else:
            tr.append(ev)
    res["trace"] = tr
    res["rpc_norm"] = arr.records_per_chunk
    return res


def make_image(rng, n, ncols, bpp, layout):
    """file bytes + byte ranges. layout: 'regular' (gap P before every row), 'irregular' (random gaps)"""
    out = bytearray(rng.randbytes(rng.choice([0, 3, 720])))
    ranges = []
    P = rng.choice([0, 1, 12, 192])
    for i in range(n):
        gap = P if layout == "regular" else rng.randint(0, 9)
        out += rng.randbytes(gap)
        s = len(out)
        out += rng.randbytes(ncols * bpp)
        ranges.append([s, len(out)])
    out += rng.randbytes(rng.choice([0, 5]))
    return bytes(out), ranges


def slice_cube(n, extra=2):
    vals = [None] + list(range(-n - extra, n + extra + 1))
    steps = [None, 1, 2, 3, -1, -2, -3, n + 1, -(n + 1)]
    for a in vals:
        for b in vals:
            for c in steps:
                yield slice(a, b, c)


def gen_getitem_cases(seed, tier):
    rng = random.Random(seed)
    cases = []
    small = 4 if tier == "quick" else 5

    def add(n, ncols, tc, rpc, k0, k1, layout="regular", file=None, ranges=None):
        bpp = 8 if tc == "C*8" else 2
        if file is None:
            file, ranges = make_image(rng, n, ncols, bpp, layout)
        cases.append({"file": file, "ranges": ranges, "ncols": ncols, "bpp": bpp, "type_code": tc,
                      "dtype": "complex64" if tc == "C*8" else "uint16", "rpc_raw": rpc,
                      "k0": k0, "k1": k1})
        return file, ranges

    # exhaustive row cube on small images, a few column keys
    for n in range(0, small + 1):
        tc = "IU2" if n % 2 else "C*8"
        ncols = 3
        for rpc in range(1, n + 3):
            file, ranges = None, None
            for k0 in itertools.chain(slice_cube(n, 1 if tier == "quick" else 2), range(-n - 2, n + 3)):
                if tier == "quick" and rng.random() < 0.75:
                    continue
                k1 = rng.choice([slice(None), slice(None, None, -1), slice(1, None), -1, 0, slice(0, 0), slice(None, None, 2), 5])
                file, ranges = add(n, ncols, tc, rpc, k0, k1, file=file, ranges=ranges)
    # column cube
    for ncols in range(0, 4):
        n = 3
        for k1 in itertools.chain(slice_cube(ncols, 1), range(-ncols - 2, ncols + 3)):
            if rng.random() < (0.7 if tier == "quick" else 0.3):
                continue
            k0 = rng.choice([slice(None), 1, -1, slice(None, None, -1), slice(2, 0)])
            add(n, ncols, rng.choice(["IU2", "C*8"]), rng.randint(1, 4), k0, k1)
    # random larger, irregular layouts, step zero
    for _ in range(150 if tier == "quick" else 3000):
        n = rng.randint(1, 40)
        ncols = rng.randint(1, 6)
        rpc = rng.choice([1, 2, 3, 7, n - 1 if n > 1 else 1, n, n + 1, 1024, 10**9])

        def rkey(m):
            r = rng.random()
            if r < 0.2:
                return rng.randint(-m - 1, m)
            if r < 0.25:
                return slice(None, None, 0)
            f = lambda: rng.choice([None, rng.randint(-m - 2, m + 2)])  # noqa: E731
            return slice(f(), f(), rng.choice([None, 1, 2, 3, -1, -2, 5, -7]))
        add(n, ncols, rng.choice(["IU2", "C*8"]), rpc, rkey(n), rkey(ncols), rng.choice(["regular", "irregular"]))
    return cases


def check_getitem(seed, tier):
    cases = gen_getitem_cases(seed, tier)
    ops = []
    reals = []
    for c in cases:
        r = real_getitem(c)
        reals.append(r)
        ops.append({"op": "getitem", "file": c["file"].hex(), "ranges": c["ranges"], "ncols": c["ncols"],
                    "bpp": c["bpp"], "rpc": r["rpc_norm"], "k0": idx_json(c["k0"]), "k1": idx_json(c["k1"])})
    outs = run_model(ops)
    bad = []
    dist = {"ok": 0, "err": {}, "int_row": 0, "neg_step": 0, "empty": 0, "multi_chunk": 0}
    distinct = set()
    for c, r, m in zip(cases, reals, outs):
        rr = {k: v for k, v in r.items() if k != "rpc_norm"}
        # on error the real trace may be partial in the same way as the model's; compare fully
        if rr != m:
            bad.append({"case": {**{k: (v.hex() if isinstance(v, bytes) else repr(v) if isinstance(v, slice) else v)
                                    for k, v in c.items()}}, "real": rr, "model": m})
        if "ok" in rr:
            dist["ok"] += 1
            if "d2" in rr["ok"] and not rr["ok"]["d2"][1]:
                dist["empty"] += 1
        else:
            dist["err"][rr["err"]] = dist["err"].get(rr["err"], 0) + 1
        if not isinstance(c["k0"], slice):
            dist["int_row"] += 1
        elif c["k0"].step is not None and c["k0"].step < 0:
            dist["neg_step"] += 1
        if sum(1 for e in rr["trace"] if e[0] == "read") > 1:
            dist["multi_chunk"] += 1
        distinct.add((len(c["ranges"]), c["ncols"], c["rpc_raw"], repr(c["k0"]), repr(c["k1"]), c["type_code"]))
    return {"name": "getitem", "cases": len(cases), "distinct": len(distinct), "disagreements": bad, "distribution": dist,
            "sample": {"n": len(cases[-1]["ranges"]), "ncols": cases[-1]["ncols"], "rpc": cases[-1]["rpc_raw"],
                       "k0": repr(cases[-1]["k0"]), "k1": repr(cases[-1]["k1"]), "real": reals[-1].get("ok", reals[-1].get("err"))}}


# ---------------------------------------------------------------------------------------------
# read_metadata


class TraceIO(io.BytesIO):
    def __init__(self, data):
        super().__init__(data)
        self.reads = []

    def read(self, size=-1):
        self.reads.append(size)
        return super().read(size)


def make_image_file(rng, n, ncols, level, hdr_n=None, hdr_L=None, bad=None):
    """A syntactically valid image file built with the independent synthesiser."""
    import synth

    layouts, required = _spec()
    im = synth.build_image(layouts, required, rng, level, "HH", None, n, ncols, "WWDR1.5RUA")
    data = bytearray(im.data)
    return im, data


_SPEC = None


def _spec():
    global _SPEC
    if _SPEC is None:
        import synth
        _SPEC = (synth.load_layouts(), synth.load_required())
    return _SPEC


def real_readmeta(data, rpc):
    from ceos_alos2.sar_image.io import read_metadata

    f = TraceIO(bytes(data))
    try:
        header, metadata = read_metadata(f, rpc)
        res = {"ok": [[m["record_start"], m["data"]["start"], m["data"]["stop"]] for m in metadata]}
    except Exception as e:  # noqa: BLE001
        res = {"err": err_name(e)}
    res["reads"] = f.reads[1:]  # first is the 720-byte descriptor
    res["first"] = f.reads[0] if f.reads else None
    return res


def gen_readmeta_cases(seed, tier):
    rng = random.Random(seed + 1)
    cases = []
    geos = [(n, m) for n in range(0, 6) for m in (1, 3)]
    if tier != "quick":
        geos += [(rng.randint(6, 60), rng.randint(1, 5)) for _ in range(30)]
    for n, m in geos:
        for level in ("1.1", "1.5"):
            im, data = make_image_file(rng, n, m, level)
            L, P = im.record_len, im.prefix_len
            rpcs = sorted({1, 2, 3, max(1, n - 1), max(1, n), n + 1, 1024})
            cuts = [None]
            full = len(data)
            # truncations: every record boundary +-1, and a few random ones
            pts = set()
            for i in range(n + 1):
                for d in (-1, 0, 1):
                    pts.add(720 + i * L + d)
                pts.add(720 + i * L + P)
                pts.add(720 + i * L + 11)
                pts.add(720 + i * L + 12)
            pts |= {rng.randint(0, full) for _ in range(4)}
            cuts += sorted(p for p in pts if 720 <= p < full)
            if tier == "quick":
                cuts = [None] + rng.sample(cuts[1:], min(len(cuts) - 1, 6))
                rpcs = rng.sample(rpcs, min(len(rpcs), 3))
            elif n > 5:
                # the large geometries of the thorough tier: every boundary class is still hit, by sampling (the exhaustive
                # enumeration over the small geometries stays); bounds time and memory (tens of kB per case)
                cuts = [None] + rng.sample(cuts[1:], min(len(cuts) - 1, 40))
                rpcs = rng.sample(rpcs, min(len(rpcs), 4))
            for rpc in rpcs:
                for cut in cuts:
                    d = bytes(data if cut is None else data[:cut])
                    cases.append({"data": d, "n": n, "L": L, "P": P, "rpc": rpc, "kind": "cut" if cut is not None else "whole", "level": level})
            # corruptions: record length field of one record, record type, declared count/length
            if n >= 1:
                for _ in range(2 if tier == "quick" else 6):
                    d = bytearray(data)
                    i = rng.randrange(n)
                    kind = rng.choice(["rl", "type", "hdr_n", "hdr_L"])
                    nn, LL = n, L
                    if kind == "rl":
                        d[720 + i * L + 8:720 + i * L + 12] = struct.pack(">L", rng.choice([0, 2 * L, 10**9, 3 * L]))  # values that keep later records aligned (or run off the stream)
                    elif kind == "type":
                        d[720 + i * L + 5] = rng.choice([12, 0, 255, 10 if level == "1.1" else 11])  # cross-type parses are the layout model's business
                    elif kind == "hdr_n":
                        nn = rng.choice([n + 1, max(0, n - 1), n + 5])
                        d[180:186] = str(nn).rjust(6).encode()
                    else:
                        LL = rng.choice([L + 1, L - 1, 2 * L, 12, 1])
                        d[186:192] = str(LL).rjust(6).encode()
                    cases.append({"data": bytes(d), "n": nn, "L": LL, "P": P, "rpc": rng.choice([1, 2, n, n + 1]),
                                  "kind": kind, "level": level})
    return cases


def check_readmeta(seed, tier, types):
    cases = gen_readmeta_cases(seed, tier)
    reals, outs = [], []
    for k in range(0, len(cases), 2000):  # in batches: bounded memory
        batch = cases[k:k + 2000]
        reals += [real_readmeta(c["data"], c["rpc"]) for c in batch]
        outs += run_model([{"op": "readmeta", "file": c["data"].hex(), "n": c["n"], "L": c["L"], "rpc": c["rpc"], "types": types} for c in batch])
    bad = []
    dist = {"ok": 0, "err": {}, "kinds": {}, "deferred_to_layout_model": 0}
    distinct = set()
    # The addressing model reads record type and length only; it ASSUMES the fields of a record of a known type parse.  A
    # corrupted length / type can make the reader frame garbage as a record, whose fields then fail to convert (a year beyond
    # the C int range in the time stamp ...).  Such a disagreement is referred to the LAYOUT-based model of the same reader
    # (`readImageRecords`, every field interpreted): it must give the real code's outcome.
    suspects = [i for i, (c, r, m) in enumerate(zip(cases, reals, outs))
                if c["kind"] in ("hdr_L", "rl", "type", "hdr_n") and {k: v for k, v in r.items() if k != "first"} != m]
    second = dict(zip(suspects, run_model([{"op": "read_records", "file": cases[i]["data"].hex(), "rpc": cases[i]["rpc"]} for i in suspects]))) if suspects else {}
    for i, (c, r, m) in enumerate(zip(cases, reals, outs)):
        first = r.pop("first")
        if first != 720:
            bad.append({"case": "first read is not 720", "real": first})
        if r != m:
            lm = second.get(i)
            if lm is not None and "err" in r and lm.get("err") == r["err"]:
                dist["deferred_to_layout_model"] += 1
            else:
                bad.append({"case": {k: (v.hex() if isinstance(v, bytes) else v) for k, v in c.items()}, "real": r, "model": m,
                            "layout_model": lm})
        if "ok" in r:
            dist["ok"] += 1
        else:
            dist["err"][r["err"]] = dist["err"].get(r["err"], 0) + 1
        dist["kinds"][c["kind"]] = dist["kinds"].get(c["kind"], 0) + 1
        distinct.add((c["n"], c["L"], c["rpc"], len(c["data"]), c["kind"]))
    return {"name": "read_metadata", "cases": len(cases), "distinct": len(distinct), "disagreements": bad, "distribution": dist,
            "sample": {"n": cases[0]["n"], "L": cases[0]["L"], "rpc": cases[0]["rpc"], "len": len(cases[0]["data"]), "real": reals[0]}}


if __name__ == "__main__":
    import json
    import sys

    seed = int(sys.argv[1]) if len(sys.argv) > 1 else 0
    r = check_getitem(seed, "quick")
    print(json.dumps({k: v for k, v in r.items() if k != "disagreements"}, default=str)[:1500])
    print("disagreements:", len(r["disagreements"]))
    for b in r["disagreements"][:5]:
        print(json.dumps(b, default=str)[:600])
    r = check_readmeta(seed, "quick", [[10, 544], [11, 192]])
    print(json.dumps({k: v for k, v in r.items() if k != "disagreements"}, default=str)[:1500])
    print("disagreements:", len(r["disagreements"]))
    for b in r["disagreements"][:5]:
        b["case"].pop("data", None)
        print(json.dumps(b, default=str)[:600])

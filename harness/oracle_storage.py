"""The product is its files, not where or how they are stored: the same synthesised product reached through every kind of storage
the unchanged reader supports — a plain directory, `file://` / `local://` URLs, the in-memory filesystem (deep, trailing slash),
user-defined protocols (subclasses of the memory and of the local filesystem), archives (`zip://dir::file://a.zip`, `tar://…`),
fsspec's caching wrappers (`simplecache::`, `filecache::`, `blockcache::`), non-default `storage_options`, and a directory that
holds more than the product (browse images, editor backups, a nested copy, files of another scene, symlinks, placeholders) —
must open (without index cache) to the tree of the plain directory, bit for bit, pixels included, and selections must load the
same samples."""
import os
import random
import shutil
import tarfile
import tempfile
import zipfile

import numpy as np

import common
import products
import synth
import treecmp


def _open(path, **opts):
    import ceos_alos2
    o = {"use_cache": False}
    o.update(opts)
    return ceos_alos2.open_alos2(path, backend_options=o)


def _register():
    import fsspec
    from fsspec.implementations.local import LocalFileSystem

    class VLoc(LocalFileSystem):
        protocol = "vloc"

    fsspec.register_implementation("vloc", VLoc, clobber=True)
    common.register_trace_protocol()      # `tracemem://`: the harness's own user-defined in-memory protocol


def _register_ranged():
    """`ranged://`: an object store in the style of HTTP / S3 filesystems — files are fetched by byte range through a buffered
    reader (`AbstractBufferedFile._fetch_range`); asked for `block_size=0` it hands out a forward-only STREAM (no seek, short
    reads), as fsspec's HTTP filesystem does; listings come from a dict"""
    import io
    import fsspec
    from fsspec.spec import AbstractBufferedFile, AbstractFileSystem

    class _Ranged(AbstractBufferedFile):
        def _fetch_range(self, start, end):
            return self.fs.store[self.path][start:end]

    class _Stream(io.RawIOBase):
        def __init__(self, data):
            self._b = io.BytesIO(data)

        def readable(self):
            return True

        def seekable(self):
            return False

        def seek(self, *a, **k):
            raise ValueError("Cannot seek streaming file")

        def read(self, n=-1):
            return self._b.read(min(n, 700) if n is not None and n >= 0 else -1)   # short reads

        def __enter__(self):
            return self

        def __exit__(self, *a):
            self.close()

    class RangedFS(AbstractFileSystem):
        protocol = "ranged"
        store = {}
        cachable = False

        @classmethod
        def _strip_protocol(cls, path):
            path = str(path)
            if path.startswith("ranged://"):
                path = path[len("ranged://"):]
            return "/" + path.strip("/") if path.strip("/") else ""

        def ls(self, path, detail=True, **kw):
            path = self._strip_protocol(path)
            out, seen = [], set()
            for k, v in self.store.items():
                if k == path:
                    out.append({"name": k, "size": len(v), "type": "file"})
                elif k.startswith(path + "/"):
                    child = path + "/" + k[len(path) + 1:].split("/")[0]
                    if child in seen:
                        continue
                    seen.add(child)
                    out.append({"name": child, "size": len(v), "type": "file"} if child == k else {"name": child, "size": 0, "type": "directory"})
            if not out:
                raise FileNotFoundError(path)
            return out if detail else [o["name"] for o in out]

        def info(self, path, **kw):
            path = self._strip_protocol(path)
            if path in self.store:
                return {"name": path, "size": len(self.store[path]), "type": "file"}
            if any(k.startswith(path + "/") for k in self.store):
                return {"name": path, "size": 0, "type": "directory"}
            raise FileNotFoundError(path)

        def cat_file(self, path, start=None, end=None, **kw):
            path = self._strip_protocol(path)
            if path not in self.store:
                raise FileNotFoundError(path)
            return self.store[path][start:end]

        def _open(self, path, mode="rb", block_size=None, autocommit=True, cache_options=None, **kw):
            path = self._strip_protocol(path)
            if path not in self.store:
                raise FileNotFoundError(path)
            if block_size == 0:
                return _Stream(self.store[path])
            return _Ranged(self, path, mode=mode, block_size=block_size or 4096, cache_type="readahead", cache_options=cache_options, **kw)

    fsspec.register_implementation("ranged", RangedFS, clobber=True)
    return RangedFS


def storages(rng, prod, stem):
    """yield (name, url, backend options, cleanup)"""
    import fsspec
    _register()
    plain = os.path.join(stem, "plain")
    synth.write_product(prod, plain)
    yield "file-url", "file://" + plain, {}, None
    yield "local-url", "local://" + plain, {}, None
    yield "user-protocol-local", "vloc://" + plain, {}, None
    for name, so in (("auto_mkdir", {"auto_mkdir": True}), ("skip_instance_cache", {"skip_instance_cache": True}),
                     ("use_listings_cache", {"use_listings_cache": False})):
        yield "storage_options:" + name, plain, {"storage_options": so}, None
    # in-memory forms
    mfs = fsspec.filesystem("memory")
    deep = f"/st{rng.randrange(10**9)}/a/b/product"
    synth.write_product(prod, deep, fs=mfs)
    yield "memory-deep-trailing-slash", f"memory://{deep}/", {}, lambda: mfs.rm(deep.split("/a/")[0], recursive=True)
    vfs = fsspec.filesystem("tracemem")
    vroot = f"/v{rng.randrange(10**9)}"
    synth.write_product(prod, vroot, fs=vfs)
    yield "user-protocol-memory", f"tracemem://{vroot}", {}, lambda: vfs.rm(vroot, recursive=True)
    # an object store read by byte ranges
    RangedFS = _register_ranged()
    rroot = f"/bucket{rng.randrange(10**9)}/scene"
    for n, b in prod.files.items():
        RangedFS.store[f"{rroot}/{n}"] = bytes(b)
    yield "ranged-object-store", f"ranged://{rroot}", {}, lambda: [RangedFS.store.pop(k) for k in [k for k in RangedFS.store if k.startswith(rroot)]]
    # archives
    base = "scene-dir"
    # (the process works in a directory that holds an UNPACKED OLDER DELIVERY under the same relative name: same file names,
    #  other bytes — nothing of it may be read when the archive is the product)
    decoy = products.build(dict(prod.cfg, seed=prod.cfg["seed"] + 77))
    workdir = os.path.join(stem, "workdir")
    synth.write_product(decoy, os.path.join(workdir, base))
    zp = os.path.join(stem, "a.zip")
    with zipfile.ZipFile(zp, "w") as z:
        for n, b in prod.files.items():
            z.writestr(f"{base}/{n}", b)
    yield "zip", f"zip://{base}::file://{zp}", {"__cwd__": workdir}, None
    tp = os.path.join(stem, "a.tar")
    with tarfile.open(tp, "w") as t:
        t.add(plain, arcname=base)
    yield "tar", f"tar://{base}::file://{tp}", {"__cwd__": workdir}, None
    # caching wrappers
    for w in ("simplecache", "filecache", "blockcache"):
        cdir = os.path.join(stem, "cache-" + w)
        yield w, f"{w}::file://{plain}", {"storage_options": {w: {"cache_storage": cdir}}}, None
        yield w + "-again", f"{w}::file://{plain}", {"storage_options": {w: {"cache_storage": cdir}}}, None   # now served from the copy
    # a directory that holds more than the product
    crowded = os.path.join(stem, "crowded")
    synth.write_product(prod, crowded)
    names = list(prod.files)
    img = [n for n in names if n.startswith("IMG")][0]
    extras = {".DS_Store": b"\x00\x00\x00\x01Bud1", "Thumbs.db": b"\xd0\xcf\x11\xe0", "summary.txt~": b"Odi_Stale=\"1\"\n", "BRS-HH-" + img[7:] + ".jpg": b"\xff\xd8\xff",
              img + ".kml": b"<kml/>", "IMG-HH-ALOS2000000000-140101-WWDR1.5RUA": b"other scene", "LED-ALOS2000000000-140101-WWDR1.5RUA": b"x" * 10,
              "zero-length": b"", "README": b"not a product file\n"}
    for n, b in extras.items():
        with open(os.path.join(crowded, n), "wb") as f:
            f.write(b)
    os.makedirs(os.path.join(crowded, "copy"))
    synth.write_product(prod, os.path.join(crowded, "copy"))
    with open(os.path.join(crowded, "copy", "summary.txt"), "wb") as f:
        f.write(b"garbage that must never be read\n")
    yield "crowded-directory", crowded, {}, None
    # the product's files are symlinks to files stored elsewhere
    links = os.path.join(stem, "links")
    os.makedirs(links)
    for n in names:
        os.symlink(os.path.join(plain, n), os.path.join(links, n))
    yield "symlinked-files", links, {}, None


def check(seed, tier):
    import warnings
    warnings.filterwarnings("ignore")
    rng = random.Random(seed + 4242)
    viol, evals, distinct, samples = [], 0, set(), []
    for trial in range(1 if tier == "quick" else 6):
        level = ["1.5", "1.1"][(trial + seed) % 2]
        cfg = {"seed": rng.randrange(10**9), "level": level, "images": [("HH", None), ("HV", rng.choice([None, "F3"]))],
               "n_lines": rng.randint(3, 6), "n_pixels": rng.randint(2, 3), "n_att": 1, "n_chan": 1, "mapproj": rng.choice([None, "UTM"])}
        prod = products.build(cfg)
        stem = tempfile.mkdtemp(prefix="storage-", dir=common.SCRATCH)
        home = os.getcwd()
        try:
            gen = storages(rng, prod, stem)
            ref = None
            for name, url, opts, cleanup in gen:
                try:
                    if ref is None:
                        rpc = rng.choice([1, 2, 1024])
                        t0 = _open(os.path.join(stem, "plain"), records_per_chunk=rpc)
                        ref = treecmp.fingerprint_tree(t0)
                        ref_sel = {g: np.asarray(t0[f"imagery/{g}/data"].isel(rows=slice(1, None), columns=[0, -1]).values)
                                   for g in (products.group_name(im) for im in prod.images)}
                        ref_last = {g: np.asarray(t0[f"imagery/{g}/data"].isel(rows=-1).values) for g in ref_sel}
                    evals += 1
                    distinct.add((level, name))
                    opts = dict(opts)
                    chdir_to = opts.pop("__cwd__", None)
                    if chdir_to:
                        os.chdir(chdir_to)
                    case = {"cfg": cfg, "storage": name, "url": url.replace(stem, "<tmp>"), "options": opts, "rpc": rpc,
                            "working_directory": "holds an unpacked older delivery under the same relative name" if chdir_to else "unrelated"}
                    import copy
                    given = {"use_cache": False, "records_per_chunk": rpc, **copy.deepcopy(opts)}
                    before = copy.deepcopy(given)
                    import ceos_alos2
                    t = ceos_alos2.open_alos2(url, backend_options=given)
                    if given != before:
                        viol.append({"case": case, "what": f"open_alos2 modified the caller's options (compared deeply): {before} -> {given}"[:400]})
                    d = treecmp.diff(ref, treecmp.fingerprint_tree(t))
                    if d:
                        viol.append({"case": case, "what": f"the product reached through '{name}' differs from the plain directory: " + d})
                        continue
                    for g, want in ref_sel.items():
                        # selections confined to one request group and spanning several, at a chunk size above and below the line count
                        for rpc2 in (1024, 1, 2):
                            da2 = _open(url, records_per_chunk=rpc2, **opts)[f"imagery/{g}/data"]
                            got = np.asarray(da2.isel(rows=slice(1, None), columns=[0, -1]).values)
                            one = np.asarray(da2.isel(rows=-1).values)
                            if got.shape != want.shape or not products.same_bits(got, want) or not products.same_bits(one, ref_last[g]):
                                viol.append({"case": {**case, "rpc": rpc2}, "what": f"a selection of /imagery/{g}/data loaded through '{name}' differs from the plain directory"})
                    if len(samples) < 2:
                        samples.append({"storage": name, "url": case["url"]})
                except Exception as e:  # noqa: BLE001
                    viol.append({"case": {"cfg": cfg, "storage": name, "url": url.replace(stem, "<tmp>"), "options": opts},
                                 "what": f"opening through '{name}' raised {type(e).__name__}: {e}"[:300], "key": common.failure_site(e)})
                finally:
                    os.chdir(home)
                    if cleanup:
                        try:
                            cleanup()
                        except Exception:  # noqa: BLE001
                            pass
        finally:
            shutil.rmtree(stem, ignore_errors=True)
    return {"name": "oracle:the same product through every kind of storage", "evaluations": evals, "distinct": len(distinct), "violations": viol, "samples": samples}


if __name__ == "__main__":
    import json
    import sys
    r = check(int(sys.argv[1]) if len(sys.argv) > 1 else 0, sys.argv[2] if len(sys.argv) > 2 else "quick")
    print(r["name"], r["evaluations"], r["distinct"], "violations:", len(r["violations"]))
    for v in r["violations"][:8]:
        print("  ", json.dumps(v, default=str)[:400])

#!/venv/bin/python
"""Check orchestrator:  run.py check <Cxx> [--tier quick|thorough]   |   run.py setup   |  run.py replay <file>

One run = translate (/repo -> lean/Alos2/Gen) -> lake build of the property's module cone -> audit
(sorry/axioms) -> correspondence of the models the property depends on -> end-to-end oracle ->
decision -> evidence/<id>.json.

Exit codes: 0 property held on everything explored; 1 VIOLATION (line printed); 2 infrastructure error.
"""
import argparse
import fcntl
import hashlib
import importlib
import json
import os
import re
import subprocess
import sys
import time
import traceback

VERIF = os.path.dirname(os.path.abspath(__file__))
sys.path.insert(0, os.path.join(VERIF, "harness"))
sys.path.insert(0, os.path.join(VERIF, "tools"))
LEAN = os.path.join(VERIF, "lean")
EVID = os.path.join(VERIF, "evidence")
REPLAYS = os.path.join(VERIF, "replays")

TRUSTED_BASE = [
    "Lean 4.33 kernel (thorough tier: re-checked with leanchecker)",
    "axioms allowed: propext, Classical.choice, Quot.sound (listed per theorem); no sorry/admit, no native_decide, no bv_decide, no own axioms",
    "tools/translate.py + tools/walk.py (printing of construct layouts, tables, regexes, constants into lean/Alos2/Gen)",
    "the hand-written models in lean/Alos2/Model tied to /repo by the seeded correspondence harness in /verif/harness (differential testing bounds what disagreements can be seen)",
    "spec/*.json: golden layouts / provenance frozen from the pinned commit after review (DESIGN.md section 8.4)",
    "third-party contracts exercised end-to-end but not proved: numpy, xarray, fsspec, construct, CPython json/float/int/datetime, dateutil, OS",
]

FORBIDDEN = re.compile(r"\b(sorry|admit|native_decide|bv_decide|implemented_by|unsafe)\b|^\s*axiom\s|maxHeartbeats\s+0")


def sh(cmd, cwd=None, timeout=3600, env=None):
    p = subprocess.run(cmd, cwd=cwd, capture_output=True, text=True, timeout=timeout, env=env, preexec_fn=_lift_limits)
    return p.returncode, p.stdout, p.stderr


MEM_LIMIT = 6 * 2**30


def _lift_limits():
    import resource
    soft, hard = resource.getrlimit(resource.RLIMIT_AS)
    resource.setrlimit(resource.RLIMIT_AS, (hard, hard))


def limit_memory():
    """a runaway allocation in the code under test (e.g. an unclamped chunk size) must surface as MemoryError, not hang the check"""
    import resource
    soft, hard = resource.getrlimit(resource.RLIMIT_AS)
    resource.setrlimit(resource.RLIMIT_AS, (MEM_LIMIT, hard))


class Lock:
    def __enter__(self):
        self.f = open(os.path.join(VERIF, ".lock"), "w")
        fcntl.flock(self.f, fcntl.LOCK_EX)
        return self

    def __exit__(self, *a):
        fcntl.flock(self.f, fcntl.LOCK_UN)
        self.f.close()


# ---------------------------------------------------------------------------------------------
# translate + build + audit


def translate():
    """regenerate lean/Alos2/Gen from /repo's working tree; returns (ok, info)"""
    try:
        import translate as T
        return True, T.main(os.path.join(LEAN, "Alos2", "Gen"))
    except Exception as e:  # noqa: BLE001
        return False, {"error": f"{type(e).__name__}: {e}", "trace": traceback.format_exc()[-1500:]}


def strip_comments(src):
    src = re.sub(r"/-.*?-/", "", src, flags=re.S)
    return "\n".join(ln.split("--")[0] for ln in src.split("\n"))


def import_cone(module):
    """files of the Alos2 library reachable from `module` through `import Alos2.*` lines"""
    seen, todo = {}, [module]
    while todo:
        m = todo.pop()
        if m in seen:
            continue
        path = os.path.join(LEAN, *m.split(".")) + ".lean"
        if not os.path.exists(path):
            continue
        seen[m] = path
        for imp in re.findall(r"^import\s+(Alos2\.\S+)", open(path, encoding="utf-8").read(), flags=re.M):
            todo.append(imp)
    return seen


def audit_sources(module):
    bad = []
    for m, p in sorted(import_cone(module).items()):
        for i, ln in enumerate(strip_comments(open(p, encoding="utf-8").read()).split("\n"), 1):
            if FORBIDDEN.search(ln):
                bad.append(f"{os.path.relpath(p, LEAN)}:{i}: {ln.strip()[:80]}")
    return bad


def theorems_of(module_file):
    src = strip_comments(open(module_file, encoding="utf-8").read())
    ns = re.findall(r"^namespace\s+(\S+)", src, flags=re.M)
    prefix = (ns[0] + ".") if ns else ""
    return [prefix + m for m in re.findall(r"^theorem\s+(\S+)", src, flags=re.M)]


def lake_build(targets):
    t0 = time.time()
    rc, out, err = sh(["lake", "build"] + targets, cwd=LEAN, timeout=3000)
    return rc == 0, (out + err)[-4000:], time.time() - t0


def print_axioms(module, thms):
    """returns {theorem: [axioms]} using `#print axioms` in a scratch file (not part of the library)."""
    if not thms:
        return {}
    body = f"import {module}\n" + "\n".join(f"#print axioms {t}" for t in thms) + "\n"
    path = os.path.join(LEAN, f".audit_{module.replace('.', '_')}.lean")
    with open(path, "w") as f:
        f.write(body)
    try:
        rc, out, err = sh(["lake", "env", "lean", path], cwd=LEAN, timeout=1200)
    finally:
        os.remove(path)
    res = {}
    text = out + err
    for t in thms:
        m = re.search(r"'" + re.escape(t) + r"' depends on axioms: \[(.*?)\]", text, flags=re.S)
        if m:
            res[t] = [a.strip() for a in m.group(1).replace("\n", " ").split(",") if a.strip()]
        elif re.search(r"'" + re.escape(t) + r"' does not depend on any axioms", text):
            res[t] = []
        else:
            res[t] = ["<unresolved: " + text[-300:].replace("\n", " ") + ">"]
    return res


ALLOWED_AXIOMS = {"propext", "Classical.choice", "Quot.sound"}


# ---------------------------------------------------------------------------------------------
# known findings


def load_known():
    with open(os.path.join(VERIF, "known_findings.json")) as f:
        return json.load(f)


def finding_for(known, pid, key):
    for f in known["findings"]:
        if f["property"] == pid and key is not None and re.fullmatch(f["key"], key):
            return f
    return None


# ---------------------------------------------------------------------------------------------


def write_replay(pid, payload):
    os.makedirs(REPLAYS, exist_ok=True)
    blob = json.dumps(payload, sort_keys=True, default=str)
    h = hashlib.sha256(blob.encode()).hexdigest()[:12]
    path = os.path.join(REPLAYS, f"{pid}-{h}.json")
    with open(path, "w") as f:
        json.dump(payload, f, indent=1, default=str)
    return path


ESCALATION_BUDGET_S = 300
DEEPEN_BUDGET_S = 240


def property_files(pid):
    """the source files a property is anchored in (properties.jsonl)"""
    with open(os.path.join(VERIF, "properties.jsonl")) as f:
        for line in f:
            d = json.loads(line)
            if d["id"] == pid:
                return list(d.get("anchors", {}).get("files", []))
    return []


class _Deadline(BaseException):
    """not an Exception: the oracles' own `except Exception` blocks must not swallow the deadline"""


def run_with_deadline(run_fn, fn, tier, seconds):
    """bounded failing-input search: an oracle that does not finish in time counts as 'nothing found'"""
    import signal

    def on_alarm(signum, frame):
        raise _Deadline()
    old = signal.signal(signal.SIGALRM, on_alarm)
    # repeating: if a handler inside the oracle swallows the first one (`except BaseException`), the next second raises again
    signal.setitimer(signal.ITIMER_REAL, seconds, 1.0)
    try:
        return run_fn(fn, tier)
    except _Deadline:
        return {"name": fn.__name__, "evaluations": 0, "distinct": 0, "note": f"escalated search stopped after {seconds}s"}
    finally:
        signal.setitimer(signal.ITIMER_REAL, 0)
        signal.signal(signal.SIGALRM, old)


ALT_ENV = {"TZ": "Pacific/Chatham", "PYTHONOPTIMIZE": "1",
           # default text / filesystem encoding ASCII instead of UTF-8 (C locale, UTF-8 mode and locale coercion off)
           "LC_ALL": "C", "LANG": "C", "PYTHONUTF8": "0", "PYTHONCOERCECLOCALE": "0"}
SCRATCH_ROOT = os.path.join(__import__("tempfile").gettempdir(), "alos2-verif-altenv-cwd")
ALT_ENV_BUDGET_S = {"quick": 900, "thorough": 7200}


def run_alt_env(pid, fn_name, tier, seed):
    env = dict(os.environ)
    env.update(ALT_ENV)
    env["PYTHONHASHSEED"] = str(1 + (seed * 7919 + 13) % 4000000000)
    env["VERIF_SEED"] = str(seed)
    env["VERIF_ALT_ENV"] = "0"
    name = f"{fn_name} [alt env: TZ={ALT_ENV['TZ']}, -O, ASCII default encoding, hash seed {env['PYTHONHASHSEED']}]"
    os.makedirs(SCRATCH_ROOT, exist_ok=True)
    try:
        p = subprocess.run([sys.executable, os.path.abspath(__file__), "_oracle", pid, "--fn", fn_name, "--tier", tier],
                           cwd=SCRATCH_ROOT, env=env, capture_output=True, text=True, timeout=ALT_ENV_BUDGET_S.get(tier, 900))
        line = [ln for ln in p.stdout.splitlines() if ln.startswith("@@RESULT@@")]
        if not line:
            return {"name": name, "evaluations": 0, "distinct": 0, "crash": f"no result (rc={p.returncode})", "trace": (p.stderr or "")[-1200:]}
        r = json.loads(line[-1][len("@@RESULT@@"):])
    except subprocess.TimeoutExpired:
        return {"name": name, "evaluations": 0, "distinct": 0, "note": "alternative-environment pass stopped at its time budget"}
    r["name"] = name
    for v in r.get("violations", []):
        if isinstance(v.get("case"), dict):
            v["case"]["environment"] = {**ALT_ENV, "PYTHONHASHSEED": env["PYTHONHASHSEED"], "cwd": SCRATCH_ROOT}
    return r


def check(pid, tier, seed):
    t0 = time.time()
    mod = importlib.import_module(f"props.{pid.lower()}")
    spec = mod.SPEC  # lean module, models used, description
    notes = []
    broken = []  # ties that no longer check: (kind, detail)

    with Lock():
        ok, tinfo = translate()
        if not ok:
            broken.append(("translator", tinfo["error"]))
        lean_module = f"Alos2.Props.{pid}"
        bok, blog, bsec = lake_build([lean_module, "Alos2"])
        if not bok:
            broken.append(("lake build " + lean_module, blog[-1500:]))
        forb = audit_sources(lean_module)
        if forb:
            broken.append(("forbidden constructs in lean sources", "; ".join(forb[:5])))
        thms = theorems_of(os.path.join(LEAN, "Alos2", "Props", f"{pid}.lean"))
        axioms = print_axioms(lean_module, thms) if bok else {}
        for t, ax in axioms.items():
            extra = [a for a in ax if a not in ALLOWED_AXIOMS]
            if extra:
                broken.append((f"axioms of {t}", ", ".join(extra)))
        checker = None
        if tier == "thorough" and bok:
            rc, out, err = sh(["lake", "env", "leanchecker", lean_module], cwd=LEAN, timeout=3000)
            checker = {"rc": rc, "tail": (out + err)[-300:]}
            if rc != 0:
                broken.append(("leanchecker " + lean_module, (out + err)[-500:]))

    # correspondence + oracle (outside the build lock)
    results = []
    model_ok = bok
    limit_memory()

    def run_fn(fn, t):
        try:
            return fn(seed, t)
        except BaseException as e:  # noqa: BLE001
            if isinstance(e, (KeyboardInterrupt, _Deadline)):
                raise
            return {"name": fn.__name__, "evaluations": 0, "distinct": 0, "crash": f"{type(e).__name__}: {e}",
                    "trace": traceback.format_exc()[-1500:]}

    # source fingerprints: when a file the property is anchored in differs (AST) from the tree the models were last validated
    # against, the quick tier runs the correspondences with the thorough parameters (time-boxed) — never an alarm by itself
    deepen = []
    if tier == "quick":
        try:
            import fingerprint
            ch = fingerprint.changed_files()
            anchored = set(property_files(pid))
            deepen = [f for f in (ch or []) if f in anchored or not anchored]
        except Exception as e:  # noqa: BLE001
            notes.append(f"fingerprints unavailable: {type(e).__name__}: {e}")
    if deepen:
        notes.append("anchored source files differ from the validated fingerprints (" + ", ".join(deepen[:6]) +
                     "): correspondences run with the thorough parameters")
    for fn in mod.checks(tier):
        if fn.__name__.startswith("corr") and not model_ok:
            continue
        if deepen and fn.__name__.startswith("corr"):
            r = run_with_deadline(run_fn, fn, "thorough", DEEPEN_BUDGET_S)
            if r.get("note", "").startswith("escalated search stopped"):
                r = run_fn(fn, tier)   # did not finish in time: fall back to the quick parameters
            else:
                r["name"] = r.get("name", fn.__name__) + " [deepened: source changed]"
            results.append(r)
            continue
        results.append(run_fn(fn, tier))

    # the properties hold in every process environment: the oracles once more in a subprocess with another time zone
    # (UTC+12:45 / +13:45 with DST), another string-hash seed, `python -O` (assert statements stripped), the C locale with an
    # ASCII default text / filesystem encoding, and another cwd
    for fn in mod.checks(tier):
        if fn.__name__.startswith("oracle") and os.environ.get("VERIF_ALT_ENV", "1") != "0":
            results.append(run_alt_env(pid, fn.__name__, tier, seed))

    def any_new_violation():
        kn = load_known()
        return any(finding_for(kn, pid, v.get("key")) is None for r in results for v in r.get("violations", []))

    tie_broken = bool(broken) or any(r.get("disagreements") or r.get("crash") for r in results)
    if tie_broken and not any_new_violation() and tier == "quick":
        # a tie no longer checks: escalate the failing-input search (oracles only, thorough parameters)
        notes.append("tie broken: failing-input search escalated to the thorough oracle parameters")
        for fn in mod.checks("thorough"):
            if fn.__name__.startswith("oracle"):
                r = run_with_deadline(run_fn, fn, "thorough", ESCALATION_BUDGET_S)
                r["name"] = r.get("name", fn.__name__) + " [escalated search]"
                results.append(r)

    known = load_known()
    violations, known_hits = [], {}
    evaluations = distinct = 0
    samples = []
    corr_total = 0
    for r in results:
        evaluations += r.get("evaluations", r.get("cases", 0))
        distinct += r.get("distinct", 0)
        if "sample" in r:
            samples.append({"check": r["name"], "case": r["sample"]})
        for s_ in r.get("samples", [])[:2]:
            samples.append({"check": r["name"], "case": s_})
        if r.get("crash"):
            broken.append((f"harness crash in {r['name']}", r["crash"] + " :: " + r.get("trace", "")[-600:]))
        if "disagreements" in r:
            corr_total += r.get("cases", 0)
            if r["disagreements"]:
                broken.append((f"correspondence {r['name']}", json.dumps(r["disagreements"][0], default=str)[:1500]))
        for v in r.get("violations", []):
            f = finding_for(known, pid, v.get("key"))
            if f is not None:
                known_hits.setdefault(f["id"], [f, 0])[1] += 1
            else:
                violations.append((r["name"], v))

    # expected findings that did not show (fine: they may have been repaired) are only noted
    for fid, (f, cnt) in known_hits.items():
        print(f"KNOWN-FINDING: property={pid} {f['what']} [{fid}; {cnt} case(s) this run]")

    status = 0
    replay = None
    if violations:
        name, v = violations[0]
        replay = write_replay(pid, {"property": pid, "kind": "failing-input", "check": name, "violation": v,
                                    "all_violations": len(violations), "seed": seed, "tier": tier,
                                    "replay_cmd": f"/venv/bin/python /verif/run.py replay {pid} <this file>"})
        print(f"VIOLATION property={pid} replay={replay}")
        status = 1
    elif broken:
        # a tie broke and the failing-input search (the oracles above ran on the same tree) found nothing
        replay = write_replay(pid, {"property": pid, "kind": "broken-tie", "broken": [{"what": k, "detail": d} for k, d in broken],
                                    "searched": [{"check": r["name"], "evaluations": r.get("evaluations", r.get("cases", 0))} for r in results],
                                    "seed": seed, "tier": tier})
        print(f"VIOLATION property={pid} replay={replay} no-failing-input-found")
        status = 1

    obligations = len(thms) + len(spec.get("gen_obligations", []))
    discharged = (len([t for t in thms if t in axioms and not [a for a in axioms[t] if a not in ALLOWED_AXIOMS]])
                  + len(spec.get("gen_obligations", []))) if bok else 0
    ev = {
        "property_id": pid,
        "tier": tier,
        "seed": seed,
        "level": "proof",
        "coverage": {
            "obligations": max(obligations, 1),
            "discharged": discharged,
            "checker_cmd": f"cd /verif/lean && lake build {lean_module} && lake env lean <#print axioms of each theorem>"
                           + (" && lake env leanchecker " + lean_module if tier == "thorough" else ""),
            "trusted_base": TRUSTED_BASE + spec.get("trusted_extra", []),
            "theorems": {t: axioms.get(t, ["<not built>"]) for t in thms},
            "build_seconds": round(bsec, 1),
            "leanchecker": checker,
            "translator": tinfo if ok else {"error": tinfo.get("error")},
            "traces_validated_against_impl": corr_total,
            "evaluations": max(evaluations, 1),
            "distinct_nontrivial": distinct,
            "rule": spec.get("rule", ""),
            "samples": samples[:6] or [{"note": "no sample recorded"}],
            "checks": [{k: v for k, v in r.items() if k in ("name", "cases", "evaluations", "distinct", "distribution", "crash")}
                       | {"disagreements": len(r.get("disagreements", [])), "violations": len(r.get("violations", []))} for r in results],
            "known_findings_seen": {fid: cnt for fid, (f, cnt) in known_hits.items()},
            "broken_ties": [k for k, _ in broken],
            "notes": notes,
            "statement": spec.get("statement", ""),
            "partial": spec.get("partial", ""),
        },
        "assumptions": spec.get("assumptions", []),
        "wall_s": round(time.time() - t0, 2),
        "violations": len(violations) + (1 if (broken and not violations) else 0),
    }
    os.makedirs(EVID, exist_ok=True)
    with open(os.path.join(EVID, f"{pid}.json"), "w") as f:
        json.dump(ev, f, indent=1, default=str)
    print(f"{pid} {tier} seed={seed}: theorems={len(thms)} discharged={discharged}/{obligations} corr={corr_total} "
          f"oracle_evals={evaluations} violations={len(violations)} broken={len(broken)} wall={ev['wall_s']}s")
    for k, d in broken:
        print(f"  BROKEN: {k}: {d[:300]}")
    return status


def setup():
    with Lock():
        ok, info = translate()
        print("translate:", "ok" if ok else info)
        bok, blog, bsec = lake_build(["Alos2", "Alos2.All"])
        print(f"lake build Alos2 Alos2.All: {'ok' if bok else 'FAILED'} in {bsec:.0f}s")
        if not bok:
            print(blog)
    return 0 if (ok and bok) else 2


def main():
    ap = argparse.ArgumentParser()
    ap.add_argument("cmd", choices=["check", "setup", "replay", "_oracle"])
    ap.add_argument("--fn")
    ap.add_argument("pid", nargs="?")
    ap.add_argument("path", nargs="?")
    ap.add_argument("--tier", default=os.environ.get("VERIF_TIER", "quick"))
    a = ap.parse_args()
    seed = int(os.environ.get("VERIF_SEED", "0"))
    if a.cmd == "setup":
        return setup()
    if a.cmd == "check":
        try:
            return check(a.pid, a.tier, seed)
        except subprocess.TimeoutExpired as e:
            print(f"TIMEOUT: {e}")
            return 2
        except Exception:  # noqa: BLE001
            traceback.print_exc()
            return 2
    if a.cmd == "_oracle":
        # one oracle function in THIS process (started by `check` with an alternative process environment); result as JSON
        mod = importlib.import_module(f"props.{a.pid.lower()}")
        fn = next(f for f in mod.checks(a.tier) if f.__name__ == a.fn)
        limit_memory()
        try:
            r = fn(seed, a.tier)
        except BaseException as e:  # noqa: BLE001
            r = {"name": a.fn, "evaluations": 0, "distinct": 0, "crash": f"{type(e).__name__}: {e}", "trace": traceback.format_exc()[-1500:]}
        sys.stdout.write("\n@@RESULT@@" + json.dumps(r, default=str) + "\n")
        return 0
    if a.cmd == "replay":
        mod = importlib.import_module(f"props.{a.pid.lower()}")
        with open(a.path) as f:
            payload = json.load(f)
        return mod.replay(payload)
    return 2


if __name__ == "__main__":
    sys.exit(main())
